"""Verdict bookkeeping: obligations, violations, known findings, evidence, exit status."""
import json
import os
import re
import sys
import time

from .facts import VERIF, AnalysisBroken

KNOWN = os.path.join(VERIF, "known_findings.txt")
# JV_OUT redirects evidence/ and reports/ (used when the checks are run against scratch copies in parallel)
OUT = os.environ.get("JV_OUT", VERIF)


def load_known():
    """known_findings.txt lines:
       finding property=C07 rule=C07-SCHED unit=ev.c function=f instance=x :: text
       fixed: property=C12 <commit> <what failed>
    Only 'finding' lines suppress anything."""
    out = {}
    if not os.path.exists(KNOWN):
        return out
    for line in open(KNOWN):
        line = line.strip()
        if not line.startswith("finding "):
            continue
        head, _, desc = line.partition("::")
        kv = dict(re.findall(r"(\w+)=(\S+)", head))
        key = (kv.get("property"), kv.get("rule"), kv.get("unit"), kv.get("function"), kv.get("instance"))
        out[key] = desc.strip()
    return out


class Check(object):
    def __init__(self, prop, tier="quick", explanation=""):
        self.prop = prop
        self.tier = tier
        self.t0 = time.time()
        self.rules = {}          # rule -> dict(obligations, discharged, instances, desc)
        self.violations = []     # dicts
        self.known_hits = []
        self.notes = []
        self.samples = []
        self.exceptions = []     # (rule, what, reason)
        self.explanation = explanation
        self.assumptions = []
        self.units = set()
        self.functions = 0
        self.known = load_known()
        self.extra = {}
        self.broken = None

    # ---- bookkeeping -------------------------------------------------------------
    def rule(self, rule, desc):
        self.rules.setdefault(rule, {"desc": desc, "obligations": 0, "discharged": 0, "instances": 0})

    def analysed(self, fn):
        self.units.add(fn.tu.name)
        self.functions += 1

    def ok(self, rule, what=None, n=1):
        r = self.rules[rule]
        r["obligations"] += n
        r["discharged"] += n
        if what is not None and len(self.samples) < 400:
            self.samples.append({"rule": rule, "obligation": what, "verdict": "discharged"})

    def instance(self, rule, n=1):
        self.rules[rule]["instances"] += n

    def exception(self, rule, what, reason):
        self.exceptions.append({"rule": rule, "what": what, "reason": reason})

    def note(self, msg):
        self.notes.append(msg)

    def violation(self, rule, unit, function, instance, loc, msg, path=None):
        """An unmet obligation.  Key (property, rule, unit, function, instance) - never a line."""
        r = self.rules[rule]
        r["obligations"] += 1
        key = (self.prop, rule, unit, function, str(instance))
        rec = {"property": self.prop, "rule": rule, "unit": unit, "function": function,
               "instance": str(instance), "loc": loc, "message": msg, "path": path or []}
        if key in self.known:
            rec["known"] = self.known[key]
            self.known_hits.append(rec)
        else:
            self.violations.append(rec)

    def floor(self, rule, minimum, count=None):
        c = self.rules[rule]["instances"] if count is None else count
        if c < minimum:
            raise AnalysisBroken("rule %s matched %d instances, below the confirmed floor %d "
                                 "(anchor moved or extractor lost it)" % (rule, c, minimum))

    # ---- output ------------------------------------------------------------------
    def finish(self):
        wall = time.time() - self.t0
        rdir = os.path.join(OUT, "reports", self.prop)
        lines = []
        seen = set()
        for rec in self.known_hits:
            k = (rec["rule"], rec["unit"], rec["function"], rec["instance"])
            if k in seen:
                continue
            seen.add(k)
            lines.append("KNOWN-FINDING: property=%s %s %s:%s %s -- %s" % (
                self.prop, rec["rule"], rec["unit"], rec["function"], rec["instance"], rec["known"] or rec["message"]))
        if self.violations:
            os.makedirs(rdir, exist_ok=True)
            for f in os.listdir(rdir):
                if f.endswith(".json"):
                    os.unlink(os.path.join(rdir, f))
        for i, rec in enumerate(self.violations):
            p = os.path.join(rdir, "%d.json" % i)
            with open(p, "w") as fh:
                json.dump(rec, fh, indent=1)
            lines.append("VIOLATION property=%s replay=%s" % (self.prop, p))
            lines.append("  %s %s in %s:%s instance=%s: %s" % (
                rec["rule"], rec["loc"], rec["unit"], rec["function"], rec["instance"], rec["message"]))
            for step in rec["path"][:30]:
                lines.append("      " + step)
        obligations = sum(r["obligations"] for r in self.rules.values())
        discharged = sum(r["discharged"] for r in self.rules.values())
        ev = {
            "property_id": self.prop,
            "tier": self.tier,
            "seed": int(os.environ.get("VERIF_SEED", "0") or 0),
            "level": "other",
            "coverage": {
                "explanation": self.explanation,
                "obligations": obligations,
                "discharged": discharged,
                "exhaustive": True,
                "units_parsed": sorted(self.units),
                "functions_analysed": self.functions,
                "rules": self.rules,
                "exceptions_applied": self.exceptions,
                "samples": self.samples[:60],
                "known_findings_reported": len(seen),
                "notes": self.notes[:80],
                "checker_cmd": "./check %s --tier %s" % (self.prop, self.tier),
            },
            "assumptions": self.assumptions,
            "wall_s": round(wall, 3),
            "violations": len(self.violations),
        }
        ev["coverage"].update(self.extra)
        os.makedirs(os.path.join(OUT, "evidence"), exist_ok=True)
        with open(os.path.join(OUT, "evidence", self.prop + ".json"), "w") as fh:
            json.dump(ev, fh, indent=1)
        for r, d in sorted(self.rules.items()):
            lines.append("rule %-18s instances=%-4d obligations=%-5d discharged=%-5d" % (
                r, d["instances"], d["obligations"], d["discharged"]))
        lines.append("%s %s: %d units, %d functions, %d obligations, %d discharged, %d known findings, "
                     "%d violations, %.1fs" % (self.prop, self.tier, len(self.units), self.functions,
                                               obligations, discharged, len(seen), len(self.violations), wall))
        print("\n".join(lines))
        return 1 if self.violations else 0


def path_lines(fn, block_ids, upto=None):
    """Render a block path as source lines (first element of each block)."""
    out = []
    last = None
    for b in block_ids:
        blk = fn.blocks[b]
        for n in blk.elems:
            if n.ln != last and n.k not in ("ref", "int"):
                last = n.ln
                out.append("%s: %s" % (n.loc, n.text()[:100]))
                break
    return out


class Probe(object):
    """A stand-in for Check that only collects what a rule reports; used to run a rule on its positive example."""
    def __init__(self):
        self.violations = []
        self.oks = 0
        self.extra = {}

    def rule(self, *a, **k):
        pass

    def instance(self, *a, **k):
        pass

    def analysed(self, *a, **k):
        pass

    def exception(self, *a, **k):
        pass

    def note(self, *a, **k):
        pass

    def floor(self, *a, **k):
        pass

    def ok(self, *a, **k):
        self.oks += 1

    def violation(self, rule, unit, function, instance, loc, msg, path=None):
        self.violations.append((rule, function, str(instance)))


def must_fire(chk, rule, run, example, expect):
    """Run `run(probe, program_of_example)`; the rule must report exactly the functions listed in `expect` (and none
    of the others in the file).  Failing that the checker itself is broken (exit 2)."""
    import os
    from .facts import Program, AnalysisBroken, VERIF
    prog = Program.load_example(os.path.join(VERIF, "examples", example))
    probe = Probe()
    run(probe, prog)
    got = sorted(set(f for (r, f, i) in probe.violations if r == rule))
    if got != sorted(expect):
        raise AnalysisBroken("rule %s on its example %s reported %s, expected %s" % (rule, example, got, sorted(expect)))
    chk.note("%s: positive example %s reported as expected (%s)" % (rule, example, ", ".join(got)))
