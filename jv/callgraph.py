"""Whole-program call graph over the facts model, with field-based and argument-passed
resolution of function pointers, and fixed-point summaries."""
from collections import defaultdict

from .util import strip_casts


def _rec_of_type(prog, t):
    if not t:
        return None
    t = t.replace("const ", "").replace("struct ", "").replace("static ", "").strip()
    while t.endswith("]"):
        t = t[:t.rindex("[")].strip()
    t = t.rstrip("*").strip() if t.endswith("*") else t
    return t if t in prog.records else None


class CallGraph(object):
    """
    fid(func) = (tu name, function name) for defined functions; externals are plain names.
    edges[fid] = set of callee ids (fid or external name)
    sites[fid] = list of (call node, [callee ids], kind) kind in direct/field/ptr/cfun
    """

    def __init__(self, prog):
        self.prog = prog
        self.funcs = {}
        for f in prog.all_funcs():
            self.funcs[self.fid(f)] = f
        self.field_targets = defaultdict(set)   # (rec, field) -> set of fid
        self.addr_taken = set()
        self._collect_field_targets()
        self.edges = defaultdict(set)
        self.redges = defaultdict(set)
        self.sites = defaultdict(list)
        self.passed = defaultdict(set)          # fid -> functions passed as arguments somewhere inside it
        self.param_fns = defaultdict(set)       # (fid, param index) -> functions that may arrive there
        self.cfun_targets = set()
        self._param_flow()
        self._build()

    @staticmethod
    def fid(f):
        return (f.tu.name, f.name)

    def resolve_name(self, name, tu):
        f = self.prog.func(name, tu)
        if f is not None:
            return self.fid(f)
        return name

    def find(self, name):
        """fid of the unique definition of `name` in any unit (static or not)"""
        hits = [fid for fid in self.funcs if fid[1] == name]
        if len(hits) != 1:
            from .facts import AnalysisBroken
            raise AnalysisBroken("anchor function %s: %d definitions" % (name, len(hits)))
        return hits[0]

    # ---- function pointers stored in record fields ---------------------------------
    def _fnref(self, n, tu):
        n = strip_casts(n)
        if n is not None and n.k == "un" and n.op == "&":
            n = strip_casts(n.kids[0])
        if n is not None and n.k == "ref" and n.d.get("d") == "fn":
            return self.resolve_name(n.name, tu)
        return None

    def _scan_init(self, n, tu):
        if n.k == "init":
            rec = _rec_of_type(self.prog, n.t)
            if rec is not None:
                fields = self.prog.records[rec]["fields"]
                for i, kid in enumerate(n.kids):
                    if i < len(fields):
                        fr = self._fnref(kid, tu)
                        if fr is not None:
                            self.field_targets[(rec, fields[i]["n"])].add(fr)
                            self.addr_taken.add(fr)
        for kid in n.kids:
            self._scan_init(kid, tu)

    def _collect_field_targets(self):
        for tu in self.prog.tus.values():
            for g in tu.globals.values():
                init = tu.ginit(g["n"])
                if init is not None:
                    self._scan_init(init, tu)
            for f in tu.funcs.values():
                for n in f.nodes:
                    if n.k == "init":
                        self._scan_init(n, tu)
                    elif n.k == "asg" and n.op == "=" and n.kids[0].k == "mem":
                        fr = self._fnref(n.kids[1], tu)
                        if fr is not None:
                            self.field_targets[(n.kids[0].rec, n.kids[0].field)].add(fr)
                            self.addr_taken.add(fr)

    # ---- functions flowing through parameters into fields / local calls ----------------
    def _param_index(self, f, name):
        for i, p in enumerate(f.params):
            if p["n"] == name:
                return i
        return None

    def _param_flow(self):
        """param_fns[(F,i)]: function ids that some call site passes (directly, or by forwarding
        its own parameter) as argument i of F.  Then `x->field = param` feeds field_targets."""
        direct = defaultdict(set)     # (callee fid, i) -> set of fn ids
        forward = defaultdict(set)    # (callee fid, i) -> set of (caller fid, j)
        for fid, f in self.funcs.items():
            for n in f.nodes:
                if n.k != "call" or n.callee is None:
                    continue
                tgt = self.resolve_name(n.callee, f.tu)
                if tgt not in self.funcs:
                    continue
                for i, a in enumerate(n.args):
                    fr = self._fnref(a, f.tu)
                    if fr is not None:
                        direct[(tgt, i)].add(fr)
                    else:
                        a2 = strip_casts(a)
                        if a2 is not None and a2.k == "ref" and a2.d.get("d") == "parm":
                            j = self._param_index(f, a2.name)
                            if j is not None:
                                forward[(tgt, i)].add((fid, j))
        changed = True
        pf = defaultdict(set)
        for k, v in direct.items():
            pf[k] |= v
        while changed:
            changed = False
            for k, srcs in forward.items():
                for src in srcs:
                    add = pf.get(src, set()) - pf[k]
                    if add:
                        pf[k] |= add
                        changed = True
        self.param_fns = pf
        # stores of a parameter (or of a local copied from one) into a record field
        for fid, f in self.funcs.items():
            for n in f.nodes:
                if n.k == "asg" and n.op == "=" and n.kids[0].k == "mem":
                    r = strip_casts(n.kids[1])
                    if r is not None and r.k == "ref" and r.d.get("d") == "parm":
                        j = self._param_index(f, r.name)
                        if j is not None and pf.get((fid, j)):
                            self.field_targets[(n.kids[0].rec, n.kids[0].field)] |= pf[(fid, j)]
        # every function registered as a Janet C function
        for (rec, field), t in self.field_targets.items():
            if field == "cfun" and rec in ("JanetRegExt", "JanetReg", "JanetMethod"):
                self.cfun_targets |= t

    def _ptr_targets(self, f, ce):
        """targets of a call through expression `ce` (not a direct callee)"""
        ce = strip_casts(ce)
        if ce is None:
            return [], "ptr:?"
        if ce.k == "un" and ce.op == "*":
            return self._ptr_targets(f, ce.kids[0])
        if ce.k == "mem":
            return sorted(self.field_targets.get((ce.rec, ce.field), ()), key=str), "field:%s.%s" % (ce.rec, ce.field)
        if ce.k == "cond":
            a, _ = self._ptr_targets(f, ce.kids[1])
            b, _ = self._ptr_targets(f, ce.kids[2])
            return sorted(set(a) | set(b), key=str), "cond"
        if ce.k == "ref" and ce.d.get("d") == "fn":
            return [self.resolve_name(ce.name, f.tu)], "direct"
        if ce.k == "ref" and ce.d.get("d") == "parm":
            j = self._param_index(f, ce.name)
            return sorted(self.param_fns.get((self.fid(f), j), ()), key=str), "param:%s" % ce.name
        if ce.k == "ref" and ce.d.get("d") in ("var", "slocal"):
            # local function pointer: union over what it is assigned from
            out = set()
            for n in f.nodes:
                src = None
                if n.k == "vardecl" and n.name == ce.name and n.kids:
                    src = n.kids[0]
                elif n.k == "asg" and n.op == "=" and n.kids[0].k == "ref" and n.kids[0].name == ce.name:
                    src = n.kids[1]
                if src is not None and strip_casts(src) is not ce:
                    s2 = strip_casts(src)
                    if s2.k == "ref" and s2.name == ce.name:
                        continue
                    t, _ = self._ptr_targets(f, s2)
                    out |= set(t)
            if out:
                return sorted(out, key=str), "local:%s" % ce.name
        t = ce.t or ""
        if "JanetCFunction" in t or (ce.k == "call" and (ce.callee or "") in ("janet_unwrap_cfunction",)):
            return sorted(self.cfun_targets, key=str), "cfun"
        return [], "ptr:" + ce.text()[:40]

    # ---- edges ---------------------------------------------------------------------
    def _build(self):
        for fid, f in self.funcs.items():
            for n in f.nodes:
                if n.k != "call":
                    continue
                tu = f.tu
                callee = n.callee
                if callee is not None:
                    tgt = [self.resolve_name(callee, tu)]
                    kind = "direct"
                else:
                    ce = n.kids[0]
                    if ce.k == "cast" and "JanetCFunction" in (ce.t or ""):
                        tgt, kind = sorted(self.cfun_targets, key=str), "cfun"
                    else:
                        tgt, kind = self._ptr_targets(f, ce)
                self.sites[fid].append((n, tgt, kind))
                for t in tgt:
                    self.edges[fid].add(t)
                    self.redges[t].add(fid)
                # functions passed as arguments
                for a in n.args:
                    fr = self._fnref(a, tu)
                    if fr is not None:
                        self.passed[fid].add(fr)
                        self.addr_taken.add(fr)

    def callees(self, fid, with_passed=False):
        s = set(self.edges.get(fid, ()))
        if with_passed:
            s |= self.passed.get(fid, set())
        return s

    # ---- summaries -----------------------------------------------------------------
    def reaches(self, seeds, with_passed=False, stop=()):
        """set of function ids from which a seed (fid or external name) is reachable"""
        seeds = set(seeds)
        rev = defaultdict(set)
        for a, bs in self.edges.items():
            for b in bs:
                rev[b].add(a)
        if with_passed:
            for a, bs in self.passed.items():
                for b in bs:
                    rev[b].add(a)
        out = set(seeds)
        work = list(seeds)
        while work:
            x = work.pop()
            for p in rev.get(x, ()):
                if p not in out and p not in stop:
                    out.add(p)
                    work.append(p)
        return out

    def path(self, src, seeds, stop=()):
        """shortest call path (list of ids) from src to any seed, for diagnostics"""
        from collections import deque
        seeds = set(seeds)
        prev = {src: None}
        q = deque([src])
        while q:
            x = q.popleft()
            if x in seeds and x != src:
                out = []
                while x is not None:
                    out.append(x)
                    x = prev[x]
                return out[::-1]
            for y in self.edges.get(x, ()):
                if y not in prev and y not in stop:
                    prev[y] = x
                    q.append(y)
        return None

    def name_set(self, ids):
        return set(i[1] if isinstance(i, tuple) else i for i in ids)

    def sccs(self, nodes=None, edge_filter=None):
        """Tarjan over defined functions; returns list of components (lists of fid) that are
        cyclic (size>1 or self-loop)."""
        nodes = list(nodes if nodes is not None else self.funcs.keys())
        nodeset = set(nodes)
        index = {}
        low = {}
        onstack = set()
        stack = []
        out = []
        counter = [0]

        def succs(v):
            for w in self.edges.get(v, ()):
                if w in nodeset and (edge_filter is None or edge_filter(v, w)):
                    yield w

        for root in nodes:
            if root in index:
                continue
            work = [(root, iter(list(succs(root))))]
            index[root] = low[root] = counter[0]
            counter[0] += 1
            stack.append(root)
            onstack.add(root)
            while work:
                v, it = work[-1]
                adv = False
                for w in it:
                    if w not in index:
                        index[w] = low[w] = counter[0]
                        counter[0] += 1
                        stack.append(w)
                        onstack.add(w)
                        work.append((w, iter(list(succs(w)))))
                        adv = True
                        break
                    elif w in onstack:
                        low[v] = min(low[v], index[w])
                if adv:
                    continue
                work.pop()
                if work:
                    u = work[-1][0]
                    low[u] = min(low[u], low[v])
                if low[v] == index[v]:
                    comp = []
                    while True:
                        w = stack.pop()
                        onstack.discard(w)
                        comp.append(w)
                        if w == v:
                            break
                    if len(comp) > 1 or v in set(succs(v)):
                        out.append(comp)
        return out
