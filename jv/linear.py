"""Tiny linear-arithmetic normaliser over expression nodes: a*x + b*y + ... + c, variables are
identified by their text (locals, fields)."""
from .util import strip_casts


def linear(e, depth=0):
    """returns (dict var->coef, const) or None if not linear"""
    e = strip_casts(e)
    if e is None or depth > 20:
        return None
    if e.v is not None and e.k != "ref":
        return ({}, e.v)
    if e.k == "int":
        return ({}, e.v)
    if e.k in ("ref", "mem"):
        if e.v is not None:
            return ({}, e.v)
        return ({e.text(): 1}, 0)
    if e.k == "bin" and e.op in ("+", "-"):
        a, b = linear(e.kids[0], depth + 1), linear(e.kids[1], depth + 1)
        if a is None or b is None:
            return None
        sgn = 1 if e.op == "+" else -1
        out = dict(a[0])
        for k, v in b[0].items():
            out[k] = out.get(k, 0) + sgn * v
        return ({k: v for k, v in out.items() if v != 0}, a[1] + sgn * b[1])
    if e.k == "bin" and e.op == "*":
        a, b = linear(e.kids[0], depth + 1), linear(e.kids[1], depth + 1)
        if a is None or b is None:
            return None
        if not a[0]:
            return ({k: v * a[1] for k, v in b[0].items()}, a[1] * b[1])
        if not b[0]:
            return ({k: v * b[1] for k, v in a[0].items()}, a[1] * b[1])
        return None
    if e.k == "un" and e.op == "-":
        a = linear(e.kids[0], depth + 1)
        if a is None:
            return None
        return ({k: -v for k, v in a[0].items()}, -a[1])
    return None


def inequality(lhs, op, rhs):
    """normalise `lhs op rhs` (known true) to (coefs, const, strict) meaning coefs.x + const < 0 (strict)
    or <= 0; returns None for == / != / non-linear"""
    a, b = linear(lhs), linear(rhs)
    if a is None or b is None:
        return None
    if op in (">", ">="):
        a, b = b, a
        op = "<" if op == ">" else "<="
    if op not in ("<", "<="):
        return None
    coefs = dict(a[0])
    for k, v in b[0].items():
        coefs[k] = coefs.get(k, 0) - v
    coefs = {k: v for k, v in coefs.items() if v != 0}
    return (coefs, a[1] - b[1], op == "<")
