"""Front end driver and in-memory model of the facts emitted by tools/jfacts.cc.

Every check calls Program.load(), which (re)extracts facts from /repo's *current* sources:
the cache key is a hash over every file under /repo/src plus the flags and the extractor
binary, so an edit to any source or header invalidates it.
"""
import hashlib
import json
import os
import shutil
import subprocess
import sys
from concurrent.futures import ThreadPoolExecutor

VERIF = os.path.dirname(os.path.dirname(os.path.abspath(__file__)))
REPO = os.environ.get("JV_REPO", "/repo")
JFACTS = os.path.join(VERIF, "build", "jfacts")
CACHE = os.environ.get("JV_CACHE", os.path.join(VERIF, ".cache"))
RESOURCE_DIR = "/usr/lib/llvm-14/lib/clang/14.0.6"

BASE_FLAGS = ["-std=c99", "-D_FILE_OFFSET_BITS=64", "-pthread"]

CONFIGS = {
    # name: extra flags
    "default": [],
    "bootstrap": ["-DJANET_BOOTSTRAP"],
    "nonanbox": ["-DJANET_NO_NANBOX"],
    "poll": ["-DJANET_EV_NO_EPOLL"],
    "debug": ["-DJANET_DEBUG"],
}


class AnalysisBroken(Exception):
    """The analysis cannot give a verdict (exit 2): unit does not parse, anchor vanished,
    instance count below the confirmed floor."""


def repo_units(repo=None):
    repo = repo or REPO
    core = os.path.join(repo, "src", "core")
    units = sorted(os.path.join(core, f) for f in os.listdir(core) if f.endswith(".c"))
    shell = os.path.join(repo, "src", "mainclient", "shell.c")
    if os.path.exists(shell):
        units.append(shell)
    return units


def _tree_hash(repo, flags):
    h = hashlib.sha256()
    h.update(" ".join(flags).encode())
    try:
        st = os.stat(JFACTS)
        h.update(("%d:%d" % (st.st_size, st.st_mtime_ns)).encode())
    except OSError:
        pass
    src = os.path.join(repo, "src")
    for root, dirs, files in sorted(os.walk(src)):
        dirs.sort()
        for f in sorted(files):
            if f.endswith((".c", ".h")):
                p = os.path.join(root, f)
                h.update(p.encode())
                with open(p, "rb") as fh:
                    h.update(hashlib.sha256(fh.read()).digest())
    return h.hexdigest()


def extract(config="default", repo=None, units=None):
    """Run jfacts over the units; returns dict unit-basename -> json path."""
    repo = repo or REPO
    if not os.path.exists(JFACTS):
        raise AnalysisBroken("extractor %s not built (run setup)" % JFACTS)
    flags = BASE_FLAGS + CONFIGS[config] + [
        "-I%s/src/include" % repo, "-I%s/src/conf" % repo, "-resource-dir", RESOURCE_DIR,
        "-Wno-everything"]
    key = _tree_hash(repo, flags)
    outdir = os.path.join(CACHE, "facts-%s-%s" % (config, key[:16]))
    allunits = repo_units(repo)
    if units:
        allunits = [u for u in allunits if os.path.basename(u) in units]
    todo = []
    res = {}
    os.makedirs(outdir, exist_ok=True)
    for u in allunits:
        out = os.path.join(outdir, os.path.basename(u) + ".json")
        res[os.path.basename(u)] = out
        if not os.path.exists(out):
            todo.append((u, out))

    def run(job):
        u, out = job
        tmp = out + ".tmp%d" % os.getpid()
        p = subprocess.run([JFACTS, u, "-o", tmp, "--"] + flags, stdout=subprocess.PIPE,
                           stderr=subprocess.STDOUT, text=True)
        if p.returncode != 0 or not os.path.exists(tmp):
            return (u, p.stdout)
        os.replace(tmp, out)
        return None

    if todo:
        with ThreadPoolExecutor(max_workers=16) as ex:
            errs = [e for e in ex.map(run, todo) if e]
        if errs:
            raise AnalysisBroken("units did not parse: " + "; ".join(
                "%s: %s" % (u, o.strip()[-400:]) for u, o in errs))
        # prune older caches of this config
        for d in os.listdir(CACHE):
            if d.startswith("facts-%s-" % config) and d != os.path.basename(outdir):
                shutil.rmtree(os.path.join(CACHE, d), ignore_errors=True)
    return res


class Node(object):
    __slots__ = ("fn", "id", "d", "kids", "parent")

    def __init__(self, fn, id, d):
        self.fn = fn
        self.id = id
        self.d = d
        self.kids = ()
        self.parent = None

    @property
    def k(self):
        return self.d["k"]

    @property
    def ln(self):
        return self.d.get("ln", 0)

    @property
    def file(self):
        return self.d.get("file") or self.fn.tu.file

    @property
    def loc(self):
        return "%s:%d" % (os.path.relpath(self.file, REPO) if self.file.startswith(REPO) else self.file, self.ln)

    @property
    def macros(self):
        """innermost-first list of macro names this node was expanded from ('@' = as an argument)"""
        m = self.d.get("m")
        if not m:
            return ()
        return self.fn.tu.mstacks[m]

    def in_macro(self, *names):
        for m in self.macros:
            if m.rstrip("@") in names:
                return True
        return False

    def macro_names(self):
        return [m.rstrip("@") for m in self.macros]

    @property
    def t(self):
        t = self.d.get("t")
        return self.fn.tu.types[t] if t is not None else None

    @property
    def v(self):
        v = self.d.get("v")
        if isinstance(v, str):
            return int(v)
        return v

    @property
    def name(self):
        return self.d.get("n")

    @property
    def op(self):
        return self.d.get("op")

    @property
    def callee(self):
        """direct callee name of a call node, else None"""
        return self.d.get("fn")

    @property
    def args(self):
        return self.kids[1:] if self.k == "call" else ()

    @property
    def field(self):
        return self.d.get("f")

    @property
    def rec(self):
        return self.d.get("rec")

    def walk(self):
        stack = [self]
        while stack:
            n = stack.pop()
            yield n
            stack.extend(reversed(n.kids))

    def find(self, pred):
        return [n for n in self.walk() if pred(n)]

    def calls(self, *names):
        return [n for n in self.walk() if n.k == "call" and (not names or n.callee in names)]

    def ancestors(self):
        p = self.parent
        while p is not None:
            yield p
            p = p.parent

    def text(self, depth=0):
        return text(self, depth)

    def __repr__(self):
        return "<%s %s @%d>" % (self.k, text(self)[:60], self.ln)


_PREC_ATOM = ("ref", "int", "str", "flt", "call", "mem", "sub")


def text(n, depth=0):
    """C-like rendering of an expression node (canonical: no parens dropped incorrectly)."""
    if n is None:
        return "?"
    if depth > 40:
        return "..."
    k = n.k
    K = n.kids
    d = depth + 1
    if k == "ref":
        return n.d["n"]
    if k == "int":
        return str(n.v)
    if k == "flt":
        return repr(n.d.get("fv"))
    if k == "str":
        return json.dumps(n.d.get("s", ""))
    if k == "mem":
        b = text(K[0], d)
        if K[0].k not in _PREC_ATOM:
            b = "(" + b + ")"
        return b + ("->" if n.d.get("arrow") else ".") + n.d["f"]
    if k == "sub":
        b = text(K[0], d)
        if K[0].k not in _PREC_ATOM:
            b = "(" + b + ")"
        return b + "[" + text(K[1], d) + "]"
    if k == "call":
        return text(K[0], d) + "(" + ", ".join(text(a, d) for a in K[1:]) + ")"
    if k in ("bin", "asg"):
        l, r = text(K[0], d), text(K[1], d)
        if K[0].k in ("bin", "asg", "cond"):
            l = "(" + l + ")"
        if K[1].k in ("bin", "asg", "cond"):
            r = "(" + r + ")"
        return l + " " + n.d["op"] + " " + r
    if k == "un":
        op = n.d["op"]
        e = text(K[0], d)
        if K[0].k not in _PREC_ATOM:
            e = "(" + e + ")"
        if op.startswith("post"):
            return e + op[4:]
        if op.startswith("pre"):
            return op[3:] + e
        return op + e
    if k == "cast":
        e = text(K[0], d)
        if K[0].k not in _PREC_ATOM:
            e = "(" + e + ")"
        return "(" + (n.t or "?") + ")" + e
    if k == "cond":
        return text(K[0], d) + " ? " + text(K[1], d) + " : " + text(K[2], d)
    if k == "sizeof":
        if K:
            return "sizeof(" + text(K[0], d) + ")"
        at = n.d.get("argt")
        return "sizeof(" + (n.fn.tu.types[at] if at is not None else "?") + ")"
    if k == "init":
        return "{" + ", ".join(text(a, d) for a in K[:8]) + (", ..." if len(K) > 8 else "") + "}"
    if k == "addrlabel":
        return "&&" + n.d["n"]
    if k == "vardecl":
        return (n.t or "") + " " + n.d["n"] + (" = " + text(K[0], d) if K else "")
    if k == "return":
        return "return " + (text(K[0], d) if K else "")
    if k == "goto":
        return "goto " + n.d["n"]
    if k == "label":
        return n.d["n"] + ":"
    if k == "case":
        return "case %s:" % (text(K[0], d) if K else "?")
    if k == "default":
        return "default:"
    if k == "zero":
        return "{0}"
    if k == "complit":
        return "(" + (n.t or "?") + ")" + text(K[0], d)
    if k == "decl":
        return "; ".join(text(a, d) for a in K)
    return "<" + k + ">"


class Block(object):
    __slots__ = ("fn", "id", "elems", "succs", "term", "cond", "label", "noreturn", "preds")

    def __init__(self, fn, d):
        self.fn = fn
        self.id = d["id"]
        nodes = fn.nodes
        self.elems = [nodes[i] for i in d["e"]]
        self.succs = d["s"]
        self.term = nodes[d["t"]] if "t" in d else None
        self.cond = nodes[d["tc"]] if "tc" in d else None
        self.label = nodes[d["lab"]] if "lab" in d else None
        self.noreturn = bool(d.get("nr"))
        self.preds = []

    def __repr__(self):
        return "<B%d %s>" % (self.id, self.label.text() if self.label is not None else "")


class Func(object):
    def __init__(self, tu, d):
        self.tu = tu
        self.d = d
        self.name = d["n"]
        self.static = d["static"]
        self.ret = d["ret"]
        self.params = d["params"]
        self.ln = d["ln"]
        self.end = d.get("end", d["ln"])
        self.file = d.get("file", tu.file)
        self._built = False

    def _build(self):
        if self._built:
            return
        self._built = True
        raw = self.d["nodes"]
        nodes = [Node(self, i, nd) for i, nd in enumerate(raw)]
        for n in nodes:
            c = n.d.get("c")
            if c:
                n.kids = tuple(nodes[i] for i in c)
                for kid in n.kids:
                    kid.parent = n
        self._nodes = nodes
        self._body = nodes[self.d["body"]]
        self._blocks = {}
        for bd in self.d.get("blocks", ()):
            b = Block(self, bd)
            self._blocks[b.id] = b
        for b in self._blocks.values():
            for s in b.succs:
                if s >= 0:
                    self._blocks[s].preds.append(b.id)

    @property
    def nodes(self):
        if not self._built:
            self._build()
        return self._nodes

    @property
    def body(self):
        self._build()
        return self._body

    @property
    def blocks(self):
        self._build()
        return self._blocks

    @property
    def entry(self):
        return self.d["entry"]

    @property
    def exit(self):
        return self.d["exit"]

    @property
    def igoto(self):
        return self.d.get("igoto")

    def calls(self, *names):
        return [n for n in self.nodes if n.k == "call" and (not names or n.callee in names)]

    def walk(self):
        return self.body.walk()

    @property
    def loc(self):
        return "%s:%d" % (os.path.relpath(self.file, REPO) if self.file.startswith(REPO) else self.file, self.ln)

    def is_cfun_sig(self):
        p = self.params
        return (self.ret == "Janet" and len(p) == 2 and p[0]["t"] == "int32_t" and
                p[1]["t"].replace(" ", "") == "Janet*")

    def __repr__(self):
        return "<Func %s:%s>" % (self.tu.name, self.name)


class TU(object):
    def __init__(self, name, path):
        self.name = name
        with open(path) as fh:
            d = json.load(fh)
        self.d = d
        self.file = d["file"]
        self.mstacks = d["mstacks"]
        self.types = d["types"]
        self.enums = d["enums"]
        self.enumtypes = d["enumtypes"]
        self.records = d["records"]
        self.macros = d["macros"]
        self.decls = {x["n"]: x for x in d["decls"]}
        self.funcs = {}
        for fd in d["funcs"]:
            f = Func(self, fd)
            self.funcs[f.name] = f
        # globals: node table for initialisers
        self._gfn = _GlobalScope(self)
        self.globals = {}
        for g in d["globals"]:
            # keep the definition with an initialiser if any
            old = self.globals.get(g["n"])
            if old is None or ("init" in g and "init" not in old) or (old.get("extern") and not g.get("extern")):
                self.globals[g["n"]] = g

    def ginit(self, name):
        g = self.globals.get(name)
        if g is None or "init" not in g:
            return None
        return self._gfn.nodes[g["init"]]


class _GlobalScope(object):
    """Pseudo-function owning the nodes of file-scope initialisers."""

    def __init__(self, tu):
        self.tu = tu
        self.name = "<file-scope>"
        self._nodes = None

    @property
    def nodes(self):
        if self._nodes is None:
            raw = self.tu.d["gnodes"]
            nodes = [Node(self, i, nd) for i, nd in enumerate(raw)]
            for n in nodes:
                c = n.d.get("c")
                if c:
                    n.kids = tuple(nodes[i] for i in c)
                    for kid in n.kids:
                        kid.parent = n
            self._nodes = nodes
        return self._nodes


class Program(object):
    def __init__(self, config, tus):
        self.config = config
        self.tus = tus
        self.enums = {}
        self.enumtypes = {}
        self.records = {}
        self.macros = {}
        self.decls = {}
        self.global_funcs = {}
        for tu in tus.values():
            self.enums.update(tu.enums)
            self.enumtypes.update(tu.enumtypes)
            self.records.update(tu.records)
            for k, v in tu.macros.items():
                self.macros.setdefault(k, v)
            for k, v in tu.decls.items():
                old = self.decls.get(k)
                if old is None or (v.get("noreturn") and not old.get("noreturn")):
                    self.decls[k] = v
            for f in tu.funcs.values():
                if not f.static:
                    self.global_funcs[f.name] = f
                # a definition is also a declaration
                if f.name not in self.decls:
                    self.decls[f.name] = f.d
                elif f.d.get("noreturn"):
                    self.decls[f.name] = f.d

    @classmethod
    def load(cls, config="default", units=None, repo=None):
        # the thorough tier re-runs the rules under other build configurations
        if config == "default" and os.environ.get("JV_CONFIG"):
            config = os.environ["JV_CONFIG"]
        paths = extract(config, repo=repo, units=units)
        tus = {}
        with ThreadPoolExecutor(max_workers=8) as ex:
            for name, tu in zip(paths.keys(), ex.map(lambda kv: TU(kv[0], kv[1]), paths.items())):
                tus[name] = tu
        return cls(config, tus)

    @classmethod
    def load_example(cls, path, config="default"):
        """Facts of one stand-alone C file under /verif/examples, parsed with the repo's include paths and flags.  Used
        for positive examples: a rule whose count on the tree is zero must still fire on its example on every run."""
        flags = BASE_FLAGS + CONFIGS[config] + ["-I%s/src/include" % REPO, "-I%s/src/conf" % REPO, "-iquote", "%s/src/core" % REPO,
                                                "-resource-dir", RESOURCE_DIR, "-Wno-everything"]
        h = hashlib.sha256()
        h.update(open(path, "rb").read())
        h.update(" ".join(flags).encode())
        h.update(open(JFACTS, "rb").read()[:4096])
        outdir = os.path.join(CACHE, "examples")
        os.makedirs(outdir, exist_ok=True)
        out = os.path.join(outdir, "%s-%s.json" % (os.path.basename(path), h.hexdigest()[:16]))
        if not os.path.exists(out):
            tmp = out + ".tmp%d" % os.getpid()
            p_ = subprocess.run([JFACTS, path, "-o", tmp, "--"] + flags, stdout=subprocess.PIPE, stderr=subprocess.STDOUT, text=True)
            if p_.returncode != 0 or not os.path.exists(tmp):
                raise AnalysisBroken("example %s did not parse: %s" % (path, p_.stdout.strip()[-300:]))
            os.replace(tmp, out)
        name = os.path.basename(path)
        return cls(config, {name: TU(name, out)})

    def all_funcs(self):
        for tu in self.tus.values():
            for f in tu.funcs.values():
                yield f

    def func(self, name, tu=None):
        """Resolve a function name as seen from translation unit `tu`."""
        if tu is not None:
            t = self.tus.get(tu) if isinstance(tu, str) else tu
            if t is not None and name in t.funcs:
                return t.funcs[name]
        return self.global_funcs.get(name)

    def need_func(self, name, tu=None):
        f = self.func(name, tu)
        if f is None:
            raise AnalysisBroken("anchor function %s%s not found" % (name, " in " + str(tu) if tu else ""))
        return f

    def resolve_call(self, call):
        """Func object for a direct call node, or None (external / indirect)."""
        nm = call.callee
        if nm is None:
            return None
        return self.func(nm, call.fn.tu)

    def is_noreturn(self, name):
        d = self.decls.get(name)
        if d and d.get("noreturn"):
            return True
        return name in self.derived_noreturn()

    def derived_noreturn(self):
        """functions without the attribute that still never return: every path from entry ends in a call
        to a (derived) noreturn function (e.g. janet_asm_errorv -> janet_asm_longjmp -> longjmp)."""
        if getattr(self, "_derived_nr", None) is not None:
            return self._derived_nr
        self._derived_nr = set()
        cand = []
        for f in self.all_funcs():
            if f.d.get("noreturn") or "blocks" not in f.d:
                continue
            cand.append(f)
        changed = True
        while changed:
            changed = False
            for f in cand:
                if f.name in self._derived_nr:
                    continue
                # reachability of exit with paths cut after noreturn calls
                seen = {f.entry}
                work = [f.entry]
                reach_exit = False
                while work:
                    b = work.pop()
                    blk = f.blocks[b]
                    if b == f.exit:
                        reach_exit = True
                        break
                    cut = blk.noreturn
                    if not cut:
                        for n in blk.elems:
                            if n.k == "call" and n.callee and (
                                    (self.decls.get(n.callee) or {}).get("noreturn") or n.callee in self._derived_nr):
                                cut = True
                                break
                    if cut:
                        continue
                    for s2 in blk.succs:
                        if s2 >= 0 and s2 not in seen:
                            seen.add(s2)
                            work.append(s2)
                if not reach_exit:
                    self._derived_nr.add(f.name)
                    changed = True
        return self._derived_nr

    def is_external(self, name):
        """declared in a system header and not defined in the program"""
        if name in self.global_funcs:
            return False
        d = self.decls.get(name)
        return bool(d and d.get("sys"))


if __name__ == "__main__":
    p = Program.load(sys.argv[1] if len(sys.argv) > 1 else "default")
    n = sum(1 for _ in p.all_funcs())
    print("units", len(p.tus), "functions", n)
