"""Decomposition of vm.c:run_vm into opcode handlers."""
from .facts import AnalysisBroken


class VMHandlers(object):
    def __init__(self, prog):
        self.fn = prog.need_func("run_vm", "vm.c")
        fn = self.fn
        self.node_handler = {}     # node id -> label name
        self.labels = []           # label names in source order
        self._assign(fn.body, None)
        self.opcodes = [l[len("label_"):] for l in self.labels if l.startswith("label_JOP_")]
        if len(self.opcodes) < 60:
            raise AnalysisBroken("run_vm: only %d opcode labels found" % len(self.opcodes))
        # block -> handler: handler of its first element / label
        self.block_handler = {}
        for b in fn.blocks.values():
            h = None
            if b.label is not None and b.label.k == "label":
                h = b.label.name
            if h is None:
                for e in b.elems:
                    h = self.node_handler.get(e.id)
                    if h:
                        break
            if h is None and b.term is not None:
                h = self.node_handler.get(b.term.id)
            self.block_handler[b.id] = h

    def _assign(self, node, cur):
        """walk in source order; a label statement switches the current handler for everything
        that follows in the same and enclosing compound statements"""
        stack = [node]
        # iterative preorder with a mutable 'current'
        self._cur = cur
        self._walk(node)

    def _walk(self, n):
        work = [n]
        while work:
            x = work.pop()
            if x.k == "label":
                self._cur = x.name
                self.labels.append(x.name)
            if self._cur is not None:
                self.node_handler[x.id] = self._cur
            work.extend(reversed(x.kids))

    def handler_of(self, node):
        return self.node_handler.get(node.id)

    def is_dispatch_edge(self, blk, succ):
        return self.fn.igoto is not None and succ == self.fn.igoto

    def handler_entry_blocks(self):
        out = {}
        for b in self.fn.blocks.values():
            if b.label is not None and b.label.k == "label":
                out[b.label.name] = b.id
        return out
