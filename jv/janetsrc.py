"""A reader for Janet source text (src/boot/boot.janet): just enough structure for rules over the core library that
is written in Janet itself.  Nothing is evaluated or expanded; forms are syntax trees with line numbers.

node kinds:  tuple ( )   btuple [ ]   array @[ ] / @( )   struct { }   table @{ }
             sym  kw  num  str  buf   and prefix forms quote ' quasi ~ unquote , splice ; shortfn |
"""
import re


class J(object):
    __slots__ = ("t", "v", "line")

    def __init__(self, t, v, line):
        self.t, self.v, self.line = t, v, line

    @property
    def kids(self):
        if self.t in ("tuple", "btuple", "array", "struct", "table"):
            return self.v
        if self.t in ("quote", "quasi", "unquote", "splice", "shortfn"):
            return [self.v]
        return []

    def walk(self):
        stack = [self]
        while stack:
            n = stack.pop()
            yield n
            stack.extend(reversed(n.kids))

    def head(self):
        """name of the symbol in head position of a call form, else None"""
        if self.t == "tuple" and self.v and self.v[0].t == "sym":
            return self.v[0].v
        return None

    def sym(self):
        return self.v if self.t == "sym" else None

    def text(self):
        if self.t in ("sym", "num"):
            return str(self.v)
        if self.t == "kw":
            return ":" + self.v
        if self.t == "str":
            return '"%s"' % self.v
        if self.t == "buf":
            return '@"%s"' % self.v
        o, c = {"tuple": "()", "btuple": "[]", "array": ("@[", "]"), "struct": "{}", "table": ("@{", "}")}.get(self.t, ("", ""))
        if self.t in ("quote", "quasi", "unquote", "splice", "shortfn"):
            return {"quote": "'", "quasi": "~", "unquote": ",", "splice": ";", "shortfn": "|"}[self.t] + self.v.text()
        return o + " ".join(k.text() for k in self.v) + c

    def __repr__(self):
        return "<J %s %s @%d>" % (self.t, self.text()[:40], self.line)


class JanetSyntaxError(Exception):
    pass


_DELIM = set(" \t\r\n\0\f\v()[]{}\"`;#'~,|")
_NUM = re.compile(r"^[-+]?(0x[0-9a-fA-F_.]+|[0-9][0-9_]*(\.[0-9_]*)?([eE&][-+]?[0-9]+)?|\.[0-9][0-9_]*([eE][-+]?[0-9]+)?)(:[su])?$|^[-+]?[0-9]+r[0-9a-zA-Z_.]+$")
_PREFIX = {"'": "quote", "~": "quasi", ",": "unquote", ";": "splice", "|": "shortfn"}
_CLOSE = {"(": ")", "[": "]", "{": "}"}


def read(text):
    """-> list of top-level forms"""
    pos, line, n = 0, 1, len(text)

    def skip():
        nonlocal pos, line
        while pos < n:
            c = text[pos]
            if c == "\n":
                line += 1
                pos += 1
            elif c in " \t\r\0\f\v":
                pos += 1
            elif c == "#":
                while pos < n and text[pos] != "\n":
                    pos += 1
            else:
                break

    def string(kind):
        nonlocal pos, line
        start = line
        if text[pos] == '"':
            pos += 1
            out = []
            while pos < n and text[pos] != '"':
                if text[pos] == "\\":
                    out.append(text[pos:pos + 2])
                    pos += 2
                    continue
                if text[pos] == "\n":
                    line += 1
                out.append(text[pos])
                pos += 1
            if pos >= n:
                raise JanetSyntaxError("unterminated string from line %d" % start)
            pos += 1
            return J(kind, "".join(out), start)
        k = 0
        while pos < n and text[pos] == "`":
            k += 1
            pos += 1
        end = text.find("`" * k, pos)
        if end < 0:
            raise JanetSyntaxError("unterminated long string from line %d" % start)
        body = text[pos:end]
        line += body.count("\n")
        pos = end + k
        return J(kind, body, start)

    def form():
        nonlocal pos, line
        skip()
        if pos >= n:
            return None
        c = text[pos]
        if c in _PREFIX:
            ln = line
            pos += 1
            inner = form()
            if inner is None:
                raise JanetSyntaxError("prefix %s without a form at line %d" % (c, ln))
            return J(_PREFIX[c], inner, ln)
        if c == "@" and pos + 1 < n and text[pos + 1] in "([{\"`":
            pos += 1
            if text[pos] in "\"`":
                return string("buf")
            return seq({"(": "array", "[": "array", "{": "table"}[text[pos]])
        if c in "([{":
            return seq({"(": "tuple", "[": "btuple", "{": "struct"}[c])
        if c in ")]}":
            raise JanetSyntaxError("unexpected %s at line %d" % (c, line))
        if c in "\"`":
            return string("str")
        s = pos
        while pos < n and text[pos] not in _DELIM:
            pos += 1
        tok = text[s:pos]
        if tok.startswith(":"):
            return J("kw", tok[1:], line)
        if _NUM.match(tok):
            try:
                return J("num", int(tok.replace("_", ""), 0) if re.match(r"^[-+]?(0x[0-9a-fA-F_]+|[0-9_]+)$", tok) else float(tok.replace("_", "")), line)
            except ValueError:
                return J("num", tok, line)
        return J("sym", tok, line)

    def seq(kind):
        nonlocal pos, line
        ln = line
        close = _CLOSE[text[pos]]
        pos += 1
        items = []
        while True:
            skip()
            if pos >= n:
                raise JanetSyntaxError("unterminated %s from line %d" % (kind, ln))
            if text[pos] == close:
                pos += 1
                return J(kind, items, ln)
            items.append(form())

    out = []
    while True:
        f = form()
        if f is None:
            return out
        out.append(f)


DEFINERS = ("def", "def-", "var", "var-", "defn", "defn-", "defmacro", "defmacro-", "defdyn", "defglobal", "varglobal", "varfn")


def toplevel(forms):
    """-> {name: (definer, form)} for the top-level definitions (last one wins, like the language)"""
    out = {}
    for f in forms:
        h = f.head()
        if h in DEFINERS and len(f.v) >= 2 and f.v[1].t == "sym":
            out[f.v[1].v] = (h, f)
    return out


def fn_parts(form):
    """(params btuple, body forms) of a defn / defn- / defmacro form, skipping docstring and metadata"""
    for i, k in enumerate(form.v[2:], 2):
        if k.t == "btuple":
            return k, form.v[i + 1:]
    return None, []
