"""Compile-fail witnesses: a generated C file of _Static_asserts over janet's own headers, checked with
clang -fsyntax-only.  Returns {name: bool}."""
import os
import re
import subprocess
import tempfile

from .facts import REPO, BASE_FLAGS, RESOURCE_DIR, AnalysisBroken


def run_witnesses(witnesses, includes=("janet.h",), extra_includes=(), prelude="", config_flags=()):
    """witnesses: list of (name, C constant expression)."""
    lines = ["#include <stddef.h>", "#include <stdint.h>"]
    for inc in includes:
        lines.append('#include <%s>' % inc if inc == "janet.h" else '#include "%s"' % inc)
    for inc in extra_includes:
        lines.append('#include "%s"' % inc)
    lines.append(prelude)
    base = len(lines)
    for i, (name, expr) in enumerate(witnesses):
        lines.append('_Static_assert(%s, "W%d");' % (expr, i))
    src = "\n".join(lines) + "\n"
    with tempfile.NamedTemporaryFile("w", suffix=".c", delete=False, dir=os.environ.get("TMPDIR", "/tmp")) as fh:
        fh.write(src)
        path = fh.name
    try:
        cmd = ["clang", "-fsyntax-only", "-ferror-limit=0", "-Wno-everything"] + BASE_FLAGS + list(config_flags) + [
            "-I%s/src/include" % REPO, "-I%s/src/conf" % REPO, "-iquote", "%s/src/core" % REPO, path]
        p = subprocess.run(cmd, stdout=subprocess.PIPE, stderr=subprocess.STDOUT, text=True)
        out = p.stdout
    finally:
        os.unlink(path)
    failed = set(int(m) for m in re.findall(r'static_assert[^\n]*failed[^\n]*"W(\d+)"', out))
    failed |= set(int(m) for m in re.findall(r'static assertion failed[^\n]*W(\d+)', out))
    # any other error (undeclared identifier ...) makes the witness file itself broken
    other = [l for l in out.splitlines() if "error:" in l and "static" not in l]
    if other:
        raise AnalysisBroken("witness file does not compile: " + "; ".join(other[:3]))
    return {name: (i not in failed) for i, (name, expr) in enumerate(witnesses)}
