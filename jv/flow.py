"""Generic CFG dataflow over the facts model (forward, worklist, any join-semilattice)."""
from collections import deque


def rpo(fn, start=None):
    """reverse post-order of reachable blocks from `start` (default entry)"""
    blocks = fn.blocks
    start = fn.entry if start is None else start
    seen = set()
    order = []
    stack = [(start, iter([s for s in blocks[start].succs if s >= 0]))]
    seen.add(start)
    while stack:
        b, it = stack[-1]
        adv = False
        for s in it:
            if s not in seen:
                seen.add(s)
                stack.append((s, iter([x for x in blocks[s].succs if x >= 0])))
                adv = True
                break
        if not adv:
            order.append(b)
            stack.pop()
    order.reverse()
    return order


def _atoms(cond, truth, depth=0):
    """Disjunctive normal form of `cond == truth`: a list of alternatives, each a list of (atomic cond, truth).
    a && b true -> [[a,b]];  a && b false -> [[!a], [a, !b]]  (short-circuit order)."""
    if depth > 6:
        return [[]]
    if cond.k == "bin" and cond.op in ("&&", "||"):
        conj = (cond.op == "&&") == truth      # both operands have value `truth`
        a, b = cond.kids
        if conj:
            out = []
            for x in _atoms(a, truth, depth + 1):
                for y in _atoms(b, truth, depth + 1):
                    out.append(x + y)
            return out[:8]
        # decided by a alone, or a has the other value and b decides
        out = list(_atoms(a, truth, depth + 1))
        for x in _atoms(a, not truth, depth + 1):
            for y in _atoms(b, truth, depth + 1):
                out.append(x + y)
        return out[:8]
    if cond.k == "un" and cond.op == "!":
        return _atoms(cond.kids[0], not truth, depth + 1)
    return [[(cond, truth)]]


def branch_edges(block):
    """For a two-way conditional block: [(succ_id, alternatives)] where alternatives is a list of lists of
    (atomic cond, truth); otherwise [(succ_id, [[]])].
    clang reports the whole `a && b` as the terminator condition.  If this block itself evaluates the right
    operand (if/while/for conditions), the branch is decided by that operand alone; if the block is a pure
    join of the short-circuit arms (do-while conditions), the branch is decided by the whole expression."""
    t = block.term
    out = []
    if t is not None and block.cond is not None and len(block.succs) == 2 and t.k != "switch":
        c = block.cond
        elem_ids = set(e.id for e in block.elems)
        while c.k == "bin" and c.op in ("&&", "||"):
            rhs = c.kids[1]
            probe = rhs
            while probe.k == "un" and probe.op == "!":
                probe = probe.kids[0]
            if probe.id in elem_ids or any(x.id in elem_ids for x in probe.walk()):
                c = rhs
            else:
                break
        out.append((block.succs[0], _atoms(c, True)))
        out.append((block.succs[1], _atoms(c, False)))
    else:
        for s in block.succs:
            out.append((s, [[]]))
    return out


def forward(fn, init, transfer, join, edge=None, start=None, max_iter=200000):
    """Forward dataflow.

    transfer(state, node) -> state           for each CFG element in order
    edge(state, block, succ_id, cond, truth) -> state or None (edge infeasible)
    join(a, b) -> state
    Returns (IN, OUT): dict block id -> state.  Unreached blocks are absent.
    """
    blocks = fn.blocks
    start = fn.entry if start is None else start
    order = rpo(fn, start)
    pos = {b: i for i, b in enumerate(order)}
    IN = {start: init}
    OUT = {}
    work = deque([start])
    inq = {start}
    it = 0
    while work:
        it += 1
        if it > max_iter:
            raise RuntimeError("dataflow did not converge in %s" % fn.name)
        b = work.popleft()
        inq.discard(b)
        st = IN[b]
        blk = blocks[b]
        dead = False
        for n in blk.elems:
            st = transfer(st, n)
            if st is None:
                dead = True     # the path ends here (call to a function that never returns)
                break
        if dead:
            continue
        OUT[b] = st
        for (s, alts) in branch_edges(blk):
            if s < 0:
                continue
            ns = st
            if edge is not None:
                results = []
                for atoms in alts:
                    r = st
                    if not atoms:
                        r = edge(st, blk, s, None, None)
                    else:
                        for (cond, truth) in atoms:
                            r = edge(r, blk, s, cond, truth)
                            if r is None:
                                break
                    if r is not None:
                        results.append(r)
                if not results:
                    continue
                ns = results[0]
                for r in results[1:]:
                    ns = join(ns, r)
            if s in IN:
                j = join(IN[s], ns)
                if j == IN[s]:
                    continue
                IN[s] = j
            else:
                IN[s] = ns
            if s not in inq:
                inq.add(s)
                work.append(s)
    return IN, OUT


def states_at(fn, IN, transfer):
    """Yield (node, state_before) for every element of every reached block."""
    for b, st in IN.items():
        for n in fn.blocks[b].elems:
            yield n, st
            st = transfer(st, n)


def exits(fn):
    """Exit points: (block, kind) with kind 'return' (edge to exit block from a return / end
    of function) or 'noreturn' (block ending in a call to a noreturn function)."""
    out = []
    ex = fn.exit
    for b in fn.blocks.values():
        if b.id == ex:
            continue
        if ex in b.succs:
            out.append((b, "noreturn" if b.noreturn else "return"))
    return out


def reachable_from(fn, start_block, stop=lambda b: False):
    seen = {start_block}
    work = [start_block]
    while work:
        b = work.pop()
        if stop(b):
            continue
        for s in fn.blocks[b].succs:
            if s >= 0 and s not in seen:
                seen.add(s)
                work.append(s)
    return seen


def shortest_path(fn, src, dst_pred, avoid=lambda b: False):
    """BFS over blocks from src to the first block satisfying dst_pred; returns list of ids."""
    prev = {src: None}
    q = deque([src])
    while q:
        b = q.popleft()
        if dst_pred(b):
            path = []
            while b is not None:
                path.append(b)
                b = prev[b]
            return path[::-1]
        for s in fn.blocks[b].succs:
            if s >= 0 and s not in prev and not avoid(s):
                prev[s] = b
                q.append(s)
    return None


# ---------------------------------------------------------------------------------------
# helpers for branch conditions


def strip_not(cond, truth):
    """Peel logical negations: returns (node, truth)"""
    while cond is not None and cond.k == "un" and cond.op == "!":
        cond = cond.kids[0]
        truth = not truth
    return cond, truth


def strip_expect(n):
    """__builtin_expect(x, c) -> x ; !!x handled by strip_not"""
    while n is not None and n.k == "call" and n.callee == "__builtin_expect":
        n = n.args[0]
    return n


def compare_of(cond, truth):
    """Normalise a branch condition to (lhs, op, rhs) that is known TRUE on this edge,
    or None.  `x` alone is (x, '!=', 0); `!x` is (x, '==', 0)."""
    cond = strip_expect(cond)
    cond, truth = strip_not(cond, truth)
    cond = strip_expect(cond)
    if cond is None:
        return None
    NEG = {"==": "!=", "!=": "==", "<": ">=", ">=": "<", ">": "<=", "<=": ">"}
    if cond.k == "bin" and cond.op in NEG:
        op = cond.op if truth else NEG[cond.op]
        return (cond.kids[0], op, cond.kids[1])
    return (cond, "!=" if truth else "==", None)


def forward_paths(fn, init, transfer, edge=None, cap=48, start=None):
    """Path-sensitive (disjunctive) forward analysis.  A state is a frozenset of fact-sets
    (one per class of paths); `transfer(facts, node)` and `edge(facts, blk, succ, cond, truth)`
    work on one fact-set.  Joins are unions, collapsed to the common facts above `cap`."""
    def T(S, n):
        # a transfer function may return None: the path class ends here (a call that does not return)
        return frozenset(r for r in (transfer(s, n) for s in S) if r is not None)

    def E(S, blk, succ, cond, truth):
        if edge is None:
            return S
        out = set()
        for s in S:
            r = edge(s, blk, succ, cond, truth)
            if r is not None:
                out.add(r)
        return frozenset(out) if out else None

    def J(a, b):
        u = a | b
        if len(u) > cap:
            return frozenset([frozenset.intersection(*u)])
        return u

    IN, OUT = forward(fn, frozenset([init]), T, J, edge=E, start=start)
    return IN, OUT, T


DEAD = ("dead", "", "", frozenset(), None, None)


def live(S):
    """the path classes of a state that have not passed a call the caller declared non-returning"""
    return [ps for ps in S if DEAD not in ps]


def condition_facts(fn, cap=48, dead_calls=None):
    """Path-sensitive facts from branch conditions: each fact-set holds tuples
    (op, lhs_node_text, rhs_text_or_'', frozenset(variable names), lhs_node, rhs_node) known true on that class
    of paths; a fact dies when one of its variables is assigned.  Returns (IN, T) for states_at.
    `dead_calls(name)`: calls to these functions do not return although the CFG does not know it (a wrapper around
    longjmp without the attribute); the path class ends there."""
    from .util import strip_casts

    def toks(x):
        return set(r.name for r in x.walk() if r.k == "ref") if x is not None else set()

    def transfer(st, x):
        tgt = None
        if dead_calls is not None and x.k == "call" and x.callee and dead_calls(x.callee):
            return None
        if x.k == "asg" and x.kids[0].k == "ref":
            tgt = x.kids[0].name
        elif x.k == "vardecl":
            tgt = x.name
        elif x.k == "un" and x.op in ("pre++", "post++", "pre--", "post--") and x.kids[0].k == "ref":
            tgt = x.kids[0].name
        if tgt:
            return frozenset(f for f in st if tgt not in f[3])
        return st

    def edge(st, blk, succ, cond, truth):
        c = compare_of(cond, truth)
        if c is None:
            return st
        l, op, r = c
        l = strip_casts(l)
        r = strip_casts(r) if r is not None else None
        lt, rt = l.text(), (r.text() if r is not None else "")
        # the same (side-effect free) test cannot come out both ways on one path: prune the contradiction
        neg = {"==": "!=", "!=": "==", "<": ">=", ">=": "<", ">": "<=", "<=": ">"}.get(op)
        def pure(e):
            # only locals / parameters / constants: any change to them kills the fact in transfer()
            return e is None or all(x.k not in ("call", "mem", "sub", "un") or (x.k == "un" and x.op in ("-", "~", "!")) for x in e.walk())
        if neg is not None and pure(l) and pure(r):
            for f in st:
                if f[0] == neg and f[1] == lt and f[2] == rt:
                    return None
        return st | {(op, lt, rt, frozenset(toks(l) | toks(r)), l, r)}
    IN, OUT, T = forward_paths(fn, frozenset(), transfer, edge=edge, cap=cap)
    return IN, T
