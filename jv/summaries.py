"""Program-wide summaries computed over the call graph."""
from .callgraph import CallGraph

PANIC_SEEDS = ("janet_signalv", "longjmp", "_longjmp", "siglongjmp", "__longjmp_chk")


class Summaries(object):
    def __init__(self, prog, cg=None):
        self.prog = prog
        self.cg = cg or CallGraph(prog)
        cg = self.cg
        # call sites with no statically known target: may do anything a C function may do
        self.opaque_sites = {}
        opaque_funcs = set()
        for fid, sites in cg.sites.items():
            for (n, tgt, kind) in sites:
                # a field with no implementation anywhere in the parsed program (JanetAbstractType.put,
                # .call, scratch finalizers) has no in-tree behaviour: the claim is about the parsed program
                if kind != "direct" and not tgt and not kind.startswith("field:"):
                    self.opaque_sites.setdefault(fid, []).append(n)
                    opaque_funcs.add(fid)
        self.opaque_funcs = opaque_funcs
        # may panic: reaches janet_signalv/longjmp or an opaque call
        seeds = set()
        for s in PANIC_SEEDS:
            seeds.add(cg.resolve_name(s, None))
        self.panic_seeds = seeds | opaque_funcs
        # barriers: a function that establishes a try state (setjmp) catches the raises of what it runs
        # (janet_continue_no_check, janet_pcall ...); the collector is required not to raise at all and is
        # analysed separately.
        self.panic_barriers = set()
        for fid, f in cg.funcs.items():
            if any(n.k == "call" and n.callee in ("janet_try_init", "_setjmp", "setjmp", "__sigsetjmp") for n in f.nodes):
                self.panic_barriers.add(fid)
        self.panic_barriers.add(cg.find("janet_collect"))
        # resource-limit raises (a buffer growing past 2 GB) and the formatter's own directive errors are
        # treated like out-of-memory: not an error of the running form.  Documented assumption.
        self.resource_barriers = set()
        for nm in ("janet_buffer_extra", "janet_buffer_ensure", "janet_buffer_setcount", "janet_formatbv",
                   "janet_formatc", "janet_formatb"):
            try:
                self.resource_barriers.add(cg.find(nm))
            except Exception:
                pass
        self.panic_barriers |= self.resource_barriers
        self.may_panic = cg.reaches(self.panic_seeds, stop=self.panic_barriers)
        # may relocate the running fiber's stack: reaches janet_call (pushes a frame on
        # janet_vm.fiber) or an opaque call (a JanetCFunction may call janet_call)
        # Resuming another fiber (janet_continue*) switches janet_vm.fiber: whatever the child does, it
        # pushes frames on its own stack, and the suspended parent (status alive) cannot be resumed by it,
        # so relocation does not propagate through janet_continue_no_check to its callers.
        jc = cg.find("janet_call")
        stop = {cg.find("janet_continue_no_check")}
        self.may_relocate = cg.reaches({jc} | opaque_funcs, stop=stop)
        # may run the collector
        col = cg.find("janet_collect")
        self.may_collect = cg.reaches({col} | opaque_funcs)

    def site_targets(self, fn, call):
        for (n, tgt, kind) in self.cg.sites.get(self.cg.fid(fn), ()):
            if n is call:
                return tgt, kind
        return [], "unknown"

    def call_in(self, fn, call, summary):
        """does this call site possibly enter a function in `summary` (set of fids)?"""
        tgt, kind = self.site_targets(fn, call)
        if kind != "direct" and not tgt and not kind.startswith("field:"):
            return True
        return any(t in summary for t in tgt)
