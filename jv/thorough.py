"""Thorough tier: the same static rules, pushed further.

1. other build configurations - the rules are re-run over the facts extracted with -DJANET_NO_NANBOX,
   -DJANET_EV_NO_EPOLL (poll back end) and -DJANET_DEBUG, for the (property, configuration) pairs listed in
   CONFIGS below (pairs confirmed analysable on the pinned tree; a pair that stops being analysable is exit 2);
2. checker self-test - every seeded change under /verif/seeded that tools/catch_table.json lists as caught by
   this property is applied to a scratch copy of /repo's current sources (outside /repo and /verif, removed
   afterwards) and the quick rules must report it (exit 1, expected rule).  A seeded change that no longer
   applies to the tree is skipped and listed; one that applies and is no longer reported means the checker has
   regressed: exit 2, never a pass;
3. regression self-test - every `fix:` commit recorded in known_findings.txt for this property is reverted on a scratch
   copy of the current sources (the reverse patches are kept under /verif/regress/<commit>/) and the quick rules must
   report the rule named in its `fixed:` line again: "a fixed entry suppresses nothing ... and reports the violation
   again if it ever returns".  Reverse patches that no longer apply (the code was changed again by a later repair) are
   skipped and listed; one that applies and is not reported is exit 2;
4. cross-reference - cppcheck over the property's anchor files with the real include paths; output is stored
   next to the evidence (evidence/xref/<id>.cppcheck.txt) for the reader and plays no part in the verdict.
"""
import json
import os
import shutil
import subprocess
import sys
import tempfile
from concurrent.futures import ThreadPoolExecutor

from .facts import VERIF, REPO, AnalysisBroken

CHECK = os.path.join(VERIF, "check")
CATCH = os.path.join(VERIF, "tools", "catch_table.json")

# (property -> configurations) under which the quick rules are known to be analysable on the pinned tree
CONFIGS = {}
_cfg_path = os.path.join(VERIF, "tools", "thorough_configs.json")
if os.path.exists(_cfg_path):
    CONFIGS = json.load(open(_cfg_path))


def _run_check(prop, env_extra, timeout=1200):
    env = dict(os.environ)
    env.update(env_extra)
    env.pop("VERIF_TIER", None)
    p = subprocess.run([sys.executable, CHECK, prop, "--tier", "quick"], env=env, stdout=subprocess.PIPE,
                       stderr=subprocess.STDOUT, timeout=timeout, universal_newlines=True)
    return p.returncode, p.stdout


def run_configs(prop, chk, scratch):
    out = []
    for cfg in CONFIGS.get(prop, []):
        o = os.path.join(scratch, "out-" + cfg)
        rc, txt = _run_check(prop, {"JV_CONFIG": cfg, "JV_OUT": o})
        last = txt.strip().splitlines()[-1] if txt.strip() else ""
        out.append({"config": cfg, "exit": rc, "summary": last})
        if rc == 2:
            raise AnalysisBroken("configuration %s: %s" % (cfg, last))
        if rc == 1:
            # re-emit the violations of that configuration under this run
            ev = []
            rdir = os.path.join(o, "reports", prop)
            if os.path.isdir(rdir):
                for f in sorted(os.listdir(rdir)):
                    ev.append(json.load(open(os.path.join(rdir, f))))
            for rec in ev:
                chk.rule(rec["rule"], "(reported under configuration %s)" % cfg) if rec["rule"] not in chk.rules else None
                chk.violation(rec["rule"], rec["unit"], rec["function"], rec["instance"] + "@" + cfg, rec["loc"],
                              "[configuration %s] %s" % (cfg, rec["message"]), rec.get("path"))
    return out


def _apply(seed_dir, dst_repo):
    shutil.copytree(os.path.join(REPO, "src"), os.path.join(dst_repo, "src"))
    p = subprocess.run(["patch", "-p1", "-s", "--fuzz=0", "-i", os.path.join(seed_dir, "patch.diff")], cwd=dst_repo,
                       stdout=subprocess.PIPE, stderr=subprocess.STDOUT)
    return p.returncode == 0


def run_selftest(prop, chk, scratch):
    if not os.path.exists(CATCH):
        return []
    table = json.load(open(CATCH))
    jobs = []
    for sid, ent in sorted(table.items()):
        rules = ent.get("caught_by", {}).get(prop)
        if rules:
            jobs.append((sid, rules))

    def one(job):
        sid, rules = job
        sd = os.path.join(VERIF, "seeded", sid)
        w = os.path.join(scratch, "seed-" + sid)
        os.makedirs(os.path.join(w, "repo"))
        try:
            if not _apply(sd, os.path.join(w, "repo")):
                return {"seed": sid, "result": "skipped", "why": "patch no longer applies to the current tree"}
            rc, txt = _run_check(prop, {"JV_REPO": os.path.join(w, "repo"), "JV_CACHE": os.path.join(w, "cache"),
                                        "JV_OUT": os.path.join(w, "out"), "JV_CONFIG": ""})
            hit = sorted(set(r for r in rules if (" " + r + " ") in txt or (r + " ") in txt))
            if rc == 1 and hit:
                return {"seed": sid, "result": "detected", "rules": hit}
            return {"seed": sid, "result": "MISSED", "exit": rc, "expected": rules,
                    "tail": txt.strip().splitlines()[-1:] }
        finally:
            shutil.rmtree(w, ignore_errors=True)
    with ThreadPoolExecutor(max_workers=8) as ex:
        res = list(ex.map(one, jobs))
    missed = [r for r in res if r["result"] == "MISSED"]
    if missed:
        raise AnalysisBroken("checker self-test: seeded change(s) %s are no longer reported by %s (expected rules %s)" % (
            ", ".join(m["seed"] for m in missed), prop, missed[0]["expected"]))
    return res


def run_regress(prop, chk, scratch):
    rdir = os.path.join(VERIF, "regress")
    jobs = []
    if os.path.isdir(rdir):
        for c in sorted(os.listdir(rdir)):
            mp = os.path.join(rdir, c, "meta.json")
            if not os.path.exists(mp):
                continue
            meta = json.load(open(mp))
            rules = [e["rule"] for e in meta.get("expect", []) if e["property"] == prop]
            if rules:
                jobs.append((c, rules, meta.get("subject", "")))

    def one(job):
        c, rules, subject = job
        w = os.path.join(scratch, "regress-" + c)
        os.makedirs(os.path.join(w, "repo"))
        try:
            if not _apply(os.path.join(rdir, c), os.path.join(w, "repo")):
                return {"commit": c, "result": "skipped", "why": "the reverse patch no longer applies to the current tree"}
            rc, txt = _run_check(prop, {"JV_REPO": os.path.join(w, "repo"), "JV_CACHE": os.path.join(w, "cache"),
                                        "JV_OUT": os.path.join(w, "out"), "JV_CONFIG": ""})
            hit = sorted(set(r for r in rules if (r + " ") in txt))
            if rc == 1 and len(hit) == len(set(rules)):
                return {"commit": c, "result": "reported again", "rules": hit, "fix": subject[:100]}
            return {"commit": c, "result": "MISSED", "exit": rc, "expected": rules, "got": hit}
        finally:
            shutil.rmtree(w, ignore_errors=True)
    with ThreadPoolExecutor(max_workers=8) as ex:
        res = list(ex.map(one, jobs))
    missed = [r for r in res if r["result"] == "MISSED"]
    if missed:
        raise AnalysisBroken("regression self-test: reverting fix %s is no longer reported by %s (expected %s, got %s)" % (
            missed[0]["commit"], prop, missed[0]["expected"], missed[0]["got"]))
    return res


def run_xref(prop, chk):
    """cppcheck over the anchor files; informational"""
    props = {}
    for l in open(os.path.join(VERIF, "properties.jsonl")):
        d = json.loads(l)
        props[d["id"]] = d
    files = [f for f in props.get(prop, {}).get("anchors", {}).get("files", []) if f.endswith(".c")]
    files = [os.path.join(REPO, f) for f in files if os.path.exists(os.path.join(REPO, f))]
    if not files or not shutil.which("cppcheck"):
        return None
    from .report import OUT
    xdir = os.path.join(OUT, "evidence", "xref")
    os.makedirs(xdir, exist_ok=True)
    dst = os.path.join(xdir, "%s.cppcheck.txt" % prop)
    try:
        p = subprocess.run(["cppcheck", "--enable=warning,portability", "--inline-suppr", "--quiet", "-j", "8",
                            "-I", os.path.join(REPO, "src/include"), "-I", os.path.join(REPO, "src/conf"),
                            "--suppress=missingIncludeSystem", "--template={file}:{line}: {severity}: {id}: {message}"] + files,
                           stdout=subprocess.PIPE, stderr=subprocess.STDOUT, timeout=600, universal_newlines=True)
        lines = [l for l in p.stdout.splitlines() if l.strip()]
    except Exception as e:      # informational only
        lines = ["cppcheck did not complete: %s" % e]
    with open(dst, "w") as fh:
        fh.write("\n".join(lines) + "\n")
    return {"tool": "cppcheck 2.10 --enable=warning,portability", "files": len(files), "reports": len(lines),
            "stored": os.path.relpath(dst, OUT), "role": "cross-reference only; no part of the verdict"}


def run(prop, chk):
    scratch = tempfile.mkdtemp(prefix="jv-thorough-%s-" % prop)
    try:
        cfgs = run_configs(prop, chk, scratch)
        st = run_selftest(prop, chk, scratch)
        rg = run_regress(prop, chk, scratch)
        xr = run_xref(prop, chk)
    finally:
        shutil.rmtree(scratch, ignore_errors=True)
    chk.extra["configurations"] = [{"config": "default", "exit": 1 if chk.violations else 0}] + cfgs
    chk.extra["selftest"] = {"what": "seeded changes from /verif/seeded applied to a scratch copy of the current sources; each must be reported",
                             "results": st,
                             "detected": sum(1 for r in st if r["result"] == "detected"),
                             "skipped": sum(1 for r in st if r["result"] == "skipped")}
    chk.extra["regression"] = {"what": "every fix: commit recorded for this property reverted on a scratch copy of the current sources; "
                                       "the rule of its `fixed:` line must report it again",
                               "results": rg,
                               "reported_again": sum(1 for r in rg if r["result"] == "reported again"),
                               "skipped": sum(1 for r in rg if r["result"] == "skipped")}
    if xr:
        chk.extra["cross_reference"] = xr
    chk.note("thorough: %d extra configuration(s), %d seeded change(s) re-detected, %d skipped; %d reverted fix(es) reported again, %d skipped" % (
        len(cfgs), chk.extra["selftest"]["detected"], chk.extra["selftest"]["skipped"],
        chk.extra["regression"]["reported_again"], chk.extra["regression"]["skipped"]))
