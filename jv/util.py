"""Small shared helpers over the facts model."""
from . import flow


_CASEMAP_CACHE = {}


def case_map(sw):
    """node id -> list of case names for every node in the body of switch `sw`, following C semantics:
    statements after a label belong to it until a break/return/goto/continue; fallthrough accumulates."""
    key = (id(sw.fn), sw.id)
    if key in _CASEMAP_CACHE:
        return _CASEMAP_CACHE[key]
    out = {}
    body = sw.kids[1] if len(sw.kids) > 1 else None
    current = []
    terminated = True
    stmts = list(body.kids) if body is not None and body.k == "compound" else ([body] if body is not None else [])
    for st in stmts:
        s = st
        labels = []
        while s is not None and s.k in ("case", "default"):
            labels.append(case_name(s))
            nxt = s.kids[-1] if s.kids else None
            if s.k == "case" and len(s.kids) < 2:
                nxt = None
            s = nxt
        if labels:
            if terminated:
                current = []
            current = current + labels
            terminated = False
        if s is None:
            continue
        for x in s.walk():
            if x.k == "switch" and x is not s:
                pass
            out[x.id] = list(current)
        # does this statement end the arm?
        if cannot_complete(s):
            terminated = True
    _CASEMAP_CACHE[key] = out
    return out


def cannot_complete(s):
    """statement never falls through to the next one (syntactic): break/return/goto/continue, a call to a
    noreturn function, a block ending in such a statement, or an if/else whose arms both cannot complete"""
    if s is None:
        return False
    if s.k in ("break", "return", "goto", "continue"):
        return True
    if s.k == "call":
        return bool(s.fn.tu.decls.get(s.callee or "", {}).get("noreturn"))
    if s.k == "compound":
        return bool(s.kids) and cannot_complete(s.kids[-1])
    if s.k == "if":
        return len(s.kids) >= 3 and cannot_complete(s.kids[1]) and cannot_complete(s.kids[2])
    return False


def enclosing_cases(node):
    """Names (enumerators / values / 'default') of the case labels whose arm a node belongs to."""
    for a in node.ancestors():
        if a.k == "switch":
            m = case_map(a)
            if node.id in m:
                return list(m[node.id])
            break
    return _enclosing_cases_syntactic(node)


def _enclosing_cases_syntactic(node):
    out = []
    for a in node.ancestors():
        if a.k in ("case", "default"):
            out.append(case_name(a))
            # collect directly nested labels above (case A: case B: stmt)
            p = a.parent
            while p is not None and p.k in ("case", "default"):
                out.append(case_name(p))
                p = p.parent
            break
    return out


def case_name(c):
    if c.k == "default":
        return "default"
    e = c.kids[0] if c.kids else None
    if e is not None and e.k == "ref":
        return e.name
    if e is not None and e.k == "int" and e.d.get("char"):
        v = c.d.get("v")
        return repr(chr(v)) if v is not None and 32 <= v < 127 else str(v)
    return str(c.d.get("v"))


def enclosing_label(node):
    for a in node.ancestors():
        if a.k == "label":
            return a.name
    return None


def is_mem(n, field, rec=None):
    return n is not None and n.k == "mem" and n.field == field and (rec is None or n.rec == rec)


def is_ref(n, name=None):
    return n is not None and n.k == "ref" and (name is None or n.name == name)


def strip_casts(n):
    while n is not None and n.k == "cast":
        n = n.kids[0]
    return n


def base_var(n):
    """the variable at the root of an lvalue/pointer expression (a->b.c[i] -> a)"""
    while n is not None:
        if n.k == "ref":
            return n.name
        if n.k in ("mem", "sub", "cast"):
            n = n.kids[0]
        elif n.k == "un" and n.op in ("*", "&"):
            n = n.kids[0]
        elif n.k == "bin" and n.op in ("+", "-"):
            n = n.kids[0]
        else:
            return None
    return None


def may_set(fn, init, transfer, edge=None, start=None):
    """forward may-analysis whose states are frozensets (join = union)"""
    return flow.forward(fn, init, transfer, lambda a, b: a | b, edge=edge, start=start)


def must_set(fn, init, transfer, edge=None, start=None):
    """forward must-analysis whose states are frozensets (join = intersection)"""
    return flow.forward(fn, init, transfer, lambda a, b: a & b, edge=edge, start=start)


def local_inits(fn):
    """name -> list of initialiser / assigned RHS nodes for locals of a function"""
    out = {}
    for n in fn.nodes:
        if n.k == "vardecl" and n.kids:
            out.setdefault(n.name, []).append(n.kids[0])
        elif n.k == "asg" and n.op == "=" and n.kids[0].k == "ref":
            out.setdefault(n.kids[0].name, []).append(n.kids[1])
    return out


def switch_cases(switch_node):
    """All case/default label nodes that belong to this switch (not to nested switches)."""
    out = []
    stack = list(switch_node.kids[1:])
    while stack:
        n = stack.pop()
        if n.k == "switch":
            continue
        if n.k in ("case", "default"):
            out.append(n)
        stack.extend(n.kids)
    return out


def find_switch_on(fn, pred):
    """switch statements of fn whose scrutinee satisfies pred(node)"""
    return [n for n in fn.nodes if n.k == "switch" and pred(n.kids[0])]


def wraps(n, name):
    """is expression n the constant constructor `name` (janet_wrap_nil / janet_wrap_false ...)?  It is a macro in the
    nan-boxed build and a function call with -DJANET_NO_NANBOX."""
    n = strip_casts(n)
    if n is None:
        return False
    if name in n.macro_names():
        return True
    return n.k == "call" and n.callee == name
