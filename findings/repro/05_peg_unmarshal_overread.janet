(def b @"")
(buffer/push-byte b 217 207 8)
(buffer/push-string b "core/peg")
(buffer/push-byte b 1 0 5) # len=1, consts=0, bytecode[0]=RULE_LOOK
(pp b)
(pp (protect (unmarshal b)))
(def b2 @"")
(buffer/push-byte b2 217 207 8)
(buffer/push-string b2 "core/peg")
(buffer/push-byte b2 1 0 6) # RULE_CHOICE: reads rule[1] len then rule[2+j]
(pp (protect (unmarshal b2)))
