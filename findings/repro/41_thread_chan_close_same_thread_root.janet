(def weak (array/weak 4))
(defn run []
  (def ch (ev/thread-chan 1))
  (def f (ev/spawn (ev/take ch)))
  (put weak 0 f)
  (ev/sleep 0.05)       # f parks on the threaded channel (rooted by the registration)
  (ev/chan-close ch)    # same thread closes: f is woken with nil
  (ev/sleep 0.05))
(run)
(gccollect) (gccollect)
(print "fiber still reachable after it finished and all references were dropped: " (not (nil? (get weak 0))))
(os/exit (if (nil? (get weak 0)) 0 1))
