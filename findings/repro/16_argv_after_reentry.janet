# JOP_LENGTH, call_nonfn, debug/stacktrace with :err function
(def t (table/setproto @{} @{:length (fn [x] 7) :+ (fn [a b] [a b])}))
(defn f [a] (length a))
(print (f t))
(defn deep [n] (if (= n 0) 0 (+ 1 (deep (- n 1)))))
(setdyn :err (fn [b] (deep 300)))
(def fb (fiber/new (fn [] (error "x")) :e))
(resume fb)
(print (= fb (debug/stacktrace fb "err" "")))
