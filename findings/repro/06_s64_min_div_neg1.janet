(def m (int/s64 "-9223372036854775808"))
(pp (protect (/ m -1)))
(pp (protect (mod m -1)))
(pp (protect (div m -1)))
