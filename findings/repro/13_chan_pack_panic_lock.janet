# Expected: finishes printing "parent take: 1".  Observed: hangs (run under `timeout 5`).
# Delete the (protect ...) line and it finishes.
(def tc (ev/thread-chan 4))
(pp (protect (ev/give tc (parser/new))))   # janet_marshal panics with the channel mutex held
(ev/thread (fn [] (print "child giving") (ev/give tc 1) (print "child gave")))
(print "parent take: " (ev/take tc))
