# a thread that fails to start reports its error string through JANET_EV_TCTAG_ERR_STRINGF; the callback frees the
# strdup'ed copy only `if (tag == JANET_EV_TCTAG_STRINGF)`, which is never true in that arm
(def x (int/s64 5))
(for i 0 20
  (def r (protect (ev/thread (fn [&] x) nil :a)))
  (when (= i 0) (printf "%q" r)))
