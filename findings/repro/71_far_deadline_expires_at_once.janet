# an interrupting deadline far in the future must not interrupt the guarded fiber now
(var n 0)
(def f (coro (for i 0 20000000 (++ n)) :finished))
(ev/deadline 1e30 nil f true)
(def r (protect (resume f)))
(printf "result %q, iterations done %d of 20000000" r n)
(os/exit (if (= n 20000000) 0 1))
