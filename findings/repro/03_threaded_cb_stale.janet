# fiber waits on ev/thread (threaded await), is cancelled, then sleeps; when the thread finishes, is the sleeper woken early?
(def f (ev/go (fn []
   (try (ev/thread (fn [] (os/sleep 0.3))) ([e] (print "thread wait interrupted: " e)))
   (def t0 (os/clock))
   (def r (ev/sleep 1))
   (printf "slept %.2f r=%v" (- (os/clock) t0) r))))
(ev/sleep 0.1)
(ev/cancel f "cancelled")
