/* janet_loop1_interrupt posts a message with a NULL callback.  janet_ev_post_event counts every message as pending
 * work (listener_count++), but the self-pipe handler gives the count back only for messages WITH a callback, so after
 * one janet_loop1_interrupt (run under `timeout 5`: exit 124 = hang) the event loop can never become idle: janet_loop() on a finished program hangs. */
#include <janet.h>
#include <stdio.h>
#include <signal.h>
#include <unistd.h>
static void on_alarm(int sig) { (void) sig; const char m[] = "BROKEN: janet_loop() still running after 3 s with nothing to do\n"; write(1, m, sizeof(m) - 1); _exit(1); }
int main(void) {
    janet_init();
    JanetTable *env = janet_core_env(NULL);
    Janet out;
    janet_dostring(env, "(ev/spawn (ev/sleep 0.05))", "demo", &out);
    janet_loop1_interrupt(janet_local_vm());
    janet_loop();
    printf("OK: event loop returned once the only task had finished\n");
    janet_deinit();
    return 0;
}
