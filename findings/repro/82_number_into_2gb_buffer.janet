# printing a number into a buffer that is (almost) 2 GB long: count + 64 wraps, janet_buffer_ensure does nothing,
# and the digits are written past the end of the allocation
(def b (buffer/new-filled 2147483640 65))
(buffer/trim b)
(def r (protect (buffer/format b "%v" 1.25)))
(print (r 0) " " (if (r 0) (length b) (r 1)))
