# UNMODIFIED tree. A fiber gives, without yielding in between, more values to readers parked IN ITS OWN
# THREAD on a thread channel than fit into the thread's self-pipe (64 KiB / 40 bytes = 1638 events).
# Every give is a hand-off posted to the thread's own self-pipe; the write end is blocking, the only
# reader of the pipe is this same thread, so the 1639th give blocks in write() forever.
# n=1600 works, n=1700 hangs (exit 124 under `timeout 10`). The property wants every value delivered.
(def c (ev/thread-chan 0))
(var got 0)
(def n 1700)
(for i 0 n (ev/spawn (ev/take c) (++ got)))
(ev/sleep 0.05)
(for i 0 n (ev/give c i))
(print "gave all")
(ev/sleep 0.2)
(print "got " got)
(os/exit (if (= got n) 0 1))
