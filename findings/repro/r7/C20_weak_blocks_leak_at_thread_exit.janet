(defn rss [] (scan-number (first (peg/match '(* (thru "VmRSS:") :s* (<- :d+)) (slurp "/proc/self/status")))))
(defn run [weak]
  (def r0 (rss))
  (for i 0 100
    (ev/thread (fn [w] (def t (if w (table/weak 20000) (table/new 20000))) (for k 0 20000 (put t k k)) nil) weak))
  (gccollect)
  (printf "100 threads each filling a %s table of 20000 entries: rss %d kB -> %d kB" (if weak "weak" "normal") r0 (rss)))
(run false)
(run true)
