# Observed on the UNMODIFIED worktree /tmp/wt7/C02 (HEAD d7d3fe9) while seeding C02 (round 7).
# Each block prints what the unmodified build does; the comment says what C02 requires.
# Run: build/janet C02-unmodified-tree-finding-r7.janet   (exit 1 = at least one deviation seen)

(var seen 0)
(defn report [what got expected]
  (if (deep= got expected)
    (printf "as required  %s: %q" what got)
    (do (++ seen) (printf "DEVIATION    %s: got %q, required %q" what got expected))))

# 1. More than 240 parameters: registers 240-255 are reserved for temporaries, so the compiler
#    gives parameter #240.. registers 256.., but the VM stores the arguments contiguously.
#    Parameters from the 241st on are bound to the wrong arguments (and the last ones to nil).
(def syms (seq [i :range [0 300]] (symbol "a" i)))
(def f (eval ~(fn ,(tuple/brackets ;syms) [a0 a239 a240 a241 a255 a256 a299])))
(report ">240 parameters" (f ;(range 300)) [0 239 240 241 255 256 299])

# 2. Destructuring pattern with more than 256 positional elements against a shorter value:
#    elements 0..255 use GET_INDEX (missing -> nil), elements >= 256 use IN (missing -> error).
(def g (eval ~(fn [] (def ,(tuple/brackets ;syms) (tuple 1 2 3)) [a0 a2 a255 a256 a299])))
(report "long pattern, short value" (protect (g)) [true [1 3 nil nil nil]])

# 3. Left-to-right evaluation of operands: a bare mutable local used as an operand is not read
#    until the instruction is emitted, so a later operand that assigns it changes the earlier one.
(defn h1 [] (var a 1) (tuple a (do (set a 10) 5)))
(report "operand read after later operand's side effect (call)" (h1) [1 5])
(defn h2 [] (var a 1) (+ a (do (set a 10) 5)))
(report "operand read after later operand's side effect (+)" (h2) 6)
(defn h3 [] (var a 1) (def [x y] [a (do (set a 10) 5)]) x)
(report "operand read after later operand's side effect (def [..] [..])" (h3) 1)

# 4. (set x (+ x 1 "a")) raises, but x has already been overwritten with the partial sum,
#    because the assigned variable is used as the accumulator of the inlined reduction.
(var getx nil)
(def fib (fiber/new (fn [] (var x 1) (set getx (fn [] x)) (set x (+ x 1 "a"))) :e))
(resume fib)
(report "variable after a failed (set x (+ x 1 \"a\"))" (getx) 1)

# 5. The constant pool merges constants that are = but distinguishable: '(0) and '(-0.0).
(defn k [] (tuple (quote (0)) (quote (-0.0))))
(report "distinct zero constants" (map (fn [t] (/ 1 (t 0))) (k)) @[math/inf math/-inf])

(os/exit (if (= seen 0) 0 1))
