(eprint :start) (ev/sleep -9e14) (eprint :ok)
