# UNMODIFIED tree: unmarshal_one_fiber exempts a frame whose pc is at a JOP_TAILCALL from the
# "pc + 1 must be inside the bytecode" check ("implicit return"). That is right for the TOP frame
# of a fiber that longjmp'ed out of a C function, but a frame BELOW the top is continued by
# JOP_RETURN of its callee, which always does stack[A] = retval; pc++ . With the lower frame parked
# on a final (tcall) the interpreter steps past the end of the bytecode array and executes whatever
# words follow it on the heap. Observed: the stack trace reports "in outer pc=6" for a function of
# 5 instructions (indices 0..4) - a debug signal from a garbage opcode. Exit status 1 = broken.
(def inner (asm '{:name "inner" :arity 0 :bytecode [(ldi 0 7) (sig 1 0 3) (ret 1)]}))
(def outer (asm ~{:name "outer" :arity 0 :constants [,inner ,identity]
                  :bytecode [(ldc 0 0) (call 1 0) (push 1) (ldc 0 1) (tcall 0)]}))
(def f (fiber/new outer :y))
(assert (= 7 (resume f)))
(def image (marshal f (invert (env-lookup root-env))))
# lower frame header: flags 02, prevframe 00, pcdiff 01 (the call) ; move it to 04 (the final tcall)
(def pos (string/find "\x07\xc9\x02\x00\x01\xd7" image))
(assert pos)
(def b (buffer image))
(put b (+ pos 4) 4)
(def g (unmarshal b (env-lookup root-env)))
(eprint "accepted " g)
(def [ok res] (protect (resume g 5)))
(eprintf "resume -> ok=%v value=%j status=%v" ok res (fiber/status g))
(def frames (debug/stack g))
(def pcs (map |($ :pc) frames))
(eprintf "frame pcs after resume: %j (outer has 5 instructions)" pcs)
(when (some |(and $ (>= $ 5)) pcs)
  (eprint "BROKEN: interpreter ran past the end of outer's bytecode")
  (os/exit 1))
