# UNMODIFIED tree. A fiber whose signal mask includes user9 (:a, :u, :9 or :w) traps the event-loop
# await of its child: (resume f) returns at once with the child left :suspended, and the task carries
# on. The registration the child made (here the ev/sleep timer, stamped with the task's current
# sched_id) is still armed, and nothing has bumped the task's generation. When the task then blocks
# in an unrelated (ev/sleep 0.6), the child's 0.2 s timer resumes it: the sleep returns after 0.2 s.
# Property C07: ev/sleep never returns before its duration has elapsed / a fiber is resumed only by
# what it is currently waiting for.
(var bad 0)
(each m [:a :9 :u :w]
  (def f (fiber/new (fn [] (ev/sleep 0.2) :done) m))
  (def r (protect (resume f)))
  (eprintf "mask %v: resume -> %q, child status %v" m r (fiber/status f))
  (def t (os/clock :monotonic))
  (def got (protect (ev/sleep 0.6)))
  (def dt (- (os/clock :monotonic) t))
  (eprintf "   (ev/sleep 0.6) -> %q after %.3f s   (expected after 0.600 s)" got dt)
  (if (< dt 0.59) (++ bad)))
(os/exit (if (zero? bad) 0 1))
