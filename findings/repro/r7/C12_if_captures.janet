# Behaviour of the UNMODIFIED tree noticed while seeding C12 (round 7).
# (if cond patt): the PEG documentation says "Tries to match patt only if cond matches as well.
# cond will not produce any captures."  In this tree RULE_IF does no cap_save/cap_load around
# cond, so the captures (and accumulated text) of a successful cond are kept:
(pp (peg/match '(if (<- "a") "a") "a"))                    # observed @["a"], documented @[]
(pp (peg/match '(if (* (<- "a") (constant :k)) 1) "a"))    # observed @["a" :k], documented @[]
(pp (peg/match '(% (if (<- "a") "a")) "a"))                # observed @["a"], documented @[""]
# (if-not cond patt) and (not patt) do discard them.  (This matches upstream Janet's code, so it
# may be considered a documentation issue rather than a matcher defect.)
