# UNMODIFIED tree. The supervisor thread channel of a worker thread is closed before the worker's task
# finishes. When the task ends, janet_loop1 pushes the [:ok ...] event to the closed channel, which
# raises outside any fiber; the error lands in the janet_try of janet_go_thread_subr, whose handler
# pushes an [:error ...] event to the same closed channel, which raises again into the same (not yet
# restored) jump buffer: the worker thread spins at 100% CPU forever, never finishes, and the main
# thread can never exit (its loop still counts the worker). Observed: hang, exit 124 under `timeout 10`,
# `ps` shows 2 threads and ~90% CPU. Expected: the event is dropped or reported and the thread ends.
(def sup (ev/thread-chan 10))
(ev/thread (fn [] (os/sleep 0.3) :done) nil :n sup)
(ev/sleep 0.05)
(ev/chan-close sup)
(ev/sleep 1)
(print "main done")
