# debug/stacktrace of the CURRENT fiber while (dyn :err) is a function that
# recurses deep enough to grow (and move) that fiber's stack.
(defn deep [n] (if (> n 0) (+ 1 (deep (- n 1))) 0))
(def out @"")
(defn errfn [x] (deep 300) (buffer/push out x))
(defn level3 [] (debug/stacktrace (fiber/current) "boom" "") :l3)
(defn level2 [] (def r (level3)) r)
(defn level1 [] (def r (level2)) r)
(def f (fiber/new (fn [] (setdyn :err errfn) (def r (level1)) r) :e))
(def r (resume f))
(print "status " (fiber/status f) " result " r)
(print out)
