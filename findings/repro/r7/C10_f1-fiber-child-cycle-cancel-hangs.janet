# UNMODIFIED tree: an image fiber may name ITSELF as its child (LB_FIBER is entered in the
# reference table before its fields are read, so the child can be (LB_REFERENCE 0)).
# (cancel f x) -> janet_continue_signal walks `while (child->child) child = child->child;`
# and never terminates. Run under `timeout 10`: exit status 124 = hung.
(def f (fiber/new (fn [] (yield 1) 2)))
(resume f)
(def img (marshal f))
(def b (buffer img))
# fiber flags are the 5-byte integer right after LB_FIBER: set JANET_FIBER_FLAG_HASCHILD (1<<29)
(assert (= 0xCD (b 1)))
(put b 2 (bor (b 2) 0x20))
# the child goes between the frames and the last value (last byte of this image)
(def n (length b))
(def image (buffer (buffer/slice b 0 (- n 1)) "\xDA\x00" (buffer/slice b (- n 1))))
(def g (unmarshal image))
(eprint "accepted " g " status " (fiber/status g))
(eprint "resume -> " (string/format "%j" (protect (resume g))) "  (terminates: recursion guard)")
(def g2 (unmarshal image))
(eprint "calling (cancel g2 \"x\") ...")
(eprint "cancel -> " (string/format "%j" (protect (cancel g2 "x"))))
(eprint "cancel returned: property held")
