# Behaviour of the UNMODIFIED tree noticed while seeding C12 (round 6).
# A compiled peg that contains (int n), (int-be n) or (uint-be n) cannot be unmarshalled:
# peg_unmarshal's verifier tests `rule[1] > JANET_MAX_READINT_WIDTH` on the whole operand word,
# but the word also carries the signedness (0x10) and endianness (0x20) flags, so every readint
# other than little-endian unsigned is rejected with "invalid peg bytecode".
# A compiled grammar should behave like the source grammar, also after a marshal round trip.
(each g ['(uint 2) '(int 2) '(uint-be 2) '(int-be 2)]
  (def direct (peg/match g "\x01\x02"))
  (def round (try (peg/match (unmarshal (marshal (peg/compile g))) "\x01\x02") ([e] [:error e])))
  (printf "%q direct=%q after-marshal=%q" g direct round))
