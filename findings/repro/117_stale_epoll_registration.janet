# stale epoll registration after close when the description is still referenced by a dup
(def keep @[])
(def readers @[])
(for i 0 50
  (def [r w] (os/pipe))
  (array/push keep (ev/to-file w))
  (array/push readers r)
  (ev/close w))
(gccollect)
# churn the heap so freed stream memory gets reused
(def junk @[])
(for i 0 2000 (array/push junk (string/repeat "zzzzzzzz" 12)) (array/push junk @{:a i}))
(each r readers (ev/close r))   # EPOLLERR on the (still registered) write descriptions
(ev/sleep 0.2)
(print "survived")
