# C08: ev/select raises on a bad clause while the mutexes of earlier thread-channel clauses are held
(def tc (ev/thread-chan 4))
(when (= (get (dyn :args) 1) "bad")
  (print "select ->" (string/format "%q" (protect (ev/select tc 5)))))
(ev/thread (fn [] (ev/give tc 1)))
(print "parent got " (ev/take tc))
