(print (string/format "[%D] [%I] [%d] [%5D]" 5 6 7 8))
