# what (% ...) accumulates for a (number ...) capture must not depend on an unrelated, never-taken back-reference
(def a (peg/match '(% (* (number :d+) (<- "x"))) "007x"))
(def b (peg/match '(% (* (number :d+) (<- "x") (? (* "!" (<- 1 :t) (backmatch :t))))) "007x"))
(printf "%q %q" a b)
(os/exit (if (deep= a b) 0 1))
