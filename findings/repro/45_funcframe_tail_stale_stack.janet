(defn callee [&opt a b c d e f g h i j k l m n o p & rest]
  [a p rest])
(defmacro mkcaller [name n]
  (def syms (seq [i :range [0 n]] (gensym)))
  ~(defn ,name [x]
     (var acc 0)
     ,;(map (fn [s] ~(def ,s (+ x 1000))) syms)
     (set acc (+ ,;syms))
     (if (> acc -1) (callee) acc)))
(var nbad 0)
(loop [n :range [1 200]]
  (eval ~(mkcaller ,(symbol "caller" n) ,n))
  (def f (eval (symbol "caller" n)))
  (def fib (fiber/new (fn [] (f 1))))
  (def r (resume fib))
  (unless (deep= r [nil nil []])
    (++ nbad)
    (printf "n=%d -> %q" n r)))
(print "bad: " nbad)
(os/exit (if (zero? nbad) 0 1))
