# P3: more hand-offs in flight to one busy thread than fit into its self-pipe
(def tc (ev/thread-chan))
(def n 1700)
(var got 0)
(for i 0 n (ev/spawn (ev/take tc) (++ got)))
(ev/sleep 0.1)
(ev/spawn-thread (for i 0 n (ev/give tc i)))
(os/sleep 1.5) # main thread busy, cannot drain its self-pipe
(ev/sleep 1)
(print "got " got)
(os/exit (if (= got n) 0 1))
