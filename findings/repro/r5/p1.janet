# P1: stale select registration of a thread that has exited
(def ch1 (ev/thread-chan))
(def ch2 (ev/thread-chan))
(def done (ev/thread-chan 4))
(ev/spawn-thread
  (def r (ev/select ch1 ch2))
  (ev/give done [:b (r 0) (r 2)]))
(ev/sleep 0.2)
(ev/give ch2 :to-b)
(pp (ev/take done))
(ev/sleep 0.3) # B exits
(def got @[])
(ev/spawn (array/push got (ev/take ch1)))
(ev/sleep 0.1)
(ev/spawn (ev/give ch1 :x))
(ev/sleep 0.5)
(pp got)
(os/exit (if (deep= got @[:x]) 0 1))
