# P4: ev/thread completion resumes a caller that was cancelled and now waits on something else
(def ch (ev/thread-chan))
(def out @[])
(def f (ev/spawn
  (try (ev/thread (fn [&] (os/sleep 0.5))) ([e] (array/push out [:cancelled e])))
  (array/push out [:take (ev/take ch)])))
(ev/sleep 0.1)
(ev/cancel f "stop")
(ev/sleep 1.0)
(pp out)
(ev/give ch :real)
(ev/sleep 0.1)
(pp out)
