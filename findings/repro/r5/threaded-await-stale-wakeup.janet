# probe 1: ev/thread waiter cancelled, then thread completes while fiber in another wait
(var r nil) (var dt nil)
(def F (ev/go (fn []
  (def e (try (ev/do-thread (os/sleep 0.5)) ([err] [:err err])))
  (print "thread wait gave " (string/format "%q" e))
  (def t (os/clock :monotonic))
  (set r (ev/sleep 2))
  (set dt (- (os/clock :monotonic) t)))))
(ev/sleep 0.1)
(ev/cancel F "stop")
(ev/sleep 2.5)
(printf "sleep 2 returned %q after %q" r dt)
