(defn f [x] (+ 1 (f x)))
(def r (protect (f 1)))
(print "result: " (r 0) " " (r 1))
