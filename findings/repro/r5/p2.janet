# P2: two threads selecting over the same two thread channels in opposite order
(def a (ev/thread-chan))
(def b (ev/thread-chan))
(def done (ev/thread-chan 8))
(defn worker [x y tag]
  (fn [&]
    (for i 0 1500
      (try (ev/with-deadline 0.0005 (ev/select x y)) ([e] nil)))
    (ev/give done tag)))
(ev/thread (worker a b :t1) nil :n)
(ev/thread (worker b a :t2) nil :n)
(def res @[])
(try
  (ev/with-deadline 8
    (array/push res (ev/take done))
    (array/push res (ev/take done)))
  ([e] (print "timeout: " e)))
(pp res)
(os/exit (if (= 2 (length res)) 0 1))
