(def x (unmarshal (marshal -0.0)))
(print (/ 1 x) " " (/ 1 -0.0))
(def t (unmarshal (marshal @[-0.0 math/nan math/inf 8192 -8192 -8193 8191 127 128 2147483647 -2147483648 2147483648])))
(pp t)
