(pp (peg/match ~(% (+ (lenprefix (number :d) "a") (<- "b"))) "b"))
(pp (peg/match ~(% (+ (* "x" "y") (<- "b"))) "b"))
