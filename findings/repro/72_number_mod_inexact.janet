# floored modulo of ordinary numbers: 0 <= (mod x y) < y for y > 0, exactly
(var bad 0)
(each [x y want] [[18014398509481982 3 2] [1e20 3 1] [3.7208134616985e16 663 45] [-7 3 2] [7 -3 -2] [5.5 2 1.5]]
  (def got (mod x y))
  (unless (= got want) (++ bad) (printf "(mod %v %v) = %v, expected %v" x y got want)))
(os/exit (if (zero? bad) 0 1))
