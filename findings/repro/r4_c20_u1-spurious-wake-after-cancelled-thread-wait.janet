# 1. spurious wake: thread completion resumes a fiber that has moved on to another wait
(def f (ev/spawn
  (try (ev/thread (fn [&] (os/sleep 0.3))) ([e] nil))
  (def t (os/clock))
  (def r (ev/sleep 2))
  (printf "ev/sleep 2 returned after %.2f s" (- (os/clock) t))))
(ev/sleep 0.05)
(ev/cancel f "x")
