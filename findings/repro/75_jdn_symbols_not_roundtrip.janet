# every value %j prints must parse back to a deep-equal value; symbols whose text reads as something else must be refused
(var bad 0)
(each s ["-1" "+1" ".5" "nil" "true" "false" ":a" "" "1e3" "-0x10" "+.5e-3"]
  (def x (symbol s))
  (def text (protect (string/format "%j" x)))
  (when (text 0)
    (def back (protect (parse (text 1))))
    (unless (and (back 0) (deep= x (back 1)))
      (++ bad)
      (printf "(symbol %q) prints as %q and reads back as %q" s (text 1) (back 1)))))
(os/exit (if (zero? bad) 0 1))
