# describing a large buffer into itself: count + 5 * count + 3 wraps, the `ensure` that should pin the storage does
# nothing, and the escape loop reads from storage that its own pushes reallocate
(def b (buffer/new-filled 450000000 200))
(buffer/trim b)
(def r (protect (buffer/format b "%q" b)))
(print (r 0) " " (length b))
