(def p (parser/new))
(parser/consume p "1 2 3 4 5 6 7 8 )")
(print (parser/error p))
(pp (parser/state p :frames))
