(defn nfds [] (length (os/dir "/proc/self/fd")))
(def before (nfds))
(for i 0 50
  (try (os/spawn ["/nonexistent/program"] :p {:in :pipe :out :pipe :err :pipe})
    ([e] nil)))
(gccollect)
(def after (nfds))
(print "descriptors before " before " after " after)
(os/exit (if (> (- after before) 5) 1 0))
