(def [r w] (os/pipe))
(ev/close r)
(def res (try (do (ev/write w "hello") :ok) ([e] [:error e])))
(pp res)
