# core/peg image, 3 words: RULE_ARGUMENT(15) index tag. The verifier does not look at the index and
# the matcher reads it as int32: (index >= extrac) ? nil : extrav[index]
(def small (unmarshal "\xD9\xCF\x08core/peg\x03\0\x0F\xBF\xFF\0"))          # index -1
(pp (protect (peg/match small "abc" 0 :x)))                                  # a value that was never passed
(def far (unmarshal "\xD9\xCF\x08core/peg\x03\0\x0F\xCD\xF0\x00\x00\x00\0")) # index -268435456
(print "loaded") (flush)
(pp (protect (peg/match far "abc" 0 :x)))
(print "survived")
