(import ./lib :prefix "")
# pending fiber, one frame (entrance flag set, resume without skip) whose frame environment is an
# ON-STACK funcenv with a wrong offset (5, frame is at 4). Returning pops the frame: janet_env_detach treats
# env->as.values as a JanetFiber* and memcpy's from it.
(def img (string
  "\xCC" (int (bor 0x6000000 (blshift 3 16))) (int 4) (int 10) (int 10) (int 100)
  (int -0x7FFFFFFE) (int 0) (int 0)           # frame flags (HASENV|ENTRANCE) prevframe pcdiff
  "\xD7" (int 0)                              # function, 0 envs
    (int 0) (int 2) (int 0) (int 0) (int 0)   # def: flags slotcount arity min max
    (int 0) (int 1) (u32 4)                   # 0 constants, 1 instruction: retn
  (int 5) (int 2) "\xDA" (int 0)                  # frame env: offset 0, length 1, value 42
  (int 1) (int 2)                             # two stack slots
  "\xC9"))                                    # last value
(def f (unmarshal img))
(print "loaded") (flush)
(pp (protect (resume f)))
(print "survived")
