(import ./lib :prefix "")
# as f1 but a well-formed frame without the ENTRANCE flag and no environment: retn pops to frame 0
# and the interpreter carries on with a frame header read from in front of the stack allocation.
(def img (string
  "\xCC" (int (bor 0x6000000 (blshift 3 16))) (int 4) (int 10) (int 10) (int 100)
  (int 0) (int 0) (int 0)
  "\xD7" (int 0)
    (int 0) (int 2) (int 0) (int 0) (int 0)
    (int 0) (int 1) (u32 4)
  (int 1) (int 2)
  "\xC9"))
(def f (unmarshal img))
(print "loaded") (flush)
(pp (protect (resume f)))
(print "survived")
