# 7 bytes: a pending fiber with no frames at all (frame 0). resume reads a frame header at data[-4].
(def f (unmarshal "\xCC\xCD\x00\x03\x00\x00\x00\x04\x04\x64\xC9"))
(print "loaded") (flush)
(pp (protect (resume f 1)))
(print "survived")
