# asm only requires min-arity <= arity; fiber/new passes min_arity to janet_fiber as argc.
(def f (asm '{:arity 0 :min-arity -100 :bytecode [(retn)]}))
(print "assembled") (flush)
(def fb (fiber/new f))
(pp (protect (resume fb)))
(gccollect)
(print "survived")
