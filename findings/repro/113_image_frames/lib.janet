(defn int [x]
  (cond
    (and (>= x 0) (< x 128)) (string/from-bytes x)
    (and (>= x -8192) (<= x 8191)) (string/from-bytes (bor 0x80 (band (brshift x 8) 0x3F)) (band x 0xFF))
    (string/from-bytes 205 (band (brshift x 24) 0xFF) (band (brshift x 16) 0xFF) (band (brshift x 8) 0xFF) (band x 0xFF))))
(defn u32 [x] (string/from-bytes (band x 0xFF) (band (brshift x 8) 0xFF) (band (brshift x 16) 0xFF) (band (brushift x 24) 0xFF)))
(def HASENVS 0x400000)
(def HASDEFS 0x200000)
