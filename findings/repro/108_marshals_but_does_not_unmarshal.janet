# chain of functions, each holding the previous one as a constant
(var f (fn [] 0))
(for i 0 600
  (def prev f)
  (set f (eval ~(fn [] (,prev)))))
(print "call original: " (f))
(def img (marshal f))
(print "marshalled ok, bytes: " (length img))
(pp (protect (do (def g (unmarshal img)) (g))))
