(def tc (ev/thread-chan 0))
(def lc (ev/chan 0))
(def w (array/weak 0))
(defn run [c]
  (def f (ev/go (fn [] (ev/take c))))   # blocks -> pending reader
  (array/push w f)
  (ev/sleep 0.01)
  (ev/give c 1)
  (ev/sleep 0.01))
(run tc) (run tc) (run tc)
(run lc) (run lc) (run lc)
(gccollect) (gccollect)
(pp (map |(if $ (fiber/status $) :collected) w))
