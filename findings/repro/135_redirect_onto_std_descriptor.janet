(def r1 (os/execute ["sh" "-c" "echo to-stdout; echo to-stderr >&2"] :p {:err stdout}))
(def r2 (os/execute ["sh" "-c" "echo to-stdout2; echo to-stderr2 >&2"] :p {:out stderr}))
(print "status " r1 " " r2)
(os/exit (if (and (= r1 0) (= r2 0)) 0 1))
