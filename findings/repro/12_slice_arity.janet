(pp (protect (array/slice)))
(defn f [] (def a @[1 2 3]) (def b (array/concat @[] a a a)) (array/slice))
(pp (protect (f)))
(pp (protect (string/slice)))
