(def c1 (ev/thread-chan 1))
(def c2 (ev/thread-chan 1))
(def done (ev/thread-chan 4))
(defn worker [order]
  (fn [&]
    (for i 0 200000
      (if (= order 0)
        (ev/select [c1 i] [c2 i] c1 c2)
        (ev/select [c2 i] [c1 i] c2 c1)))
    (ev/give done order)))
(ev/thread (worker 0) nil :n)
(ev/thread (worker 1) nil :n)
(def r (try (ev/with-deadline 15 [(ev/take done) (ev/take done)]) ([e] [:hang e])))
(eprintf "result %j" r)
(os/exit (if (= (first r) :hang) 1 0))
