(print "1:" (protect (asm '{:bytecode [(retn)] :environments [0]})))
