# Unmodified tree (worktree HEAD 40c11ff): a blocked ev/select with two give clauses delivers
# BOTH values although it reports exactly one clause result.
# While it waits, janet_channel_push_with_lock has already enqueued the clause value in every
# give-clause channel; when one clause completes the other value stays queued (its
# write_pending entry is merely stale) and is handed to the next taker.
# Property C06: every select yields exactly one clause result / nothing is received that was
# not given -> the taker on b should block, (ev/count b) should be 0.
(def a (ev/chan))
(def b (ev/chan))
(var sel nil)
(ev/spawn (set sel (ev/select [a 1] [b 2])))
(ev/sleep 0)
(def from-a (ev/take a))
(ev/sleep 0)
(printf "select returned %q ; take a -> %q ; (ev/count b) = %d" sel from-a (ev/count b))
(var from-b :blocked)
(ev/spawn (set from-b (ev/take b)))
(ev/sleep 0.05)
(printf "take b -> %q   (expected: still blocked, clause [b 2] never completed)" from-b)
(flush)
(os/exit (if (= from-b :blocked) 0 1))
