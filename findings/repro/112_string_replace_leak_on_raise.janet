(for i 0 50
  (protect (string/replace-all "a" (fn [x] (error "boom")) (string/repeat "a" 1000)))
  (protect (string/replace "a" (fn [x] (error "boom")) (string/repeat "a" 1000))))
(print "done")
