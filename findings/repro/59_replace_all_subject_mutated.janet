# string/replace-all with a function substitution that reallocates the subject buffer
(def buf (buffer/new 8))
(buffer/push buf "aXbXcXdX")
(def r (string/replace-all "X" (fn [m] (buffer/push buf (string/repeat "Z" 500000)) (buffer/clear buf) (buffer/trim buf) (buffer/push buf (string/repeat "Q" 64)) "-") buf))
(printf "%q" r)
(os/exit (if (= r "a-b-c-d-") 0 1))
