(pp (protect (length (os/cryptorand 2147483647 @"0123456789"))))
