# Behaviour of the UNMODIFIED tree noticed while probing C05 (round 6). Run: build/janet this-file
# A: (signal :ok x) is documented but ends the fiber with status :error (longjmp value 0 becomes 1)
# B: a yield inside ev/with-deadline is caught by its internal coro (mask :yi): with-deadline returns the yielded value,
#    the body is abandoned and its defer never runs
# C: a raw (signal 0 5) crossing a prompt becomes a destructuring error instead of being propagated
# A: (signal :ok x)
(def f (fiber/new (fn [] (signal :ok 42) :after) :a))
(pp [:signal-ok (resume f) (fiber/status f)])
# B: yield inside ev/with-deadline is swallowed; cleanup never runs
(def log @[])
(def gen (coro
  (def r (ev/with-deadline 5
     (defer (array/push log :cleanup)
       (yield 1)
       (array/push log :after-yield)
       :body-value)))
  (array/push log [:with-deadline-returned r])
  (yield 2)))
(pp [:first (resume gen)])
(pp [:second (resume gen)])

(pp log)
# C: raw (signal 0 5) crossing a prompt
(def h (fiber/new (fn [] (prompt :a (signal 0 5))) :a))
(pp [:raw-user0-through-prompt (resume h) (fiber/status h)])
