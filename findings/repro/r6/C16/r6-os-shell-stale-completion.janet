# os/shell cancelled by a deadline; later completion must not resume the fiber's next await
(def [r w] (os/pipe))
(def res (try (ev/with-deadline 0.2 (os/shell "sleep 1")) ([e] [:err e])))
(pp res)
(def t0 (os/clock))
(def x (try (ev/read r 10 @"" 3) ([e] [:err e])))
(printf "read returned %q after %.2f" x (- (os/clock) t0))
(os/exit 0)
