# run as:  build/janet r6-redirect-to-std-handle.janet >out.txt 2>err.txt
# {:out stderr}: the child's fd 2 is closed after dup2(2,1)  -> "err" is lost
(def rc1 (os/execute ["sh" "-c" "echo out; echo err >&2; exit 3"] :p {:out stderr}))
(eprint "rc1=" rc1)
# {:err stdout}: the child's fd 1 is closed after dup2(1,2)  -> "out" is lost (sh reports an I/O error)
(def rc2 (os/execute ["sh" "-c" "echo out; echo err >&2; exit 3"] :p {:err stdout}))
(eprint "rc2=" rc2)
