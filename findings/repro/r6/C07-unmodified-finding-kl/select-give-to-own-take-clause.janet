# UNMODIFIED tree. A select that names the same unbuffered channel in a take clause and in a give
# clause hands its own value to its own (just registered) take clause: the give clause "succeeds",
# the select returns [:give ch], and the value 1 is gone - it was consumed by a waiter (the take
# clause) that is abandoned in the same call. Nobody ever receives it; (ev/count ch) is 0.
# Property C07: an item offered on a channel is not consumed by a waiter that is no longer there.
(def ch (ev/chan))
(def r (ev/select ch [ch 1]))
(printf "select gave %q; items on channel: %d (the value 1 was delivered to nobody)" r (ev/count ch))
