# UNMODIFIED tree. Timer deadlines are computed from a clock truncated to whole milliseconds
# (ts_now: tv_nsec / 1000000) and armed as an absolute CLOCK_MONOTONIC time, so a sleep that starts
# at x.9 ms is measured from x.0 ms and ends up to 1 ms early.
# Observed: min elapsed for (ev/sleep 0.003) over 300 runs = 0.002076 s.
# Property C07: ev/sleep never returns before its duration has elapsed.
(var mn 1)
(for i 0 300
  (def t (os/clock :monotonic))
  (ev/sleep 0.003)
  (def d (- (os/clock :monotonic) t))
  (if (< d mn) (set mn d)))
(printf "min elapsed for (ev/sleep 0.003): %.6f s" mn)
