# fiber waits in ev/thread; gets cancelled; then waits on something else; thread finishes later
(def ch (ev/chan))
(def f (ev/go (fn []
  (def r (try (ev/do-thread (os/sleep 0.5)) ([e] [:caught e])))
  (eprint "after thread wait: " (string/format "%j" r))
  (def t0 (os/clock))
  (def v (ev/take ch))
  (eprintf "take returned %j after %.2fs" v (- (os/clock) t0)))))
(ev/sleep 0.1)
(ev/cancel f "stop")
(ev/sleep 1.0)
(ev/give ch :real)
(ev/sleep 0.1)
