# Observed on the UNMODIFIED worktree (HEAD 40c11ff): a &keys function called
# with an odd number of key/value arguments in TAIL position picks up a stale
# stack value for the dangling key; the same call in non-tail position drops it.
(defn f [&keys k] k)
(defn tail    [] (tuple 1 2 3 4 5) (f :a 1 :b))           # => {:a 1 :b 4}
(defn nontail [] (tuple 1 2 3 4 5) (def r (f :a 1 :b)) r) # => {:a 1}
(pp (tail))
(pp (nontail))
(os/exit (if (deep= (tail) (nontail)) 0 1))
