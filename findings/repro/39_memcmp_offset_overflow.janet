(pp (protect (memcmp (string/repeat "a" 100) (string/repeat "a" 100) 2147483647 1 1)))
