(def n (scan-number (or (get (dyn :args) 1) "100000")))
# fiber i's root function is a closure whose environment lives on the stack of fiber i-1
(defn body [k]
  (var x k)
  (def nxt (fiber/new (fn [] (def r (body (+ x 1))) (+ r x)) :y))
  (yield nxt)
  x)
(var fibers @[])
(var f (fiber/new (fn [] (body 0)) :y))
(repeat n
  (array/push fibers f)
  (set f (resume f)))
(print "built chain of " (length fibers) " suspended fibers")
(def last-one f)
(set fibers nil)
(gccollect)
(print "gc ok, last status " (fiber/status last-one))
