# (:mod x 0 3): modulo by zero yields the dividend, then mod 3 applies. The method returned at the zero: 7.
(pp (:mod (int/u64 7) 0 3))   # <core/u64 1>
(pp (mod (int/u64 7) 0 3))    # <core/u64 1>
