(array/ensure @[1 2] 10 0)
