# a thread that gave up waiting on a thread channel and exited leaves its registration (with a pointer to its
# own, now gone, VM) in the channel; the next give posts to that VM
(def ch (ev/thread-chan 0))
(ev/thread (fn [&] (protect (ev/with-deadline 0.1 (ev/take ch)))) nil :n)
(ev/sleep 0.5)   # the thread has timed out and exited
(def r (protect (ev/with-deadline 1 (ev/give ch :x))))
(printf "give after the only reader's thread exited: %q" r)
(os/exit 0)
