(def src (fn [] (var a 0) (def g (fn [] (++ a))) (length (marshal g))))
(print (src))
(print (protect ((asm (disasm src)))))
