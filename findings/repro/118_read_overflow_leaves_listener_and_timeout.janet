# UNMODIFIED tree. ev/read with n = 0x7fffffff into a non-empty buffer raises "buffer overflow"
# from janet_buffer_extra inside ev_callback_read's INIT step, i.e. AFTER janet_addtimeout armed the
# timeout and AFTER janet_async_start_fiber attached the fiber to the stream. Neither is undone:
#  (a) the fiber's next wait is hit by the stale timeout: ev/sleep 1 raises "timeout" after 0.3 s;
#  (b) without a timeout the fiber stays attached as the stream's reader, and its next stream
#      operation aborts the process: "janet internal error ... double async on fiber" (run with arg b).
# Property C07: a wait that was abandoned (here: refused with an error) must not affect the next wait.
(def [r w] (os/pipe))
(def buf @"x")
(if (= "b" (get (dyn :args) 1))
  (do
    (printf "read gave %q" (try (ev/read r 0x7fffffff buf) ([e] [:err e])))
    (flush)
    (ev/write w "hello")                       # aborts here
    (printf "subsequent read %q" (ev/read r 10)))
  (do
    (printf "read gave %q" (try (ev/read r 0x7fffffff buf 0.3) ([e] [:err e])))
    (def t (os/clock :monotonic))
    (def res (try (ev/sleep 1) ([e] [:err e])))
    (printf "ev/sleep 1 gave %q after %.3f s (expected nil after 1.000)" res (- (os/clock :monotonic) t))))
