# %Ns with a buffer argument: strlen and snprintf("%s") run over bytes that have no terminator
(def b (buffer/new-filled 8 65))
(buffer/trim b)
(print (string/format "[%10s]" b))
