# probe 2: timeout left behind after registration refused
(def [r w] (os/pipe))
(def holder (ev/go (fn [] (ev/read r 10))))
(ev/sleep 0.05)
(var res nil) (var dt nil)
(def F (ev/go (fn []
  (def e (try (ev/read r 10 @"" 0.3) ([err] [:err err])))
  (printf "second read gave %q" e)
  (def t (os/clock :monotonic))
  (set res (try (ev/sleep 1) ([err] [:err err])))
  (set dt (- (os/clock :monotonic) t)))))
(ev/sleep 1.5)
(printf "sleep 1 returned %q after %q" res dt)
(ev/write w "x")
