/* janet_channel_make_threaded returns a shared (threaded) abstract that is initialised as an UNTHREADED
 * channel: values are not copied for transit and no lock is taken.  A buffer given to it comes back
 * as the very same object. */
#include <janet.h>
#include <stdio.h>
int main(void) {
    janet_init();
    JanetTable *env = janet_core_env(NULL);
    JanetChannel *ch = janet_channel_make_threaded(4);
    janet_def(env, "ch", janet_wrap_abstract(ch), NULL);
    Janet out;
    int rc = janet_dostring(env, "(def b @\"abc\") (var same -1) (ev/spawn (ev/give ch b) (def y (ev/take ch)) (set same (if (= y b) 1 0)))", "demo", &out);
    janet_loop();
    janet_dostring(env, "same", "demo", &out);
    if (rc) { printf("error\n"); return 2; }
    int same = janet_unwrap_integer(out);
    printf("value taken from a 'threaded' channel is %s\n", same ? "the SAME object (channel is unthreaded)" : "a copy (channel is threaded)");
    janet_deinit();
    return same;
}
