(import ./r5/c10/lib :prefix "")
# G = function(len=2, def A{HASENVS, envs=2, constants=[F]}), F = function(len=0, defref 0)
(def img (string
  "\xD7" (int 2)
  # def A
  (int HASENVS) (int 1) (int 0) (int 0) (int 0)   # flags slotcount arity min max
  (int 1) (int 2)                                   # constants_length bytecode_length
  (int 2)                                           # environments_length
  # constants: F
  "\xD7" (int 0) "\xDC" (int 0)
  # bytecode: ldc 0 0 ; ret 0
  (u32 (bor 44 (blshift 0 8) (blshift 0 16))) (u32 (bor 3 (blshift 0 8)))
  # environments
  (int -1) (int -1)
  # envs of G: 2 off-stack envs length 1
  (int 0) (int 1) "\xC9"
  (int 0) (int 1) "\xC9"))
(def g (unmarshal img))
(print "g ok")
(def f (g))
(pp f)
(gccollect)
(print "gc ok")
(pp (disasm f))
