(def f (asm '{:bytecode [(clo 0 0) (ret 0)] :defs [{:bytecode [(retn)] :environments [-2000000]}]}))
(print (protect (f)))
