(def port (string (+ 31000 (% (os/getpid) 8000))))
(def l (net/listen "127.0.0.1" port))
(def conns @[])
(def t0 (os/clock))
# fill the accept queue (backlog 1024): nobody accepts
(var pending nil)
(for i 0 1100
  (def r (try (ev/with-deadline 0.3 (net/connect "127.0.0.1" port)) ([e] [:err e])))
  (if (tuple? r) (do (set pending i) (print "connect " i " -> " (string/format "%q" r)) (break)))
  (array/push conns r))
(print "filled " (length conns) " in " (- (os/clock) t0))
# now a connect that should stay pending; run a GC meanwhile
(def t1 (os/clock))
(ev/spawn (ev/sleep 0.2) (print "gc at " (- (os/clock) t1)) (gccollect))
(def r (try (ev/with-deadline 3 (net/connect "127.0.0.1" port)) ([e] [:err e])))
(print "connect returned after " (- (os/clock) t1) " " (string/format "%q" r))
(when (not (tuple? r))
  (print "peer: " (string/format "%q" (try (net/peername r) ([e] [:err e])))))
(os/exit 0)
