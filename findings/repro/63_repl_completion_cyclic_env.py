import os, pty, time, select, sys, fcntl, termios, struct
pid, fd = pty.fork()
if pid == 0:
    fcntl.ioctl(0, termios.TIOCSWINSZ, struct.pack('HHHH', 24, 80, 0, 0))
    os.execv(sys.argv[1], [sys.argv[1]])
def rd(t=1.0):
    out=b''
    end=time.time()+t
    while time.time()<end:
        r,_,_=select.select([fd],[],[],0.1)
        if r:
            try: d=os.read(fd,4096)
            except OSError: break
            out+=d
            for _ in range(d.count(b'\x1b[6n')):
                os.write(fd,b'\x1b[1;1R')
    return out
rd(1.5)
os.write(fd,b'(+ 1 1)\r'); o=rd(1); print('alive at start:', b'2' in o)
os.write(fd, b'(def e (curenv))\r'); rd(1)
os.write(fd, b'(do (table/setproto e e) nil)\r'); rd(1.5)
os.write(fd,b' 7777\r'); o=rd(1); print('alive after making the environment its own prototype:', o.count(b'7777') >= 2)
os.write(fd, b'pri\t'); rd(2)
os.write(fd, b'\x15 4242\r'); o=rd(3); ok = o.count(b'4242') >= 2 and b'repl:' in o
print('alive after TAB completion:', ok)
os.kill(pid,9)
sys.exit(0 if ok else 1)
