# (range 0 0.9 0.3) aborted the process: janet_assert(start + int_count * step >= stop) fails in floating point
# (0 + 3 * 0.3 = 0.8999999999999999). Also (range 1 0 0), (range 5 1 math/nan), (range 0 10 math/inf).
# before the fix: "janet internal error ... bad range code", SIGABRT (exit 134); try cannot intercept it.
(pp (protect (range 0 0.9 0.3)))
(pp (protect (range 1 0 0)))
(pp (protect (range 5 1 math/nan)))
(pp (protect (range 0 10 math/inf)))
