# find / find-all / replace-all agree with repeated peg/match at every offset 0..length
(var bad 0)
(each [patt text] [[-1 "abc"] [0 ""] ["" "ab"] ['(* "c" -1) "abc"]]
  (def by-match (seq [i :range [0 (inc (length text))] :when (peg/match patt text i)] i))
  (def found (peg/find-all patt text))
  (unless (deep= by-match found) (++ bad) (printf "%q on %q: matches at %q, find-all %q" patt text by-match found))
  (unless (= (first by-match) (peg/find patt text)) (++ bad) (printf "%q on %q: first match %q, find %q" patt text (first by-match) (peg/find patt text))))
(unless (= "abc!" (string (peg/replace-all -1 "!" "abc"))) (++ bad) (printf "replace-all -1: %q" (peg/replace-all -1 "!" "abc")))
(os/exit (if (zero? bad) 0 1))
