(def f (asm ~{:arity 0 :slotcount 2
              :constants [,debug/stack ,fiber/current]
              :symbolmap [(:upvalue 1000000 0 far)]
              :bytecode [(ldc 0 1) (call 0 0) (push 0) (ldc 1 0) (call 0 1) (ret 0)]}))
(def s (f))
(pp (get (first s) :locals))
