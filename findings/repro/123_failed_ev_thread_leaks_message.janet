# failed ev/thread: value marshals 1MB and then hits something unmarshalable
(defn rss [] (scan-number (first (peg/match '(* (thru "VmRSS:") :s* (<- :d+)) (slurp "/proc/self/status")))))
(def big (buffer/new-filled 1000000 65))
(def r0 (rss))
(var errs 0)
(for i 0 200
  (try (ev/thread (fn [x] x) [big (fiber/current)] :n) ([e] (++ errs))))
(gccollect)
(printf "errors=%d rss before=%d kB after=%d kB" errs r0 (rss))
