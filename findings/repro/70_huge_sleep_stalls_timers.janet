# a very long sleep in one task must not stop the timers of the others
(ev/spawn (ev/sleep 1e16))
(def t0 (os/clock))
(def r (ev/with-deadline 3 (ev/sleep 0.3) :woke))
(printf "short sleeper: %q after %.2f s" r (- (os/clock) t0))
(os/exit (if (< (- (os/clock) t0) 1) 0 1))
