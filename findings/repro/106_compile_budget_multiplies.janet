# nested compile through macros: each (eval ...) inside a macro gets a fresh compiler recursion budget
(def depth-per-level (scan-number (get (dyn :args) 1)))
(def levels (scan-number (get (dyn :args) 2)))
(var level 0)
(defn deep [inner] (var f inner) (repeat depth-per-level (set f ~(do ,f))) f)
(defmacro m []
  (++ level)
  (def r (if (< level levels) (eval (deep '(m))) :bottom))
  r)
(def r (protect (eval (deep '(m)))))
(print "ok=" (r 0) " level=" level " " (if (r 0) "" (r 1)))
