# many parked readers in one thread, a fast giver in another: the giver posts one self-pipe message per give
# while holding the channel lock; when the reader thread's self-pipe is full the write blocks with the lock
# held, and the reader thread cannot drain its pipe because its callback is waiting for that lock.
(def n 6000)
(def ch (ev/thread-chan 0))
(def done (ev/thread-chan 1))
(ev/thread (fn [&]
             (def got @[0])
             (for i 0 n (ev/spawn (ev/take ch) (++ (got 0))))
             (ev/give done :ready)
             (while (< (got 0) n) (ev/sleep 0.01))
             (ev/give done :all)) nil :n)
(ev/take done)
(ev/sleep 0.3)
(for i 0 n (ev/give ch i))
(print "gave " n)
(print "reader: " (ev/with-deadline 10 (ev/take done)))
(os/exit 0)
