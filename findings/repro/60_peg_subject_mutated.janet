# peg/match with a cmt function that reallocates the subject buffer while the match is running
(def buf (buffer/new 8))
(buffer/push buf "aXbXcXdXeXfXgXhX")
(def patt (peg/compile ~(some (* (cmt (<- 1) ,(fn [c] (buffer/push buf (string/repeat "Z" 500000)) (buffer/clear buf) (buffer/trim buf) (buffer/push buf (string/repeat "Q" 64)) c)) (<- 1)))))
(def r (peg/match patt buf))
(printf "%q" r)
