# a table grammar used in two scopes must resolve its names in each scope, like the identical struct grammar
(def t @{:main '(+ :a)})
(def with-table (peg/match ~{:a "x" :main (* ,t {:a "y" :main ,t} -1)} "xy"))
(def with-struct (peg/match ~{:a "x" :main (* {:main (+ :a)} {:a "y" :main {:main (+ :a)}} -1)} "xy"))
(printf "table: %q struct: %q" with-table with-struct)
(os/exit (if (deep= with-table with-struct) 0 1))
