# (/ patt dict) looks up the last capture made by patt - not one made before patt
(def r (peg/match '(* (<- "a") (/ "b" {"a" 1})) "ab"))
(printf "%q" r)
(os/exit (if (deep= r @["a" nil]) 0 1))
