#include <janet.h>
#include <stdio.h>
#include <string.h>
int main(int argc, char **argv){
  janet_init();
  JanetTable *env = janet_core_env(NULL);
  Janet chanv;
  janet_dostring(env, "(def tc (ev/thread-chan 4)) tc", "h2", &chanv);
  JanetChannel *c = janet_getchannel(&chanv, 0);
  if (argc > 1 && !strcmp(argv[1], "take")) {
    Janet out;
    int r = janet_channel_take(c, &out);   /* empty channel */
    printf("janet_channel_take on empty channel -> %d\n", r); fflush(stdout);
  }
  janet_dostring(env, "(ev/thread (fn [] (ev/give tc 1))) (print `parent got ` (ev/take tc))", "h2", NULL);
  janet_deinit();
  return 0;
}
