(defn g [x]
  (print "a")


  (tuple ;x))
(g 5)
