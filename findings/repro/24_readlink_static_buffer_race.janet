# C08: os/readlink returns through a function-static buffer shared by all threads.
# run in a directory with two symlinks la -> /tmp/aaa..., lb -> /tmp/bbb... (different lengths)
(def n 300000)
(defn worker [name first-char]
  (var bad 0)
  (repeat n
    (def s (os/readlink name))
    (unless (and (= (s 5) first-char) (= (last s) first-char)) (++ bad)))
  bad)
(def ch (ev/thread-chan 4))
(ev/spawn-thread (ev/give ch [:a (worker "la" (chr "a"))]))
(ev/spawn-thread (ev/give ch [:b (worker "lb" (chr "b"))]))
(def r1 (ev/take ch))
(def r2 (ev/take ch))
(print "corrupted results: " (string/format "%q %q" r1 r2))
(os/exit (if (= 0 (+ (r1 1) (r2 1))) 0 1))
