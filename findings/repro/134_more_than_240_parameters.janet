(def names (seq [i :range [0 300]] (symbol "a" i)))
(def f (eval ~(fn [,;names] [a0 a239 a240 a241 a255 a256 a299])))
(pp (f ;(range 300)))
