# a splice inside a condition behaves the same whether = is written as a symbol or arrives as a function value
(def a (protect (eval '(if (= nil ;[]) 1 2))))
(def b (protect (eval ~(if (,= nil ;[]) 1 2))))
(def c (protect (eval '(do (var n 0) (while (not= nil ;[]) (++ n) (break)) n))))
(def d (protect (eval ~(do (var n 0) (while (,not= nil ;[]) (++ n) (break)) n))))
(printf "%q %q %q %q" a b c d)
(os/exit (if (and (deep= a b) (deep= c d)) 0 1))
