# traced call whose trace output goes to a janet function that grows the fiber stack
(defn deep [n] (if (> n 0) (+ 1 (deep (- n 1))) 0))
(defn target [a b c d] [a b c d])
(trace target)
(def out @"")
(def f (fiber/new (fn []
  (setdyn :err (fn [b] (deep 200) (buffer/push out b)))
  (target (string "arg-" 1) (string "arg-" 2) (string "arg-" 3) (string "arg-" 4)))))
(def r (resume f))
(print out)
(pp r)
