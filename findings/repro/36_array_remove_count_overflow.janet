(def a @[1 2 3]) (print (protect (array/remove a 1 2147483647))) (pp a)
