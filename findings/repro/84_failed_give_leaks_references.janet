# a give to a thread channel that fails to marshal half-way keeps the references it took on shared abstracts
(defn rss [] (* 4096 (scan-number ((string/split " " (slurp "/proc/self/statm")) 1))))
(def sink (ev/thread-chan 4))
(gccollect)
(def before (rss))
(for i 0 24
  (def c (ev/thread-chan 4))
  (ev/give c (buffer/new-filled 8000000 65))       # 8 MB parked in c
  (protect (ev/give sink [c (fiber/current)]))              # marshals c (takes a reference), then fails on the running fiber
  nil)
(gccollect) (gccollect)
(def growth (- (rss) before))
(printf "rss growth after 24 failed gives: %.1f MB" (/ growth 1e6))
(os/exit (if (< growth 50e6) 0 1))
