(def ch1 (ev/thread-chan 0))
(def ch2 (ev/thread-chan 0))
(def out (ev/thread-chan 10))
(ev/thread (fn [&]
  (def r (ev/select ch1 ch2))          # parked on both
  (ev/give out [:first (r 0) (r 2)])
  # whichever message was not consumed by the select must still be in its channel
  (def other (if (= (r 1) ch1) ch2 ch1))
  (def v (ev/with-deadline 2 (ev/take other)))
  (ev/give out [:second v])) nil :n)
(ev/sleep 0.3)                          # let the thread park in the select
# hand off to both clauses back to back, before the other thread's loop can run in between
(ev/give ch1 :m1)
(ev/give ch2 :m2)
(def a (ev/with-deadline 3 (ev/take out)))
(def b (try (ev/with-deadline 4 (ev/take out)) ([e] [:second :LOST])))
(printf "%q %q" a b)
(os/exit (if (and (not= (b 1) :LOST) (not= (a 2) (b 1))) 0 1))
