(defn B [] (yield 2) 3)
(defn A []
  (var x 0)
  (def c (fn [] x))
  (yield c)
  (B))
(def f (fiber/new A))
(def c (resume f))
(def img1 (marshal f make-image-dict))   # first marshal: frame has an env
(print "first marshal ok, copy resumes to: " (resume (unmarshal img1 load-image-dict)))
(print "original resumes to: " (resume f))    # tail call into B, frame env dropped
(def img2 (marshal f make-image-dict))
(def r (protect (unmarshal img2 load-image-dict)))
(pp r)
(when (r 0) (print "copy resumes to: " (resume (r 1))))
# control: same state without the first marshal
(def g (fiber/new A))
(resume g) (resume g)
(def r2 (protect (unmarshal (marshal g make-image-dict) load-image-dict)))
(pp r2)
(when (r2 0) (print "control copy resumes to: " (resume (r2 1))))
