# 4. interrupting deadlines whose timer expires: worker thread never joined
(defn vm [] (scan-number (get (peg/match '(* (thru "VmSize:") :s* (<- :d+)) (slurp "/proc/self/status")) 0)))
(def v0 (vm))
(repeat 200
  (def f (coro (forever :foo)))
  (ev/deadline 0.001 nil f true)
  (protect (resume f)))
(gccollect)
(printf "VmSize before=%d kB after 200 expired interrupting deadlines=%d kB" v0 (vm))
