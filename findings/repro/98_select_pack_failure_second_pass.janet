(def c1 (ev/thread-chan 1))
(def c2 (ev/thread-chan 1))
(def c3 (ev/thread-chan 1))
(ev/give c2 1)   # c2 is full: the give clause has to wait, so select reaches its second pass
(pp (protect (ev/select c1 [c2 (fiber/root)] c3)))
# c1 and c3 must be usable afterwards, and a value given to c1 must not wake a stale registration
(ev/spawn-thread (ev/give c1 :hello) (ev/give c3 :world))
(pp (protect (ev/with-deadline 2 (ev/take c1))))
(pp (protect (ev/with-deadline 2 (ev/take c3))))
(print "main done")
