# A bracketed tuple is a tuple constructor, never a call. Before the fix the (= nil x) fast path of `if` / `while`
# matched it: :no was printed for the first form, and the while loop never ran.
(pp (eval ~(if [,= nil 1] :yes :no)))            # :yes (the tuple is truthy)
(pp (eval ~(if (,tuple ,= nil 1) :yes :no)))     # :yes
(var n 0)
(eval ~(while [,not= nil nil] (++ n) (if (> n 2) (break))))
(pp n)                                            # 3
