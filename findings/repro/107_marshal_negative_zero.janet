# -0.0 went through marshal's integer short form and came back as +0
(defn f [x] (/ x -0.0))
(def g (unmarshal (marshal f)))
(pp [(f 1) (g 1)])                          # [-inf -inf]; before the fix [-inf inf]
(pp (/ 1 (unmarshal (marshal -0.0))))       # -inf
