# asm reads tup[0], tup[1] of :sourcemap entries and tup[0..3] of :symbolmap entries without looking at their length
(pp (protect (asm {:bytecode ['(retn)] :sourcemap [[]]})))
(pp (protect (asm {:bytecode ['(retn)] :symbolmap [[0 1]]})))
