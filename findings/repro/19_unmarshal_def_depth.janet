# C10/C19: unmarshal_one_def recursed into nested funcdefs without the depth check every other
# unmarshal routine has: an image with N nested function definitions overflows the native stack.
(def n (scan-number (or (get (dyn :args) 1) "200000")))
(def hasdefs (marshal 0x200000))
(def img @"")
(buffer/push-byte img 215)            # LB_FUNCTION
(buffer/push-byte img 0)              # no environments
(repeat n
  (buffer/push img hasdefs)           # flags = HASDEFS
  (buffer/push-byte img 0 0 0 0)      # slotcount arity min max
  (buffer/push-byte img 0 1 1)        # constants_length bytecode_length defs_length
  (buffer/push-byte img 4 0 0 0))     # bytecode: retn
(buffer/push-byte img 0 0 0 0 0)      # innermost: flags slotcount arity min max
(buffer/push-byte img 0 1)            # constants_length bytecode_length
(buffer/push-byte img 4 0 0 0)
(def r (protect (unmarshal img)))
(print "unmarshal of " n " nested defs -> " (if (r 0) "accepted" (string "error: " (r 1))))
