(def f (protect (asm '{:arity 2147483647 :min-arity 0 :vararg true :bytecode [(retn)]})))
(print f)
(when (f 0) (print (protect ((f 1)))))
