# which fds does a child inherit?
(os/execute ["sh" "-c" "ls -l /proc/self/fd | grep pipe"] :p)
# child writes one bogus event (48 zero bytes?) into inherited fd
(def [r w] (os/pipe))
(ev/spawn (print "reader got " (ev/read r 10)) )
(ev/sleep 0.1)
(os/execute ["sh" "-c" "for fd in 3 4 5 6; do head -c 4800 /dev/zero >&$fd; done 2>/dev/null; true"] :p)
(print "after child")
(ev/sleep 0.2)
(print "main continues; now writing")
(ev/write w "hello")
(ev/sleep 0.1)
(print "end of main")
