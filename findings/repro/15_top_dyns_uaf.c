#include <janet.h>
#include <stdio.h>
int main(void){
  janet_init();
  JanetTable *env = janet_core_env(NULL);
  janet_setdyn("foo", janet_cstringv("bar"));   /* no current fiber -> top_dyns */
  janet_dostring(env, "(gccollect)", "h1", NULL);
  Janet v = janet_dyn("foo");
  printf("type=%d\n", janet_type(v));
  janet_deinit();
  return 0;
}
