# reader parked in a thread without abstract registry; the item arrives through janet_thread_chan_cb
(def ch (ev/thread-chan 0))
(def back (ev/thread-chan 4))
(ev/thread (fn [&]
             (def r (protect (ev/take ch)))
             (ev/give back (string/format "%q" r))
             (def r2 (protect (ev/select ch)))
             (ev/give back (string/format "%q" r2))) nil :na)
(ev/sleep 0.2)
(ev/give ch (int/s64 5))
(print "thread says: " (ev/with-deadline 3 (ev/take back)))
(ev/sleep 0.2)
(ev/give ch (int/s64 6))
(print "thread says: " (ev/with-deadline 3 (ev/take back)))
