(import ./r5/c10/lib :prefix "")
# G = function(len=0, def A{constants=[fiber whose frame func = ref 0 (G itself, def still NULL)]})
(def img (string
  "\xD7" (int 0)
  (int 0) (int 1) (int 0) (int 0) (int 0)   # flags slotcount arity min max
  (int 1) (int 1)                            # constants_length bytecode_length
  # constant 0: fiber: flags frame stackstart stacktop maxstack
  "\xCC" (int 0) (int 4) (int 9) (int 9) (int 100)
  # frame: flags prevframe pcdiff func
  (int 0) (int 0) (int 0) "\xDA" (int 0)
  ))
(def r (protect (unmarshal img)))
(pp r)
