# UNMODIFIED tree. A stream read that is attempted inside a nested C -> Janet call (here: the function
# installed as *out*, called by print through janet_call) cannot suspend; the await is coerced to
# the error "nil coerced from await to error" and the task carries on. janet_signalv bumps the
# fiber's sched_id for this case, which disarms timers and channel registrations - but the fiber
# stays attached to the stream as its reader (fiber->ev_callback / stream->read_fiber are left set,
# janet_async_end only runs when the fiber is next resumed by the loop).
# Later activity on that abandoned stream then completes the task's NEXT, unrelated wait:
# (ev/sleep 1) returns after 0.2 s with the buffer @"late" instead of nil after 1 s, and the
# bytes are consumed by a reader that is no longer there.
# Property C07: an abandoned wait must neither resume the fiber nor alter what its next wait receives.
(def [r w] (os/pipe))
(def res (protect (with-dyns [*out* (fn [x] (ev/read r 10))] (print "hello"))))
(eprintf "print through *out* -> %q" res)
(ev/spawn (ev/sleep 0.2) (ev/write w "late"))
(def t (os/clock :monotonic))
(def got (protect (ev/sleep 1)))
(def dt (- (os/clock :monotonic) t))
(eprintf "(ev/sleep 1) -> %q after %.3f s   (expected (true nil) after 1.000 s)" got dt)
(os/exit (if (and (= got [true nil]) (>= dt 0.99)) 0 1))
