# at-least / some agree with bounded repetition when the sub-pattern can match the empty string
(var bad 0)
(each [a b text] [['(at-least 2 (any "a")) '(between 2 3 (any "a")) "aab"] ['(some "") '(between 1 2 "") "x"] ['(some (any "a")) '(between 1 5 (any "a")) "b"]]
  (def ra (peg/match a text)) (def rb (peg/match b text))
  (unless (deep= ra rb) (++ bad) (printf "%q -> %q but %q -> %q on %q" a ra b rb text)))
(os/exit (if (zero? bad) 0 1))
