#!/bin/sh
# usage: tools/seedrun.sh <seed dir with patch.diff> [PROP ...]   - apply to /repo, run the checks, undo
# (the undo runs from a trap, so it also happens when the caller's pipe closes early)
d=$1; shift
if ! git -C /repo diff --quiet; then echo "repo dirty"; exit 3; fi
trap 'git -C /repo checkout -- . 2>/dev/null' EXIT INT TERM PIPE HUP
git -C /repo apply "$d/patch.diff" || { echo "patch does not apply"; exit 3; }
for p in "$@"; do
  timeout 600 /verif/check $p > /tmp/seedrun.$p.out 2>&1; rc=$?
  echo "== $p exit=$rc  $(grep -c '^VIOLATION' /tmp/seedrun.$p.out) violations"
  grep -A1 '^VIOLATION' /tmp/seedrun.$p.out | grep -v '^VIOLATION' | grep -v '^--' | cut -c1-260 | head -6
  grep 'ANALYSIS-BROKEN' /tmp/seedrun.$p.out | cut -c1-200
done
git -C /repo checkout -- .
