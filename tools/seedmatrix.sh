#!/bin/bash
# Run every check against every seeded change, in parallel, on scratch copies of /repo/src.
# usage: tools/seedmatrix.sh <seeds-root> > matrix.txt     (seed dirs contain patch.diff)
ROOT=${1:-/verif/seeded}
WORK=${TMPDIR:-/tmp}/seedmatrix.$$
mkdir -p "$WORK"
PROPS="C01 C02 C03 C04 C05 C06 C07 C08 C09 C10 C11 C12 C14 C15 C16 C17 C18 C19 C20"
one() {
  d=$1; id=$(basename "$d"); w="$WORK/$id"
  mkdir -p "$w/repo" && cp -r "${SEED_SRC:-/repo/src}" "$w/repo/src"
  if ! (cd "$w/repo" && patch -p1 -s --fuzz=0 < "$d/patch.diff" >/dev/null 2>&1); then echo "$id APPLY-FAILED"; rm -rf "$w"; return; fi
  res=""
  for p in $PROPS; do
    out=$(JV_REPO="$w/repo" JV_CACHE="$w/cache" JV_OUT="$w/out" timeout 600 /verif/check $p 2>&1); rc=$?
    if [ $rc -eq 1 ]; then
      rules=$(echo "$out" | grep -A1 '^VIOLATION' | grep -o 'C[0-9][0-9]-[A-Z0-9]*' | sort -u | tr '\n' ',' )
      res="$res $p:VIOLATION[$rules]"
    elif [ $rc -eq 2 ]; then res="$res $p:BROKEN"; fi
  done
  echo "$id${res:- none}"
  rm -rf "$w"
}
export -f one; export WORK PROPS SEED_SRC
ls -d "$ROOT"/C*-[a-z] | xargs -P 12 -I{} bash -c 'one {}'
rm -rf "$WORK"
