#!/usr/bin/env python3
"""Regenerate /verif/regress/<commit>/{patch.diff,meta.json}: the reverse of every fix: commit named in a `fixed:` line
of known_findings.txt, with the (property, rule) pairs that must report it again (tools/regress.sh, thorough tier)."""
import json
import os
import re
import subprocess

V = os.path.dirname(os.path.dirname(os.path.abspath(__file__)))
bycommit = {}
for l in open(os.path.join(V, "known_findings.txt")):
    m = re.match(r"fixed: property=(C\d\d) (\w+) (C\d\d-[A-Z]+)", l)
    if m:
        bycommit.setdefault(m.group(2), []).append((m.group(1), m.group(3)))
n = 0
for c, exp in sorted(bycommit.items()):
    if subprocess.run(["git", "-C", "/repo", "rev-parse", "--verify", "-q", c + "^{commit}"], capture_output=True).returncode:
        print("unknown commit", c)
        continue
    d = subprocess.run(["git", "-C", "/repo", "diff", c, c + "^", "--", "src"], capture_output=True, text=True).stdout
    ok = subprocess.run(["git", "-C", "/repo", "apply", "--check", "-"], input=d, capture_output=True, text=True).returncode == 0
    dd = os.path.join(V, "regress", c)
    os.makedirs(dd, exist_ok=True)
    open(os.path.join(dd, "patch.diff"), "w").write(d)
    subj = subprocess.run(["git", "-C", "/repo", "log", "-1", "--format=%s", c], capture_output=True, text=True).stdout.strip()
    seen = []
    for p, r in exp:
        if (p, r) not in seen:
            seen.append((p, r))
    json.dump({"commit": c, "subject": subj, "expect": [{"property": p, "rule": r} for p, r in seen], "applies_to_head": ok},
              open(os.path.join(dd, "meta.json"), "w"), indent=1)
    n += 1
print(n, "reverse patches")
