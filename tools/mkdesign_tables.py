#!/usr/bin/env python3
"""Regenerate the machine-derived tables of DESIGN.md (between the BEGIN/END GENERATED markers) from
evidence/*.json, tools/catch_table.json, tools/rule_origin.json and seeded/*/meta.json."""
import glob
import json
import os
import re

V = os.path.dirname(os.path.dirname(os.path.abspath(__file__)))


def rules_table():
    origin = json.load(open(os.path.join(V, "tools", "rule_origin.json")))
    out = ["| property | rule | clause decided | instances | obligations | origin |", "|---|---|---|---|---|---|"]
    for f in sorted(glob.glob(os.path.join(V, "evidence", "C*.json"))):
        d = json.load(open(f))
        for r, v in sorted(d["coverage"]["rules"].items()):
            out.append("| %s | %s | %s | %d | %d | %s |" % (d["property_id"], r, v["desc"].replace("|", "/"), v["instances"],
                                                           v["obligations"], origin.get(r, "planned in phase 1")))
    return "\n".join(out)


def seeds_table():
    ct = json.load(open(os.path.join(V, "tools", "catch_table.json")))
    out = ["| seeded change | round | what it breaks (site) | reported by |", "|---|---|---|---|"]
    from collections import defaultdict
    caught = defaultdict(int)
    total = defaultdict(int)
    for d in sorted(glob.glob(os.path.join(V, "seeded", "C*"))):
        sid = os.path.basename(d)
        m = json.load(open(os.path.join(d, "meta.json")))
        rnd = m.get("round", 1)
        total[rnd] += 1
        cb = ct.get(sid, {}).get("caught_by", {})
        by = "; ".join("%s (%s)" % (p, ", ".join(r) or "?") for p, r in sorted(cb.items())) or "**not reported**"
        if cb:
            caught[rnd] += 1
        what = (m.get("breaks") or "").replace("|", "/")
        what = re.sub(r"\s+", " ", what)[:150]
        fn = ", ".join((m.get("functions") or [])[:2])
        out.append("| %s | %d | %s (%s) | %s |" % (sid, rnd, what, fn, by))
    out.append("")
    out.append("  ".join("Round %d: %d of %d reported." % (r, caught[r], total[r]) for r in sorted(total)))
    return "\n".join(out)


def main():
    p = os.path.join(V, "DESIGN.md")
    s = open(p).read()
    for name, fn in (("RULES", rules_table), ("SEEDS", seeds_table)):
        a, b = "<!-- BEGIN GENERATED %s -->" % name, "<!-- END GENERATED %s -->" % name
        if a in s and b in s:
            s = s[:s.index(a) + len(a)] + "\n" + fn() + "\n" + s[s.index(b):]
    open(p, "w").write(s)


if __name__ == "__main__":
    main()
