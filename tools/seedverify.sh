#!/bin/bash
# Verify seeded changes in a scratch worktree of /repo HEAD: clean build passes demo; patched build compiles,
# passes the existing suite and fails the demo.  usage: seedverify.sh <seeddir>...   (results: <seeddir>/verify.txt)
WT=${WT:-/tmp/wt/verify}
if [ ! -d "$WT" ]; then git -C /repo worktree add -q --detach "$WT" HEAD || exit 3; fi
git -C "$WT" checkout -q --detach "$(git -C /repo rev-parse HEAD)" 2>/dev/null
cd "$WT" && git checkout -q -- . && make clean >/dev/null 2>&1
make -j16 >/dev/null 2>&1 || { echo "clean build failed"; exit 3; }
cp build/janet /tmp/janet.clean
for d in "$@"; do
  out="$d/verify.txt"; : > "$out"
  echo "head=$(git rev-parse --short HEAD)" >> "$out"
  ( cd "$WT" && timeout 60 /tmp/janet.clean "$d/demo.janet" >/tmp/demo.clean.out 2>&1 ); rc0=$?
  echo "unpatched_demo_exit=$rc0" >> "$out"
  if ! git apply --check "$d/patch.diff" 2>/dev/null; then echo "applies=no" >> "$out"; echo "$d: patch does not apply"; continue; fi
  git apply "$d/patch.diff"; echo "applies=yes" >> "$out"
  if make -j16 >/tmp/build.out 2>&1; then echo "builds=yes" >> "$out"; else echo "builds=no" >> "$out"; git checkout -q -- .; echo "$d: build failed"; continue; fi
  JANET_TEST_PORT=$((18000 + RANDOM % 1000)) timeout 300 make test >/tmp/test.out 2>&1; rct=$?
  echo "suite_exit=$rct" >> "$out"
  timeout 60 build/janet "$d/demo.janet" >/tmp/demo.patched.out 2>&1; rc1=$?
  echo "patched_demo_exit=$rc1" >> "$out"
  tail -3 /tmp/demo.patched.out | sed 's/^/  patched: /' >> "$out"
  git checkout -q -- .
  echo "$d: unpatched=$rc0 suite=$rct patched=$rc1"
done
make clean >/dev/null 2>&1
