#!/bin/bash
# "A fixed defect is reported again if it ever returns": every fix: commit recorded in known_findings.txt is reverted on a
# scratch copy of the current sources (outside /repo and /verif) and the check of its property must report the rule named
# in its `fixed:` line.   usage: tools/regress.sh [commit ...]    output: one line per commit, exit 1 if any is missed
ROOT=/verif/regress
WORK=${TMPDIR:-/tmp}/regress.$$
mkdir -p "$WORK"
one() {
  d=$1; c=$(basename "$d"); w="$WORK/$c"
  mkdir -p "$w/repo" && cp -r /repo/src "$w/repo/src"
  if ! (cd "$w/repo" && patch -p1 -s --fuzz=0 < "$d/patch.diff" >/dev/null 2>&1); then echo "$c SKIP (reverse patch no longer applies)"; rm -rf "$w"; return; fi
  res=""
  for pr in $(python3 -c "import json,sys;print(' '.join(e['property']+':'+e['rule'] for e in json.load(open('$d/meta.json'))['expect']))"); do
    p=${pr%%:*}; r=${pr##*:}
    out=$(JV_REPO="$w/repo" JV_CACHE="$w/cache" JV_OUT="$w/out" timeout 900 /verif/check $p 2>&1); rc=$?
    if [ $rc -eq 1 ] && echo "$out" | grep -A1 '^VIOLATION' | grep -q "$r "; then res="$res $pr:reported"
    elif [ $rc -eq 1 ]; then res="$res $pr:OTHER-RULE[$(echo "$out" | grep -A1 '^VIOLATION' | grep -o 'C[0-9][0-9]-[A-Z0-9]*' | sort -u | tr '\n' ',')]"
    else res="$res $pr:MISSED(exit=$rc)"; fi
  done
  echo "$c$res"
  rm -rf "$w"
}
export -f one; export WORK
if [ $# -gt 0 ]; then for c in "$@"; do echo "$ROOT/$c"; done; else ls -d "$ROOT"/*/; fi | sed 's:/$::' | xargs -P 12 -I{} bash -c 'one {}'
rm -rf "$WORK"
