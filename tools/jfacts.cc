// jfacts: libTooling fact extractor for the janet static checkers.
//
// For one C translation unit it writes one JSON file containing
//   - enums, record layouts, typedefs of records, macro definitions (from non-system files)
//   - every function declaration (name, linkage, noreturn, signature, system-header flag)
//   - every function definition: a table of AST nodes (shallow, children by id; parens and
//     implicit casts are collapsed) and clang's CFG built with setAllAlwaysAdd(), blocks listing
//     the node ids of their elements in evaluation order, successors positional
//     (true,false / switch cases), terminator, terminator condition, label.
//   - every file-scope variable with its initialiser as a node tree.
// Every node carries its expansion line and the stack of macro names it was expanded from.
//
// usage: jfacts <file.c> -o <out.json> -- <compile flags>
//
// Exit status: 0 ok, 2 if the unit did not parse without errors.

#include "clang/AST/ASTConsumer.h"
#include "clang/AST/ASTContext.h"
#include "clang/AST/Decl.h"
#include "clang/AST/Expr.h"
#include "clang/AST/RecursiveASTVisitor.h"
#include "clang/AST/Stmt.h"
#include "clang/Analysis/CFG.h"
#include "clang/Frontend/CompilerInstance.h"
#include "clang/Frontend/FrontendAction.h"
#include "clang/Lex/Lexer.h"
#include "clang/Lex/MacroInfo.h"
#include "clang/Lex/Preprocessor.h"
#include "clang/Tooling/CommonOptionsParser.h"
#include "clang/Tooling/Tooling.h"
#include "llvm/Support/CommandLine.h"
#include "llvm/Support/JSON.h"
#include "llvm/Support/raw_ostream.h"

#include <map>
#include <string>
#include <vector>

using namespace clang;
using namespace clang::tooling;
namespace json = llvm::json;

static llvm::cl::OptionCategory Cat("jfacts options");
static llvm::cl::opt<std::string> OutPath("o", llvm::cl::desc("output json"), llvm::cl::Required,
                                          llvm::cl::cat(Cat));

namespace {

static std::string fix(llvm::StringRef s) { return json::fixUTF8(s); }

struct Emitter {
  ASTContext &Ctx;
  SourceManager &SM;
  const LangOptions &LO;
  PrintingPolicy PP;
  FileID MainFID;

  // interned macro stacks
  std::map<std::vector<std::string>, int> MStackIds;
  json::Array MStacks;
  // interned type strings
  std::map<std::string, int> TypeIds;
  json::Array Types;

  Emitter(ASTContext &C)
      : Ctx(C), SM(C.getSourceManager()), LO(C.getLangOpts()), PP(C.getLangOpts()) {
    MainFID = SM.getMainFileID();
    PP.SuppressTagKeyword = false;
    std::vector<std::string> empty;
    MStackIds[empty] = 0;
    MStacks.push_back(json::Array());
  }

  int typeId(QualType T) {
    std::string s = T.isNull() ? std::string("?") : T.getAsString(PP);
    auto it = TypeIds.find(s);
    if (it != TypeIds.end()) return it->second;
    int id = (int)Types.size();
    TypeIds[s] = id;
    Types.push_back(fix(s));
    return id;
  }

  int macroStack(SourceLocation loc) {
    std::vector<std::string> out;
    int guard = 0;
    while (loc.isValid() && loc.isMacroID() && guard++ < 64) {
      std::string name = Lexer::getImmediateMacroName(loc, SM, LO).str();
      if (SM.isMacroArgExpansion(loc)) name += "@";
      out.push_back(name);
      loc = SM.getImmediateMacroCallerLoc(loc);
    }
    auto it = MStackIds.find(out);
    if (it != MStackIds.end()) return it->second;
    int id = (int)MStacks.size();
    MStackIds[out] = id;
    json::Array a;
    for (auto &s : out) a.push_back(s);
    MStacks.push_back(std::move(a));
    return id;
  }

  bool inSystem(SourceLocation loc) {
    if (loc.isInvalid()) return true;
    return SM.isInSystemHeader(SM.getExpansionLoc(loc));
  }

  std::string fileOf(SourceLocation loc) {
    SourceLocation e = SM.getExpansionLoc(loc);
    return SM.getFilename(e).str();
  }
  unsigned lineOf(SourceLocation loc) {
    if (loc.isInvalid()) return 0;
    return SM.getExpansionLineNumber(loc);
  }
  unsigned colOf(SourceLocation loc) {
    if (loc.isInvalid()) return 0;
    return SM.getExpansionColumnNumber(loc);
  }

  std::string recordName(const RecordDecl *RD) {
    if (!RD) return "?";
    if (!RD->getName().empty()) return RD->getName().str();
    if (const TypedefNameDecl *TD = RD->getTypedefNameForAnonDecl()) return TD->getName().str();
    // anonymous: name it after its parent record and position
    std::string s = "anon@";
    if (const auto *P = dyn_cast_or_null<RecordDecl>(RD->getParent())) {
      s += recordName(P);
      s += ":";
    }
    s += std::to_string(lineOf(RD->getLocation()));
    return s;
  }
};

// A table of shallow nodes for one scope (a function body, or all global initialisers)
struct NodeTable {
  Emitter &E;
  json::Array Nodes;
  std::map<const Stmt *, int> IdOf;
  std::map<const Decl *, int> DeclIdOf;
  std::map<const Decl *, int> DeclSerial;   // stable per-scope serial of a declaration (distinguishes shadowed names)
  int declSerial(const Decl *D) {
    auto it = DeclSerial.find(D);
    if (it != DeclSerial.end()) return it->second;
    int id = (int)DeclSerial.size() + 1;
    DeclSerial[D] = id;
    return id;
  }
  NodeTable(Emitter &e) : E(e) {}

  static const Stmt *strip(const Stmt *S) {
    while (S) {
      if (auto *P = dyn_cast<ParenExpr>(S)) S = P->getSubExpr();
      else if (auto *I = dyn_cast<ImplicitCastExpr>(S)) S = I->getSubExpr();
      else if (auto *F = dyn_cast<FullExpr>(S)) S = F->getSubExpr();
      else break;
    }
    return S;
  }
  static bool collapsed(const Stmt *S) {
    return isa<ParenExpr>(S) || isa<ImplicitCastExpr>(S) || isa<FullExpr>(S);
  }

  int newNode(json::Object &&o) {
    int id = (int)Nodes.size();
    Nodes.push_back(std::move(o));
    return id;
  }

  void common(json::Object &o, const Stmt *S) {
    SourceLocation b = S->getBeginLoc();
    o["ln"] = (int64_t)E.lineOf(b);
    o["col"] = (int64_t)E.colOf(b);
    SourceLocation eb = E.SM.getExpansionLoc(b);
    if (eb.isValid() && E.SM.getFileID(eb) != E.MainFID) o["file"] = E.fileOf(b);
    int m = E.macroStack(b);
    if (m) o["m"] = m;
    if (const Expr *X = dyn_cast<Expr>(S)) {
      o["t"] = E.typeId(X->getType());
      if (!X->isValueDependent() && X->isPRValue() &&
          (X->getType()->isIntegralOrEnumerationType() || X->getType()->isPointerType())) {
        Expr::EvalResult R;
        if (X->getType()->isIntegralOrEnumerationType() &&
            X->EvaluateAsInt(R, E.Ctx, Expr::SE_NoSideEffects)) {
          llvm::APSInt v = R.Val.getInt();
          if (v.isSigned() ? v.isSignedIntN(63) : v.isIntN(63))
            o["v"] = (int64_t)(v.isSigned() ? v.getSExtValue() : (int64_t)v.getZExtValue());
          else
            o["v"] = llvm::toString(v, 10);
        }
      }
    }
  }

  int emitVarDecl(const VarDecl *VD) {
    auto it = DeclIdOf.find(VD);
    if (it != DeclIdOf.end()) return it->second;
    json::Object o;
    o["k"] = "vardecl";
    o["n"] = VD->getName().str();
    o["di"] = declSerial(VD);
    o["t"] = E.typeId(VD->getType());
    o["ln"] = (int64_t)E.lineOf(VD->getLocation());
    int m = E.macroStack(VD->getLocation());
    if (m) o["m"] = m;
    if (VD->isStaticLocal()) o["static"] = true;
    if (VD->getTLSKind() != VarDecl::TLS_None) o["tls"] = true;
    json::Array ch;
    if (VD->hasInit()) ch.push_back(emit(VD->getInit()));
    o["c"] = std::move(ch);
    int id = newNode(std::move(o));
    DeclIdOf[VD] = id;
    return id;
  }

  int emit(const Stmt *S0) {
    if (!S0) {
      json::Object o;
      o["k"] = "null";
      return newNode(std::move(o));
    }
    auto it0 = IdOf.find(S0);
    if (it0 != IdOf.end()) return it0->second;
    const Stmt *S = strip(S0);
    bool rv = false;
    // was there an lvalue-to-rvalue conversion on the way?
    for (const Stmt *W = S0; W != S;) {
      if (auto *I = dyn_cast<ImplicitCastExpr>(W)) {
        if (I->getCastKind() == CK_LValueToRValue) rv = true;
        W = I->getSubExpr();
      } else if (auto *P = dyn_cast<ParenExpr>(W)) W = P->getSubExpr();
      else if (auto *F = dyn_cast<FullExpr>(W)) W = F->getSubExpr();
      else break;
    }
    auto it = IdOf.find(S);
    if (it != IdOf.end()) {
      IdOf[S0] = it->second;
      if (rv) (*Nodes[it->second].getAsObject())["rv"] = true;
      return it->second;
    }
    int id = emitStripped(S);
    IdOf[S] = id;
    // register all collapsed wrappers
    for (const Stmt *W = S0; W != S;) {
      IdOf[W] = id;
      if (auto *I = dyn_cast<ImplicitCastExpr>(W)) W = I->getSubExpr();
      else if (auto *P = dyn_cast<ParenExpr>(W)) W = P->getSubExpr();
      else if (auto *F = dyn_cast<FullExpr>(W)) W = F->getSubExpr();
      else break;
    }
    if (rv) (*Nodes[id].getAsObject())["rv"] = true;
    return id;
  }

  int emitStripped(const Stmt *S) {
    json::Object o;
    json::Array ch;
    common(o, S);
    auto kids = [&](std::initializer_list<const Stmt *> l) {
      for (const Stmt *c : l) ch.push_back(emit(c));
    };
    if (auto *D = dyn_cast<DeclRefExpr>(S)) {
      o["k"] = "ref";
      const ValueDecl *VD = D->getDecl();
      o["n"] = VD->getName().str();
      if (isa<VarDecl>(VD)) o["di"] = declSerial(VD);
      if (isa<EnumConstantDecl>(VD)) o["d"] = "enum";
      else if (isa<FunctionDecl>(VD)) o["d"] = "fn";
      else if (isa<ParmVarDecl>(VD)) o["d"] = "parm";
      else if (auto *V = dyn_cast<VarDecl>(VD)) {
        if (V->isLocalVarDecl()) o["d"] = V->isStaticLocal() ? "slocal" : "var";
        else o["d"] = "gvar";
      } else o["d"] = "other";
    } else if (auto *M = dyn_cast<MemberExpr>(S)) {
      o["k"] = "mem";
      o["f"] = M->getMemberDecl()->getName().str();
      if (auto *FD = dyn_cast<FieldDecl>(M->getMemberDecl())) o["rec"] = E.recordName(FD->getParent());
      if (M->isArrow()) o["arrow"] = true;
      kids({M->getBase()});
    } else if (auto *A = dyn_cast<ArraySubscriptExpr>(S)) {
      o["k"] = "sub";
      kids({A->getBase(), A->getIdx()});
    } else if (auto *C = dyn_cast<CallExpr>(S)) {
      o["k"] = "call";
      if (const FunctionDecl *FD = C->getDirectCallee()) o["fn"] = FD->getName().str();
      ch.push_back(emit(C->getCallee()));
      for (const Expr *a : C->arguments()) ch.push_back(emit(a));
    } else if (auto *B = dyn_cast<BinaryOperator>(S)) {
      o["k"] = B->isAssignmentOp() ? "asg" : "bin";
      o["op"] = B->getOpcodeStr().str();
      kids({B->getLHS(), B->getRHS()});
    } else if (auto *U = dyn_cast<UnaryOperator>(S)) {
      o["k"] = "un";
      std::string op = UnaryOperator::getOpcodeStr(U->getOpcode()).str();
      if (U->isPostfix()) op = "post" + op;
      else if (U->isIncrementDecrementOp()) op = "pre" + op;
      o["op"] = op;
      kids({U->getSubExpr()});
    } else if (auto *C = dyn_cast<CStyleCastExpr>(S)) {
      o["k"] = "cast";
      kids({C->getSubExpr()});
    } else if (auto *C = dyn_cast<ConditionalOperator>(S)) {
      o["k"] = "cond";
      kids({C->getCond(), C->getTrueExpr(), C->getFalseExpr()});
    } else if (auto *I = dyn_cast<IntegerLiteral>(S)) {
      o["k"] = "int";
      (void)I;
    } else if (auto *I = dyn_cast<CharacterLiteral>(S)) {
      o["k"] = "int";
      o["char"] = true;
      (void)I;
    } else if (auto *F = dyn_cast<FloatingLiteral>(S)) {
      o["k"] = "flt";
      o["fv"] = F->getValueAsApproximateDouble();
    } else if (auto *St = dyn_cast<StringLiteral>(S)) {
      o["k"] = "str";
      if (St->getCharByteWidth() == 1) o["s"] = fix(St->getBytes());
    } else if (auto *U = dyn_cast<UnaryExprOrTypeTraitExpr>(S)) {
      o["k"] = "sizeof";
      if (U->isArgumentType()) o["argt"] = E.typeId(U->getArgumentType());
      else kids({U->getArgumentExpr()});
    } else if (auto *IL = dyn_cast<InitListExpr>(S)) {
      o["k"] = "init";
      const InitListExpr *Sem = IL->isSemanticForm() ? IL : IL->getSemanticForm();
      if (!Sem) Sem = IL;
      for (const Expr *e : Sem->inits()) ch.push_back(emit(e));
      if (Sem->hasArrayFiller()) o["filler"] = emit(Sem->getArrayFiller());
      if (const auto *AT = E.Ctx.getAsConstantArrayType(Sem->getType()))
        o["len"] = (int64_t)AT->getSize().getZExtValue();
    } else if (auto *CL = dyn_cast<CompoundLiteralExpr>(S)) {
      o["k"] = "complit";
      kids({CL->getInitializer()});
    } else if (auto *AL = dyn_cast<AddrLabelExpr>(S)) {
      o["k"] = "addrlabel";
      o["n"] = AL->getLabel()->getName().str();
    } else if (isa<ImplicitValueInitExpr>(S)) {
      o["k"] = "zero";
    } else if (auto *SE = dyn_cast<StmtExpr>(S)) {
      o["k"] = "stmtexpr";
      kids({SE->getSubStmt()});
    } else if (auto *P = dyn_cast<PredefinedExpr>(S)) {
      o["k"] = "str";
      (void)P;
    } else if (auto *OE = dyn_cast<OffsetOfExpr>(S)) {
      o["k"] = "offsetof";
      (void)OE;
    } else if (auto *VA = dyn_cast<VAArgExpr>(S)) {
      o["k"] = "vaarg";
      kids({VA->getSubExpr()});
    } else if (auto *OV = dyn_cast<OpaqueValueExpr>(S)) {
      o["k"] = "opaque";
      if (OV->getSourceExpr()) kids({OV->getSourceExpr()});
    } else if (auto *BC = dyn_cast<BinaryConditionalOperator>(S)) {
      o["k"] = "bincond";
      kids({BC->getCommon(), BC->getFalseExpr()});
    } else if (auto *CA = dyn_cast<CompoundAssignOperator>(S)) {
      (void)CA; // handled by BinaryOperator above
    } else if (isa<Expr>(S)) {
      o["k"] = "expr";
      o["cls"] = S->getStmtClassName();
      for (const Stmt *c : S->children()) ch.push_back(emit(c));
    }
    // statements
    else if (auto *CS = dyn_cast<CompoundStmt>(S)) {
      o["k"] = "compound";
      for (const Stmt *c : CS->body()) ch.push_back(emit(c));
    } else if (auto *I = dyn_cast<IfStmt>(S)) {
      o["k"] = "if";
      kids({I->getCond(), I->getThen()});
      if (I->getElse()) kids({I->getElse()});
    } else if (auto *W = dyn_cast<WhileStmt>(S)) {
      o["k"] = "while";
      kids({W->getCond(), W->getBody()});
    } else if (auto *DS = dyn_cast<DoStmt>(S)) {
      o["k"] = "do";
      kids({DS->getBody(), DS->getCond()});
    } else if (auto *F = dyn_cast<ForStmt>(S)) {
      o["k"] = "for";
      kids({F->getInit(), F->getCond(), F->getInc(), F->getBody()});
    } else if (auto *SW = dyn_cast<SwitchStmt>(S)) {
      o["k"] = "switch";
      kids({SW->getCond(), SW->getBody()});
    } else if (auto *CS = dyn_cast<CaseStmt>(S)) {
      o["k"] = "case";
      Expr::EvalResult R;
      if (CS->getLHS()->EvaluateAsInt(R, E.Ctx)) o["v"] = R.Val.getInt().getExtValue();
      if (CS->getRHS() && CS->getRHS()->EvaluateAsInt(R, E.Ctx)) o["v2"] = R.Val.getInt().getExtValue();
      kids({CS->getLHS(), CS->getSubStmt()});
    } else if (auto *DS = dyn_cast<DefaultStmt>(S)) {
      o["k"] = "default";
      kids({DS->getSubStmt()});
    } else if (auto *L = dyn_cast<LabelStmt>(S)) {
      o["k"] = "label";
      o["n"] = L->getDecl()->getName().str();
      kids({L->getSubStmt()});
    } else if (auto *G = dyn_cast<GotoStmt>(S)) {
      o["k"] = "goto";
      o["n"] = G->getLabel()->getName().str();
    } else if (auto *IG = dyn_cast<IndirectGotoStmt>(S)) {
      o["k"] = "igoto";
      kids({IG->getTarget()});
    } else if (auto *R = dyn_cast<ReturnStmt>(S)) {
      o["k"] = "return";
      if (R->getRetValue()) kids({R->getRetValue()});
    } else if (isa<BreakStmt>(S)) {
      o["k"] = "break";
    } else if (isa<ContinueStmt>(S)) {
      o["k"] = "continue";
    } else if (auto *DS = dyn_cast<DeclStmt>(S)) {
      o["k"] = "decl";
      for (const Decl *D : DS->decls())
        if (auto *VD = dyn_cast<VarDecl>(D)) ch.push_back(emitVarDecl(VD));
    } else if (isa<NullStmt>(S)) {
      o["k"] = "nullstmt";
    } else {
      o["k"] = "stmt";
      o["cls"] = S->getStmtClassName();
      for (const Stmt *c : S->children())
        if (c) ch.push_back(emit(c));
    }
    if (!ch.empty()) o["c"] = std::move(ch);
    return newNode(std::move(o));
  }
};

class Consumer : public ASTConsumer {
  CompilerInstance &CI;

public:
  Consumer(CompilerInstance &ci) : CI(ci) {}

  void HandleTranslationUnit(ASTContext &Ctx) override {
    if (Ctx.getDiagnostics().hasErrorOccurred()) return;
    Emitter E(Ctx);
    json::Object Out;
    SourceManager &SM = Ctx.getSourceManager();
    Out["file"] = SM.getFileEntryForID(SM.getMainFileID())->getName().str();

    json::Object Enums, EnumTypes, Records;
    json::Array Funcs, Decls, Globals;
    NodeTable GT(E);
    std::map<std::string, bool> declSeen;

    std::function<void(const RecordDecl *)> doRecord = [&](const RecordDecl *RD) {
      if (!RD->isCompleteDefinition()) return;
      if (E.inSystem(RD->getLocation())) return;
      std::string name = E.recordName(RD);
      json::Array fields;
      for (const FieldDecl *F : RD->fields()) {
        json::Object fo;
        fo["n"] = F->getName().str();
        fo["t"] = fix(F->getType().getAsString(E.PP));
        fo["ct"] = fix(F->getType().getCanonicalType().getAsString(E.PP));
        if (const RecordType *RT = F->getType()->getAs<RecordType>()) {
          fo["rec"] = E.recordName(RT->getDecl());
        } else if (const auto *AT = Ctx.getAsArrayType(F->getType())) {
          if (const RecordType *RT2 = AT->getElementType()->getAs<RecordType>())
            fo["rec"] = E.recordName(RT2->getDecl());
        } else if (F->getType()->isPointerType()) {
          QualType PT = F->getType()->getPointeeType();
          if (const RecordType *RT3 = PT->getAs<RecordType>()) fo["prec"] = E.recordName(RT3->getDecl());
        }
        fields.push_back(std::move(fo));
      }
      json::Object ro;
      ro["fields"] = std::move(fields);
      ro["union"] = RD->isUnion();
      ro["ln"] = (int64_t)E.lineOf(RD->getLocation());
      ro["file"] = E.fileOf(RD->getLocation());
      Records[name] = std::move(ro);
      for (const Decl *D : RD->decls())
        if (auto *Inner = dyn_cast<RecordDecl>(D)) doRecord(Inner);
    };

    for (const Decl *D : Ctx.getTranslationUnitDecl()->decls()) {
      if (auto *ED = dyn_cast<EnumDecl>(D)) {
        if (E.inSystem(ED->getLocation())) continue;
        json::Array names;
        for (const EnumConstantDecl *EC : ED->enumerators()) {
          Enums[EC->getName().str()] = EC->getInitVal().getExtValue();
          names.push_back(EC->getName().str());
        }
        std::string nm = ED->getName().str();
        if (nm.empty())
          if (const TypedefNameDecl *TD = ED->getTypedefNameForAnonDecl()) nm = TD->getName().str();
        if (nm.empty()) nm = "anon@" + std::to_string(E.lineOf(ED->getLocation()));
        EnumTypes[nm] = std::move(names);
      } else if (auto *RD = dyn_cast<RecordDecl>(D)) {
        doRecord(RD);
      } else if (auto *FD = dyn_cast<FunctionDecl>(D)) {
        json::Object fo;
        std::string name = FD->getName().str();
        fo["n"] = name;
        fo["static"] = FD->getStorageClass() == SC_Static;
        fo["noreturn"] = FD->isNoReturn() || FD->hasAttr<NoReturnAttr>() || FD->hasAttr<C11NoReturnAttr>();
        fo["ret"] = fix(FD->getReturnType().getAsString(E.PP));
        json::Array params;
        for (const ParmVarDecl *P : FD->parameters()) {
          json::Object po;
          po["n"] = P->getName().str();
          po["t"] = fix(P->getType().getAsString(E.PP));
          params.push_back(std::move(po));
        }
        fo["params"] = std::move(params);
        fo["variadic"] = FD->isVariadic();
        fo["ln"] = (int64_t)E.lineOf(FD->getLocation());
        fo["file"] = E.fileOf(FD->getLocation());
        bool sys = E.inSystem(FD->getLocation());
        fo["sys"] = sys;
        if (FD->doesThisDeclarationHaveABody() && !sys) {
          fo["end"] = (int64_t)E.lineOf(FD->getBody()->getEndLoc());
          NodeTable NT(E);
          // parameters as vardecl-less refs; body
          int body = NT.emit(FD->getBody());
          fo["body"] = body;
          // CFG
          CFG::BuildOptions BO;
          BO.setAllAlwaysAdd();
          BO.PruneTriviallyFalseEdges = true;
          BO.AddEHEdges = false;
          BO.AddInitializers = false;
          BO.AddImplicitDtors = false;
          std::unique_ptr<CFG> G = CFG::buildCFG(FD, FD->getBody(), &Ctx, BO);
          if (G) {
            // synthetic DeclStmts (one per VarDecl of a multi-declaration)
            json::Array blocks;
            for (const CFGBlock *B : *G) {
              json::Object bo;
              bo["id"] = (int64_t)B->getBlockID();
              json::Array elems;
              int last = -1;
              for (const CFGElement &El : *B) {
                if (auto CS = El.getAs<CFGStmt>()) {
                  const Stmt *S = CS->getStmt();
                  int id = -1;
                  if (auto *DS = dyn_cast<DeclStmt>(S)) {
                    if (DS->isSingleDecl()) {
                      if (auto *VD = dyn_cast<VarDecl>(DS->getSingleDecl())) id = NT.emitVarDecl(VD);
                    }
                  } else if (NodeTable::collapsed(S)) {
                    continue;
                  } else {
                    auto it = NT.IdOf.find(S);
                    if (it != NT.IdOf.end()) id = it->second;
                    else id = NT.emit(S); // e.g. synthesized
                  }
                  if (id >= 0 && id != last) elems.push_back(id);
                  last = id;
                }
              }
              bo["e"] = std::move(elems);
              json::Array succs;
              for (auto it = B->succ_begin(); it != B->succ_end(); ++it) {
                const CFGBlock *R = it->getReachableBlock();
                succs.push_back(R ? (int64_t)R->getBlockID() : (int64_t)-1);
              }
              bo["s"] = std::move(succs);
              if (const Stmt *T = B->getTerminatorStmt()) {
                auto it = NT.IdOf.find(T);
                if (it != NT.IdOf.end()) bo["t"] = it->second;
                else bo["t"] = NT.emit(T);
              }
              if (const Stmt *TC = B->getTerminatorCondition(false)) {
                auto it = NT.IdOf.find(TC);
                if (it != NT.IdOf.end()) bo["tc"] = it->second;
                else bo["tc"] = NT.emit(TC);
              }
              if (const Stmt *L = B->getLabel()) {
                auto it = NT.IdOf.find(L);
                if (it != NT.IdOf.end()) bo["lab"] = it->second;
              }
              if (B->hasNoReturnElement()) bo["nr"] = true;
              blocks.push_back(std::move(bo));
            }
            fo["blocks"] = std::move(blocks);
            fo["entry"] = (int64_t)G->getEntry().getBlockID();
            fo["exit"] = (int64_t)G->getExit().getBlockID();
            if (const CFGBlock *IG = G->getIndirectGotoBlock()) fo["igoto"] = (int64_t)IG->getBlockID();
          }
          fo["nodes"] = std::move(NT.Nodes);
          Funcs.push_back(std::move(fo));
        } else {
          if (!declSeen[name]) {
            declSeen[name] = true;
            Decls.push_back(std::move(fo));
          }
        }
      } else if (auto *VD = dyn_cast<VarDecl>(D)) {
        if (E.inSystem(VD->getLocation())) continue;
        json::Object go;
        go["n"] = VD->getName().str();
        go["t"] = fix(VD->getType().getAsString(E.PP));
        go["const"] = VD->getType().isConstQualified() ||
                      (Ctx.getAsArrayType(VD->getType()) &&
                       Ctx.getAsArrayType(VD->getType())->getElementType().isConstQualified());
        go["tls"] = VD->getTLSKind() != VarDecl::TLS_None;
        go["static"] = VD->getStorageClass() == SC_Static;
        go["extern"] = VD->hasExternalStorage();
        go["ln"] = (int64_t)E.lineOf(VD->getLocation());
        go["file"] = E.fileOf(VD->getLocation());
        if (VD->hasInit()) go["init"] = GT.emit(VD->getInit());
        Globals.push_back(std::move(go));
      }
    }

    // macros defined in non-system files
    json::Object Macros;
    Preprocessor &PPr = CI.getPreprocessor();
    for (auto it = PPr.macro_begin(); it != PPr.macro_end(); ++it) {
      const IdentifierInfo *II = it->first;
      const MacroInfo *MI = PPr.getMacroInfo(II);
      if (!MI || MI->isBuiltinMacro()) continue;
      SourceLocation dl = MI->getDefinitionLoc();
      if (dl.isInvalid() || SM.isInSystemHeader(dl) || !SM.getFileEntryForID(SM.getFileID(dl))) continue;
      std::string body;
      for (const Token &T : MI->tokens()) {
        if (!body.empty() && T.hasLeadingSpace()) body += ' ';
        body += PPr.getSpelling(T);
      }
      json::Object mo;
      mo["body"] = fix(body);
      mo["fn"] = MI->isFunctionLike();
      mo["ln"] = (int64_t)SM.getExpansionLineNumber(dl);
      mo["file"] = SM.getFilename(dl).str();
      Macros[II->getName().str()] = std::move(mo);
    }

    Out["enums"] = std::move(Enums);
    Out["enumtypes"] = std::move(EnumTypes);
    Out["records"] = std::move(Records);
    Out["funcs"] = std::move(Funcs);
    Out["decls"] = std::move(Decls);
    Out["globals"] = std::move(Globals);
    Out["gnodes"] = std::move(GT.Nodes);
    Out["macros"] = std::move(Macros);
    Out["mstacks"] = std::move(E.MStacks);
    Out["types"] = std::move(E.Types);

    std::error_code EC;
    llvm::raw_fd_ostream OS(OutPath, EC);
    if (EC) {
      llvm::errs() << "jfacts: cannot write " << OutPath << ": " << EC.message() << "\n";
      exit(2);
    }
    OS << json::Value(std::move(Out));
    OS << "\n";
  }
};

class Action : public ASTFrontendAction {
public:
  std::unique_ptr<ASTConsumer> CreateASTConsumer(CompilerInstance &CI, llvm::StringRef) override {
    return std::make_unique<Consumer>(CI);
  }
};

} // namespace

int main(int argc, const char **argv) {
  auto Parser = CommonOptionsParser::create(argc, argv, Cat);
  if (!Parser) {
    llvm::errs() << llvm::toString(Parser.takeError()) << "\n";
    return 2;
  }
  ClangTool Tool(Parser->getCompilations(), Parser->getSourcePathList());
  int rc = Tool.run(newFrontendActionFactory<Action>().get());
  return rc ? 2 : 0;
}
