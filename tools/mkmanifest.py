#!/usr/bin/env python3
"""Regenerate MANIFEST.json from the table below (kept here so the manifest stays consistent)."""
import json
import os

V = os.path.dirname(os.path.dirname(os.path.abspath(__file__)))
props = [json.loads(l) for l in open(os.path.join(V, "properties.jsonl"))]

NOTE = ("Trusted: clang 14 parser/CFG builder, the jfacts extractor, the rule and exception tables in rules/*.py. "
        "Default Linux configuration (epoll, nan-boxing, EV/NET/FFI/PEG/INT_TYPES on); Windows/kqueue branches are "
        "outside the claim. A pass means every listed structural clause holds on every path of the parsed program; "
        "the behaviour itself is not executed or decided.")

CLAIMED = {
    "C12": ("Path-complete structural rules over clang's CFG of peg.c:peg_rule (mode/text_end restore pairing, depth "
            "balance, rollback after failed sub-match, text bounds dominance) plus opcode-set agreement between enum, "
            "interpreter, verifier and compiler. Decides necessary structural clauses of the property on every path; it "
            "does not decide that match results conform to PEG semantics.",
            "DESIGN.md 4/C12", "static analysis: CFG typestate/pairing dataflow + table cross-check over libTooling facts"),
    "C14": ("Path-sensitive dominance analysis proving every 64-bit integer division/remainder in inttypes.c is guarded "
            "against zero and INT64_MIN/-1, a type query forbidding signed 64-bit wrap arithmetic, and a cross-check of "
            "the s64/u64 method tables against the names the interpreter dispatches. Necessary conditions (no trap, no "
            "UB, operator defined for both types); numerical exactness is not decided.",
            "DESIGN.md 4/C14", "static analysis: path-sensitive guard dominance on CFG + type query + table cross-check"),
}

NA = {
    "C13": "numerical exactness of number<->text conversion: no pairing/dominance/exhaustiveness clause is a necessary "
           "condition of it; deciding it needs evaluation of the arithmetic (different technique family) - DESIGN.md 5",
}


def main():
    extra = {}
    p = os.path.join(V, "tools", "claims.json")
    if os.path.exists(p):
        extra = json.load(open(p))
    checks, na = [], []
    for pr in props:
        i = pr["id"]
        c = CLAIMED.get(i) or (tuple(extra[i]) if i in extra else None)
        if c:
            # append the clause list of the rules as they are implemented now (from the last evidence file)
            ev = os.path.join(V, "evidence", i + ".json")
            if os.path.exists(ev):
                rules = json.load(open(ev))["coverage"].get("rules", {})
                if rules:
                    c = (c[0] + " Clauses decided on every run (rule id: clause): " +
                         "; ".join("%s: %s" % (r, v["desc"]) for r, v in sorted(rules.items())) +
                         ". See DESIGN.md sections 9-13 for origin, exceptions and limits.", c[1] + " and 9-13", c[2])
            checks.append({
                "property_id": i,
                "quick_cmd": "./check %s --tier quick" % i,
                "thorough_cmd": "./check %s --tier thorough" % i,
                "evidence_file": "/verif/evidence/%s.json" % i,
                "replay_cmd_template": "./check %s --replay {path}" % i,
                "engine": "jfacts+rules",
                "level_claimed": {"category": "other", "text": c[0], "design_ref": c[1]},
                "level_note": NOTE,
                "technique": c[2],
            })
        else:
            na.append({"property_id": i, "reason": NA.get(i, "checker not built yet; planned static clauses are in DESIGN.md section 4")})
    m = {
        "version": 1,
        "setup_cmd": "./setup.sh",
        "hooks": {
            "guard": "JANET_VERIF_STATIC",
            "enable": "none needed: every check is static and parses /repo/src directly; no hook code exists in /repo",
            "baseline_off_cmd": "ninja -C /repo/_build && meson test -C /repo/_build",
            "source_commits": [],
            "add_only": True,
        },
        "engines": [{
            "name": "jfacts+rules",
            "path": "/verif/tools/jfacts.cc, /verif/jv, /verif/rules, /verif/check",
            "serves_properties": [c["property_id"] for c in checks],
            "kind_free_text": "libTooling (clang 14) fact extractor: AST nodes, CFG (setAllAlwaysAdd), macro provenance, "
                              "records, tables; repository-specific rules in Python: CFG dataflow, typestate, call-graph "
                              "reachability, table cross-checks",
        }],
        "checks": checks,
        "not_applicable": na,
        "notes": "All checks are static: nothing from /repo is built or executed. Exit 2 = analysis broken "
                 "(parse failure, vanished anchor, instance floor).",
    }
    json.dump(m, open(os.path.join(V, "MANIFEST.json"), "w"), indent=1)
    print("claimed:", [c["property_id"] for c in checks])


if __name__ == "__main__":
    main()
