#!/usr/bin/env python3
"""Import verified seeds from a seeder's output directory into /verif/seeded.
usage: seedimport.py <round> <seeddir>...   (each with patch.diff, demo.janet, meta.json, verify.txt from tools/seedverify.sh)"""
import json, os, shutil, sys
rnd = int(sys.argv[1])
for d in sys.argv[2:]:
    d = d.rstrip("/")
    sid = os.path.basename(d)
    v = [l.strip() for l in open(os.path.join(d, "verify.txt"), errors="replace") if "=" in l and not l.startswith("  ")]
    kv = dict(l.split("=", 1) for l in v)
    if not (kv.get("unpatched_demo_exit") == "0" and kv.get("suite_exit") == "0" and kv.get("builds") == "yes" and kv.get("patched_demo_exit") not in ("0", None)):
        print(sid, "NOT CONFIRMED", kv); continue
    m = json.load(open(os.path.join(d, "meta.json")))
    out = {"id": sid, "property": sid.split("-")[0], "round": rnd,
           "breaks": m.get("title") or m.get("breaks") or m.get("summary", ""),
           "files": m.get("files", []), "functions": m.get("functions", []),
           "mechanism": m.get("mechanism", ""), "needs_to_manifest": m.get("needs") or m.get("needs_to_manifest", ""),
           "origin": "independent sub-agent given only the property text and a scratch worktree",
           "ported": False, "confirmed_by_me": v, "seeder_ran": m.get("ran") or m.get("seeder_ran", [])}
    dst = os.path.join("/verif/seeded", sid)
    os.makedirs(dst, exist_ok=True)
    shutil.copy(os.path.join(d, "patch.diff"), dst)
    shutil.copy(os.path.join(d, "demo.janet"), dst)
    for extra in os.listdir(d):
        if extra not in ("patch.diff", "demo.janet", "meta.json", "verify.txt") and os.path.isfile(os.path.join(d, extra)):
            shutil.copy(os.path.join(d, extra), dst)
    json.dump(out, open(os.path.join(dst, "meta.json"), "w"), indent=1)
    print(sid, "imported")
