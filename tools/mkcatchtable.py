#!/usr/bin/env python3
"""tools/catch_table.json from the output of tools/seedmatrix.sh (usage: mkcatchtable.py matrix.txt [override.txt ...]).
Later files override earlier ones per seed."""
import json
import os
import re
import sys

V = os.path.dirname(os.path.dirname(os.path.abspath(__file__)))
out = {}
for path in sys.argv[1:]:
    for line in open(path):
        parts = line.split()
        if not parts or not re.match(r"C\d\d-[a-z]$", parts[0]):
            continue
        cb = {}
        for p in parts[1:]:
            m = re.match(r"(C\d\d):VIOLATION\[(.*)\]", p)
            if m:
                prop = m.group(1)
                rules = [r for r in m.group(2).split(",") if r and not r.endswith("-") and r.startswith(prop + "-")]
                cb[prop] = sorted(rules)
        out[parts[0]] = {"caught_by": cb}
json.dump(out, open(os.path.join(V, "tools", "catch_table.json"), "w"), indent=1, sort_keys=True)
print("%d seeds, %d reported" % (len(out), sum(1 for v in out.values() if v["caught_by"])))
