#!/bin/sh
# run all 19 quick checks in parallel; print one line per property that is not a clean pass
for p in C01 C02 C03 C04 C05 C06 C07 C08 C09 C10 C11 C12 C14 C15 C16 C17 C18 C19 C20; do echo $p; done | \
  xargs -P 8 -I{} sh -c '/verif/check {} > /tmp/allquick.{}.out 2>&1; rc=$?; [ $rc -ne 0 ] && { echo "{} exit=$rc"; grep -A1 "^VIOLATION\|ANALYSIS-BROKEN" /tmp/allquick.{}.out | grep -v "^VIOLATION\|^--" | cut -c1-200 | head -4; }; true'
echo "allquick done"
