#!/bin/sh
# run all 19 thorough checks (4 at a time); print one line per property that is not a clean pass
for p in C01 C02 C03 C04 C05 C06 C07 C08 C09 C10 C11 C12 C14 C15 C16 C17 C18 C19 C20; do echo $p; done | \
  xargs -P 4 -I{} sh -c '/verif/check {} --tier thorough > /tmp/allthorough.{}.out 2>&1; rc=$?; echo "{} exit=$rc $(tail -1 /tmp/allthorough.{}.out | cut -c1-160)"; [ $rc -ne 0 ] && { grep -A1 "^VIOLATION\|ANALYSIS-BROKEN" /tmp/allthorough.{}.out | grep -v "^VIOLATION\|^--" | cut -c1-240 | head -6; }; true'
echo "allthorough done"
