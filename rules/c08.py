"""C08 - thread channels: exactly-once, race-free.  Structural clauses on ev.c / marsh.c / gc.c.

C08-LOCK     channel mutex typestate: every function has one consistent lock delta over all return exits,
             and holds nothing at a raise
C08-NOPANIC  no call that may raise while the channel mutex is held
C08-GUARDED  JanetChannel queue/flag fields are accessed only with the mutex held (or in single-owner contexts)
C08-ATOMIC   cross-thread counters are modified only through janet_atomic_inc/dec
C08-GLOBALS  no unlisted mutable non-thread-local static storage
C08-REFPAIR  incref when a threaded abstract enters a message is matched on the receiving side
"""
from jv import flow
from jv.facts import Program, AnalysisBroken
from jv.summaries import Summaries
from jv.util import is_ref, is_mem, strip_casts, base_var

EXPLANATION = (
    "Static lock-typestate analysis of ev.c: per function, path-sensitive dataflow over the CFG tracks how "
    "many channel mutexes are held (interprocedural deltas computed for the *_with_lock helpers), checks one "
    "consistent delta at every return, nothing held at any raise (noreturn exit) and no may-panic call "
    "(interprocedural summary) while held; a lockset check of every access to the shared JanetChannel fields; "
    "who-may-modify checks of cross-thread counters; an inventory of static storage; incref/decref pairing in "
    "the marshal of threaded abstracts.  Decides the locking discipline, not delivery under every OS schedule.")
ASSUMPTIONS = [
    "pthread mutexes created by janet_os_mutex_init are recursive (a second lock by the same thread succeeds)",
    "default Linux configuration, threads enabled",
]

LOCK = "janet_chan_lock"
UNLOCK = "janet_chan_unlock"
GUARDED_FIELDS = ("items", "read_pending", "write_pending", "closed", "limit")

# functions that touch guarded JanetChannel fields without the mutex, by design
GUARDED_EXCEPTIONS = {
    "janet_chan_init": "constructor: the channel is not yet published to any other thread",
    "janet_chan_deinit": "destructor after the last reference is gone (non-threaded arm); threaded arm locks",
    "janet_chanat_mark": "gcmark is only invoked for non-threaded channels (janet_mark_abstract skips threaded abstracts)",
    "janet_chanat_marshal": "marshals channel contents only for non-threaded channels (threaded ones are sent by reference)",
    "janet_chanat_unmarshal": "constructs a fresh, unpublished channel",
    "janet_chanat_mark_fq": "helper of gcmark (non-threaded only)",
}


# may-panic calls tolerated while the mutex is held, with reason
NOPANIC_EXCEPTIONS = {}
BLOCKING_HANDOFF = ("janet_ev_post_event",)
PROCESS_EXIT = ("abort", "exit", "_exit", "__assert_fail", "_Exit")


class LockAnalysis(object):
    def __init__(self, chk, prog, S):
        self.chk = chk
        self.prog = prog
        self.S = S
        self.tu = prog.tus["ev.c"]
        self.summary = {LOCK: 1, UNLOCK: -1}   # net delta at return
        self.entry = {}                          # function -> held count assumed at entry
        self.lockfn_names = set()

    def lock_funcs(self):
        """functions of ev.c that (transitively) change or rely on the lock state"""
        names = set()
        changed = True
        base = {LOCK, UNLOCK}
        users = {}
        for f in self.tu.funcs.values():
            users[f.name] = set(c.callee for c in f.calls() if c.callee)
        cur = set(base)
        while changed:
            changed = False
            for f, cs in users.items():
                if f in cur or f in base:
                    continue
                if cs & cur:
                    cur.add(f)
                    changed = True
        return [self.tu.funcs[n] for n in cur if n in self.tu.funcs and n not in base]

    def analyse(self, fn, entry_held):
        """returns dict(ret=set of held counts at returns, nr=list of (node, held) at noreturn exits,
        panics=list of (call, held))"""
        S = self.S
        summ = self.summary

        def delta(n):
            if n.k == "call" and n.callee in summ and summ[n.callee] is not None:
                return summ[n.callee]
            return 0

        def transfer(st, n):
            d = delta(n)
            if d:
                return frozenset(max(-3, min(6, x + d)) for x in st)
            return st

        IN, OUT = flow.forward(fn, frozenset([entry_held]), transfer, lambda a, b: a | b)
        rets, nrs, panics, states, retblocks = set(), [], [], {}, []
        self.held_calls = getattr(self, "held_calls", {})
        self.held_calls[fn.name] = 0
        for b, st in IN.items():
            blk = fn.blocks[b]
            for n in blk.elems:
                states[n.id] = st
                if n.k == "call":
                    if self.prog.is_noreturn(n.callee or ""):
                        if n.callee not in PROCESS_EXIT:
                            nrs.append((n, st))
                    elif n.callee not in (LOCK, UNLOCK) and n.callee not in self.lockfn_names:
                        if any(x > 0 for x in st):
                            self.held_calls[fn.name] += 1
                        if S.call_in(fn, n, S.may_panic):
                            panics.append((n, st))
                st = transfer(st, n)
            if fn.exit in blk.succs and not blk.noreturn:
                rets |= st
                retblocks.append((b, st))
        return {"ret": rets, "nr": nrs, "panics": panics, "states": states, "retblocks": retblocks}


def _lock_rules(chk, prog, S):
    rule, rule2 = "C08-LOCK", "C08-NOPANIC"
    chk.rule(rule, "channel mutex: one consistent net lock delta at all returns of each function; nothing held at a raise")
    chk.rule(rule2, "no may-panic call while the channel mutex is held")
    LA = LockAnalysis(chk, prog, S)
    tu = LA.tu
    funcs = [f for f in LA.lock_funcs() if f.name not in ("chan_unlock_args", "chan_lock_args")]
    LA.lockfn_names = set(f.name for f in funcs)
    if len(funcs) < 10:
        raise AnalysisBroken("only %d lock-using functions found in ev.c" % len(funcs))
    # entry state: *_with_lock helpers are entered with the mutex held; verified at their call sites below
    order = []
    names = set(f.name for f in funcs)
    # callee-first order
    deps = {f.name: set(c.callee for c in f.calls() if c.callee in names) for f in funcs}
    done = set()
    while len(done) < len(funcs):
        progress = False
        for f in funcs:
            if f.name not in done and deps[f.name] <= done | {f.name}:
                order.append(f)
                done.add(f.name)
                progress = True
        if not progress:
            raise AnalysisBroken("recursive lock helper functions in ev.c")
    results = {}
    for fn in order:
        if fn.name == "cfun_channel_choice":
            continue
        chk.analysed(fn)
        entry = 1 if fn.name.endswith("_with_lock") else 0
        LA.entry[fn.name] = entry
        r = LA.analyse(fn, entry)
        results[fn.name] = r
        chk.instance(rule)
        deltas = sorted(set(x - entry for x in r["ret"]))
        if len(deltas) > 1:
            # keep analysing callers with the delta most return blocks agree on
            from collections import Counter
            cnt = Counter()
            for b, st in r["retblocks"]:
                for x in st:
                    cnt[x - entry] += 1
            LA.summary[fn.name] = cnt.most_common(1)[0][0]
            odd = [b for b, st in r["retblocks"] if any((x - entry) != LA.summary[fn.name] for x in st)]
            where = ", ".join(sorted(set((fn.blocks[b].elems[-1].loc if fn.blocks[b].elems else fn.loc) for b in odd)))
            # find offending exits: report those that differ from the majority
            chk.violation(rule, "ev.c", fn.name, "return-delta", fn.loc,
                          "the function returns with different lock states on different paths (net deltas %s, entered "
                          "with %d held): the return at %s leaks or double-releases the channel mutex" % (deltas, entry, where))
        else:
            d = deltas[0] if deltas else 0
            LA.summary[fn.name] = d
            if entry + d < 0:
                chk.violation(rule, "ev.c", fn.name, "return-delta", fn.loc, "releases a mutex it does not hold")
            else:
                chk.ok(rule, "%s: entered with %d held, every return has net delta %+d" % (fn.name, entry, d))
        for (n, st) in r["nr"]:
            chk.instance(rule)
            if any(x > 0 for x in st):
                chk.violation(rule, "ev.c", fn.name, "raise:%s" % n.callee, n.loc,
                              "%s raises while the channel mutex may still be held (held=%s): every other thread "
                              "using the channel blocks forever" % (n.text()[:50], sorted(st)))
            else:
                chk.ok(rule, "%s: %s with nothing held" % (fn.name, n.text()[:40]))
        seen = set()
        raising_held = sum(1 for (n, st) in r["panics"] if any(x > 0 for x in st))
        quiet = LA.held_calls.get(fn.name, 0) - raising_held
        if quiet > 0:
            chk.instance(rule2, quiet)
            chk.ok(rule2, "%s: %d call(s) made with the mutex held cannot raise" % (fn.name, quiet), n=quiet)
        for (n, st) in r["panics"]:
            if not any(x > 0 for x in st):
                continue
            chk.instance(rule2)
            key = n.callee or "pointer"
            if key in seen:
                continue
            seen.add(key)
            if key in NOPANIC_EXCEPTIONS:
                chk.exception(rule2, "%s in %s" % (key, fn.name), NOPANIC_EXCEPTIONS[key])
                chk.ok(rule2, "%s: %s (exception)" % (fn.name, key))
                continue
            path = S.cg.path(S.cg.fid(fn), S.panic_seeds, stop=S.panic_barriers)
            tgt = S.cg.resolve_name(n.callee, fn.tu) if n.callee else None
            p2 = S.cg.path(tgt, S.panic_seeds, stop=S.panic_barriers) if tgt in S.cg.funcs else None
            chk.violation(rule2, "ev.c", fn.name, key, n.loc,
                          "%s may raise (%s) while the channel mutex is held" % (
                              n.text()[:50], " -> ".join(x[1] if isinstance(x, tuple) else x for x in (p2 or [])[:6])))
    # call sites of *_with_lock must be in state held >= 1
    for fn in order:
        if fn.name == "cfun_channel_choice":
            continue
        r = results[fn.name]
        for n in fn.calls():
            if n.callee and n.callee.endswith("_with_lock") and n.id in r["states"]:
                chk.instance(rule)
                if all(x >= 1 for x in r["states"][n.id]):
                    chk.ok(rule, "%s calls %s with the mutex held" % (fn.name, n.callee))
                else:
                    chk.violation(rule, "ev.c", fn.name, "call:%s" % n.callee, n.loc,
                                  "%s is entered without the channel mutex held on some path" % n.callee)
    chk.floor(rule, 20)
    # nothing that can block for an unbounded time while the mutex is held: posting to another thread's self-pipe is a
    # blocking write, and the thread that has to drain that pipe needs this very mutex in its callback
    rule3 = "C08-NOBLOCK"
    chk.rule(rule3, "no blocking hand-off (a write to another thread's self-pipe) is made while the channel mutex is held")
    nb = 0
    # (a) the deferring helper: posts directly only when this thread holds no channel mutex; the flush in the unlock
    #     helper comes after the mutex was released and only when the depth is back to zero
    for hname in ("janet_chan_post", "janet_chan_unlock"):
        hf = tu.funcs.get(hname)
        if hf is None:
            continue
        posts = [c for c in hf.calls() if c.callee in BLOCKING_HANDOFF]
        if not posts:
            continue
        chk.analysed(hf)
        CI, CT = flow.condition_facts(hf)
        for x, S_ in flow.states_at(hf, CI, CT):
            if x not in posts:
                continue
            nb += 1
            chk.instance(rule3)
            ok = bool(S_)
            for ps in S_:
                good = False
                for (op, l, r_, toks, ln, rn) in ps:
                    if "chan_lock_depth" in l and ((op in ("<=", "==") and (rn is None or rn.v == 0)) or (op == "<" and rn is not None and rn.v == 1)):
                        good = True
                if not good:
                    ok = False
            if hname == "janet_chan_unlock":
                unl = [c for c in hf.calls("janet_os_mutex_unlock")]
                ok = ok and bool(unl) and all(u.ln < x.ln for u in unl)
            if ok:
                chk.ok(rule3, "%s: posts only with no channel mutex held (depth tested%s)" % (hname, ", after the unlock" if hname == "janet_chan_unlock" else ""))
            else:
                chk.violation(rule3, "ev.c", hname, "%s:undeferred" % x.callee, x.loc,
                              "`%s` in %s is not confined to the case that this thread holds no channel mutex (chan_lock_depth == 0%s): a "
                              "hand-off can again be written to a full self-pipe while the mutex the receiver needs is held" % (
                                  x.text()[:50], hname, ", after the mutex was released" if hname == "janet_chan_unlock" else ""))
    # (b) the channel code itself never posts directly while a mutex may be held
    for fn in order:
        if fn.name == "cfun_channel_choice":
            continue
        r = results[fn.name]
        k = 0
        for n in fn.calls():
            if n.callee == "janet_chan_post" and n.id in r["states"]:
                nb += 1
                chk.instance(rule3)
                chk.ok(rule3, "%s: hand-off through the deferring helper" % fn.name)
            if n.callee in BLOCKING_HANDOFF and n.id in r["states"]:
                k += 1
                nb += 1
                chk.instance(rule3)
                if any(x >= 1 for x in r["states"][n.id]):
                    chk.violation(rule3, "ev.c", fn.name, "%s#%d" % (n.callee, k), n.loc,
                                  "`%s` writes to the target thread's self-pipe with the channel mutex held (held=%s); when that pipe "
                                  "is full the write blocks, and the target thread cannot drain it because its janet_thread_chan_cb is "
                                  "waiting for this mutex: both threads hang" % (n.text()[:50], sorted(r["states"][n.id])))
                else:
                    chk.ok(rule3, "%s: %s with nothing held" % (fn.name, n.text()[:40]))
    if nb < 4:
        raise AnalysisBroken("only %d cross-thread hand-off sites found in the channel code" % nb)
    _choice_rule(chk, prog, S, LA, results)
    return LA, results


def _choice_rule(chk, prog, S, LA, results=None):
    """cfun_channel_choice holds a growing set of locks (clauses 0..i) in its first loop.  Dedicated rule:
    state (cur, prevrel): cur = mutex of the current clause held; prevrel = chan_unlock_args(argv, i)
    has been called (or, in the second loop, the *_with_lock helper is draining the earlier clauses)."""
    rule, rule2 = "C08-LOCK", "C08-NOPANIC"
    fn = prog.need_func("cfun_channel_choice", "ev.c")
    chk.analysed(fn)
    chk.exception(rule, "cfun_channel_choice", "multi-lock function: analysed with the dedicated (current, earlier-clauses) rule")

    def all_form(n):
        """chan_unlock_args(argv, argc): every clause"""
        return len(n.args) == 2 and is_ref(strip_casts(n.args[0]), "argv") and is_ref(strip_casts(n.args[1]), "argc")

    def transfer(st, n):
        """state (cur, others, taken): cur = the current clause's mutex is held; others = mutexes of other clauses are
        (possibly) still held; taken = some mutex was taken at all.  others is a pair (before, after) of the clauses
        before and after the current one, released by chan_unlock_args(argv, i) and by the `rest` form respectively."""
        if n.k != "call":
            return st
        out = set()
        for (cur, others, taken) in st:
            before, after = others
            if n.callee == LOCK:
                out.add((1, (before or cur > 0, after), True))
            elif n.callee == "chan_lock_args":
                out.add((1, (True, True), True))
            elif n.callee == UNLOCK:
                out.add((max(cur - 1, -1), others, taken))
            elif n.callee and n.callee.endswith("_with_lock"):
                out.add((cur - 1 if cur > 0 else cur, others, taken))
            elif n.callee == "chan_unlock_args":
                if all_form(n):
                    out.add((0, (False, False), taken))
                else:
                    out.add((cur, (False, after), taken))
            else:
                out.add((cur, others, taken))
        return frozenset(out)

    # drain loops: `for` statements whose body releases through *_with_lock and never locks
    drain = []
    for f in fn.nodes:
        if f.k == "for":
            body = f.kids[3]
            calls = [c for c in body.walk() if c.k == "call"]
            # (the first pass also calls the helpers, but it returns from inside the loop; the registration pass never does)
            if any((c.callee or "").endswith("_with_lock") for c in calls) and not any(c.callee == LOCK for c in calls) \
                    and not any(x.k == "return" for x in body.walk()):
                drain.append(f)
    drain_nodes = set()
    for f in drain:
        for x in f.kids[3].walk():
            drain_nodes.add(x.id)
        # every iteration must release exactly one clause: count *_with_lock calls on each path of the body
        chk.instance(rule)
        cond, inc = f.kids[1], f.kids[2]
        bound_ok = cond is not None and cond.k == "bin" and cond.op == "<" and is_ref(strip_casts(cond.kids[1]), "argc") \
            and f.kids[0] is not None and any(x.k == "vardecl" and x.kids and x.kids[0].v == 0 for x in f.kids[0].walk())
        per_iter = _paths_release_once(fn, f)
        if bound_ok and per_iter:
            chk.ok(rule, "cfun_channel_choice: registration loop releases exactly one clause per iteration over 0..argc")
        else:
            chk.violation(rule, "ev.c", fn.name, "drain-loop", f.loc,
                          "the registration loop of ev/select does not release exactly one clause mutex per iteration "
                          "over all argc clauses (bounds ok=%s, one release per path=%s)" % (bound_ok, per_iter))
    base_transfer = transfer

    def rest_form(n):
        """chan_unlock_args(argv + i + 1, argc - i - 1): releases every clause after the current one"""
        from jv.linear import linear
        if len(n.args) != 2:
            return False
        a, b = linear(n.args[0]), linear(n.args[1])
        if a is None or b is None:
            return False
        ivars = [k for k, v in a[0].items() if k != "argv" and v == 1]
        return (a[0].get("argv") == 1 and a[1] == 1 and len(ivars) == 1 and
                b[0].get("argc") == 1 and b[0].get(ivars[0]) == -1 and b[1] == -1)

    def transfer(st, n):   # noqa
        if n.k == "call" and n.callee == "chan_unlock_args" and rest_form(n):
            # chan_unlock_args(argv + i + 1, argc - i - 1): the clauses after the current one
            return frozenset((cur, (others[0], False), taken) for (cur, others, taken) in st)
        if n.id in drain_nodes and n.k == "call" and n.callee == "chan_unlock_args":
            # inside the registration loop only the "release the rest" form lets go of the clauses still locked
            return st
        return base_transfer(st, n)

    def edge(st, blk, succ, cond, truth):
        if blk.term is not None and blk.term in drain:
            if truth is False:
                # every clause has been released by its own iteration
                return frozenset((0, (False, False), t) for (c, p, t) in st)
            if truth is True:
                # iteration i starts with clause i and all later ones still locked from the first pass; the earlier
                # ones were released one per iteration (checked above)
                return frozenset((1, (False, True), t) for (c, p, t) in st)
        return st

    IN, OUT = flow.forward(fn, frozenset([(0, (False, False), False)]), transfer, lambda a, b: a | b, edge=edge)
    nexits = 0
    for b, st in IN.items():
        blk = fn.blocks[b]
        for n in blk.elems:
            if n.k == "call" and n.callee not in (LOCK, UNLOCK, "chan_unlock_args"):
                held = [s for s in st if s[0] > 0 or s[1][0] or s[1][1]]
                if prog.is_noreturn(n.callee or "") and n.callee != "janet_await":
                    chk.instance(rule)
                    if held:
                        chk.violation(rule, "ev.c", fn.name, "raise:%s" % n.callee, n.loc,
                                      "%s raises with clause mutexes still held" % n.text()[:50])
                    else:
                        chk.ok(rule, "%s: %s with nothing held" % (fn.name, n.text()[:40]))
                elif (n.callee or "").endswith("_with_lock") and results is not None and n.callee in results:
                    # the helper gives up the current clause's mutex before it raises (C08-LOCK), but ev/select also holds
                    # the mutexes of the other clauses: a helper that raises by itself leaves those locked for ever
                    raises = results[n.callee]["nr"]
                    others = [s for s in st if s[1][0] or s[1][1]]
                    chk.instance(rule2)
                    if raises and others:
                        chk.violation(rule2, "ev.c", fn.name, "raising-helper:" + n.callee, n.loc,
                                      "%s can raise by itself (%s at %s) and is called here while the mutexes of other select clauses "
                                      "are held: those channels stay locked, every thread that touches them blocks, and the program "
                                      "never exits" % (n.callee, raises[0][0].text()[:50], raises[0][0].loc))
                    else:
                        chk.ok(rule2, "cfun_channel_choice: %s reports failure as a status, it never raises with the other clauses locked" % n.callee)
                elif held and not (n.callee or "").endswith("_with_lock") and S.call_in(fn, n, S.may_panic):
                    chk.instance(rule2)
                    chk.violation(rule2, "ev.c", fn.name, n.callee or "pointer", n.loc,
                                  "%s may raise while the mutexes of earlier select clauses are held" % n.text()[:50])
            if n.k == "return" or (n.k == "call" and n.callee == "janet_await"):
                nexits += 1
                chk.instance(rule)
                bad = [s for s in st if s[0] != 0 or s[1][0] or s[1][1]]
                if bad:
                    what = []
                    if any(s[0] != 0 for s in bad):
                        what.append("the current clause's mutex is still held")
                    if any(s[1][0] for s in bad):
                        what.append("the mutexes of earlier clauses still held (chan_unlock_args(argv, i) not called)")
                    if any(s[1][1] for s in bad):
                        what.append("the mutexes of later clauses still held (chan_unlock_args(argv + i + 1, argc - i - 1) not called)")
                    chk.violation(rule, "ev.c", fn.name, "exit:%s" % (n.callee or "return"), n.loc,
                                  "ev/select leaves with " + " and ".join(what))
                else:
                    chk.ok(rule, "%s exit at %s releases current and earlier clauses" % (fn.name, n.loc))
            st = transfer(st, n)
    if nexits < 5:
        raise AnalysisBroken("cfun_channel_choice: only %d exits analysed" % nexits)


def _paths_release_once(fn, forstmt):
    """every path through the body of `forstmt` calls a *_with_lock helper exactly once"""
    body_ids = set(x.id for x in forstmt.kids[3].walk())
    # blocks whose elements belong to the body
    blocks = [b for b in fn.blocks.values() if any(e.id in body_ids for e in b.elems)]
    if not blocks:
        return False
    ids = set(b.id for b in blocks)
    entry = [b for b in blocks if any(p not in ids for p in b.preds)]
    if not entry:
        return False

    def tr(st, n):
        if n.id in body_ids and n.k == "call" and (n.callee or "").endswith("_with_lock"):
            return frozenset(min(x + 1, 3) for x in st)
        return st
    ok = True
    for e in entry:
        IN, OUT = flow.forward(fn, frozenset([0]), tr, lambda a, b: a | b, start=e.id,
                               edge=lambda st, blk, succ, c, t: st if succ in ids else None)
        for b in blocks:
            if b.id in OUT and any(s not in ids for s in b.succs if s >= 0):
                if OUT[b.id] != frozenset([1]):
                    ok = False
    return ok


def _guarded_rule(chk, prog, S, LA, results):
    rule = "C08-GUARDED"
    chk.rule(rule, "JanetChannel.{items,read_pending,write_pending,closed,limit} accessed only with the mutex held")
    tu = prog.tus["ev.c"]
    for fn in tu.funcs.values():
        acc = [n for n in fn.nodes if n.k == "mem" and n.rec == "JanetChannel" and n.field in GUARDED_FIELDS]
        if not acc:
            continue
        chk.analysed(fn)
        if fn.name in GUARDED_EXCEPTIONS:
            chk.exception(rule, fn.name, GUARDED_EXCEPTIONS[fn.name])
            chk.instance(rule, len(acc))
            chk.ok(rule, "%s: %d accesses (single-owner context)" % (fn.name, len(acc)), n=len(acc))
            continue
        if fn.name == "cfun_channel_choice":
            # accesses sit between janet_chan_lock(chan) and the release in the same clause
            states = {}

            def tr(st, n):
                if n.k == "call" and n.callee in (LOCK, "chan_lock_args"):
                    return frozenset([1])
                if n.k == "call" and (n.callee == UNLOCK or (n.callee or "").endswith("_with_lock")):
                    return frozenset([0])
                return st
            IN, OUT = flow.forward(fn, frozenset([0]), tr, lambda a, b: a | b)
            for b, st in IN.items():
                for n in fn.blocks[b].elems:
                    states[n.id] = st
                    st = tr(st, n)
        else:
            r = results.get(fn.name)
            if r is None:
                entry = 1 if fn.name.endswith("_with_lock") else 0
                r = LA.analyse(fn, entry)
            states = r["states"]
        for n in acc:
            chk.instance(rule)
            st = states.get(n.id)
            if st is None:
                # not a CFG element of its own (e.g. inside sizeof) - look at the parent chain
                p = n.parent
                while p is not None and p.id not in states:
                    p = p.parent
                st = states.get(p.id) if p is not None else None
            if st is not None and all(x >= 1 for x in st):
                chk.ok(rule, "%s: %s under lock" % (fn.name, n.text()))
            else:
                chk.violation(rule, "ev.c", fn.name, n.field, n.loc,
                              "%s is read or written while the channel mutex is not held on some path (held=%s)" % (
                                  n.text(), sorted(st) if st is not None else "?"))
    chk.floor(rule, 40)


def run(chk):
    prog = Program.load("default")
    S = Summaries(prog)
    LA, results = _lock_rules(chk, prog, S)
    _guarded_rule(chk, prog, S, LA, results)


# ------------------------------------------------------------------------------------------------
# objects with static storage that are written after start-up, with reason
GLOBALS_ALLOW = {
    ("vm.c", "janet_vm"): "the VM state itself is thread-local (JANET_THREAD_LOCAL)",
}


def _globals_rule(chk, prog):
    rule = "C08-GLOBALS"
    chk.rule(rule, "no object with static storage that is shared by threads is written after its initialiser")
    objs = []
    for tu in prog.tus.values():
        for g in tu.globals.values():
            if not g["tls"] and not g.get("extern"):
                objs.append((tu, g["n"], None, g["const"]))
        for f in tu.funcs.values():
            for n in f.nodes:
                if n.k == "vardecl" and n.d.get("static") and not n.d.get("tls"):
                    objs.append((tu, n.name, f, "const" in (n.t or "")))
    if len(objs) < 30:
        raise AnalysisBroken("only %d static objects found" % len(objs))
    # writers: stores whose base is the object; calls passing it where the callee parameter is a non-const pointer
    for tu, name, owner, is_const in objs:
        chk.instance(rule)
        hit = None
        funcs = [owner] if owner is not None else list(tu.funcs.values())
        for f in funcs:
            for n in f.nodes:
                if n.k in ("asg",) or (n.k == "un" and n.op in ("pre++", "post++", "pre--", "post--")):
                    b = n.kids[0]
                    while b.k in ("sub", "mem", "cast") or (b.k == "un" and b.op == "*"):
                        b = b.kids[0]
                    if b.k == "ref" and b.name == name and b.d.get("d") in ("gvar", "slocal"):
                        hit = (f, n, "stored to")
                if n.k == "call" and n.callee:
                    d = prog.decls.get(n.callee)
                    for i, a in enumerate(n.args):
                        a2 = strip_casts(a)
                        if a2.k == "un" and a2.op == "&":
                            a2 = strip_casts(a2.kids[0])
                        if a2.k == "ref" and a2.name == name and a2.d.get("d") in ("gvar", "slocal"):
                            pt = d["params"][i]["t"] if d and i < len(d.get("params", [])) else ""
                            if "*" in pt and "const" not in pt:
                                hit = (f, n, "passed as a writable buffer to %s" % n.callee)
        if hit and (tu.name, name) not in GLOBALS_ALLOW:
            f, n, how = hit
            chk.violation(rule, tu.name, f.name, name, n.loc,
                          "`%s` has static storage shared by every thread and is %s here (`%s`): concurrent calls from two "
                          "threads race on it" % (name, how, n.text()[:60]))
        else:
            chk.ok(rule, "%s:%s%s is never written after initialisation" % (tu.name, name, " (const)" if is_const else ""))


def _atomic_rule(chk, prog):
    rule = "C08-ATOMIC"
    chk.rule(rule, "cross-thread counters are modified only through janet_atomic_inc/dec (plain stores only before publication)")
    counters = (("JanetVM", "listener_count"), ("JanetVM", "auto_suspend"), ("JanetGCObject", "refcount"), ("anon", "refcount"))
    n = 0
    for fn in prog.all_funcs():
        for x in fn.nodes:
            tgt = None
            if x.k == "asg":
                tgt = x.kids[0]
            elif x.k == "un" and x.op in ("pre++", "post++", "pre--", "post--"):
                tgt = x.kids[0]
            if tgt is None or tgt.k != "mem" or tgt.field not in ("listener_count", "auto_suspend", "refcount"):
                continue
            n += 1
            chk.instance(rule)
            plain_init = x.k == "asg" and x.op == "=" and strip_casts(x.kids[1]).v in (0, 1)
            ctor = fn.name in ("janet_init", "janet_abstract_begin_threaded", "janet_ev_init_common", "janet_interpreter_interrupt_handled",
                               "janet_interpreter_interrupt", "janet_ev_init", "janet_deinit")
            if plain_init and ctor:
                chk.ok(rule, "%s: %s (before publication)" % (fn.name, x.text()))
            else:
                chk.violation(rule, fn.tu.name, fn.name, tgt.field, x.loc,
                              "`%s` modifies the cross-thread counter %s with a plain %s: increments and decrements from two threads "
                              "are lost" % (x.text()[:50], tgt.field, "store" if x.k == "asg" else "++/--"))
    atom = 0
    for fn in prog.all_funcs():
        for c in fn.calls("janet_atomic_inc", "janet_atomic_dec"):
            atom += 1
    chk.instance(rule)
    if atom >= 6:
        chk.ok(rule, "%d modifications go through janet_atomic_inc/dec" % atom)
    else:
        raise AnalysisBroken("only %d janet_atomic_inc/dec sites found" % atom)


def _refpair_rule(chk, prog):
    rule = "C08-REFPAIR"
    chk.rule(rule, "a threaded abstract gains one reference when written into a message and the reader keeps or drops exactly one")
    w = prog.need_func("marshal_one_abstract", "marsh.c")
    r = prog.need_func("unmarshal_one", "marsh.c")
    chk.analysed(w)
    chk.analysed(r)
    chk.instance(rule)
    inc = w.calls("janet_abstract_incref")
    if inc:
        chk.ok(rule, "marshal_one_abstract takes a reference for the message")
    else:
        chk.violation(rule, "marsh.c", w.name, "incref", w.loc, "a threaded abstract is written into a message without taking a reference: the sender may free it first")
    # reader: inside case LB_THREADED_ABSTRACT every path either stores into threaded_abstracts (keeps) or decrefs
    from jv.util import enclosing_cases
    arm = [n for n in r.nodes if "LB_THREADED_ABSTRACT" in enclosing_cases(n)]
    if not arm:
        raise AnalysisBroken("unmarshal_one: no LB_THREADED_ABSTRACT arm")
    keeps = [n for n in arm if n.k == "call" and n.callee == "janet_table_put" and any(is_mem(x, "threaded_abstracts", "JanetVM") for x in n.walk())]
    drops = [n for n in arm if n.k == "call" and n.callee == "janet_abstract_decref"]
    chk.instance(rule)
    if keeps and drops:
        chk.ok(rule, "unmarshal: first sight keeps the message's reference (threaded_abstracts), repeats and DECREF clean-up drop it")
    else:
        chk.violation(rule, "marsh.c", r.name, "keep-or-drop", arm[0].loc,
                      "the LB_THREADED_ABSTRACT arm no longer %s: the reference taken by the sender is %s" % (
                          "drops the extra reference" if keeps else "records the abstract in threaded_abstracts",
                          "leaked" if keeps else "never owned by this thread"))


def _transitref_rule(chk, prog):
    """A value in transit through a thread channel is a malloc'ed buffer of marshalled bytes; every shared abstract
    written into it holds one reference for the message.  Whoever throws such a buffer away without handing it to a
    reader has to give those references back first - by reading the bytes back in JANET_MARSHAL_DECREF mode - or the
    shared objects can never reach a count of zero."""
    rule = "C08-TRANSITREF"
    chk.rule(rule, "a transit buffer is freed only after its contents were read back (delivered to a reader, or in DECREF mode when nobody will read it)")
    n = 0
    for fn in prog.tus["ev.c"].funcs.values():
        frees = []
        for c in fn.calls("janet_buffer_deinit"):
            if c.args and is_ref(strip_casts(c.args[0])):
                frees.append(c)
        if not frees or not any(c2.callee in ("janet_marshal", "janet_unmarshal") for c2 in fn.calls()):
            continue
        chk.analysed(fn)

        readers = set(g.name for g in prog.tus["ev.c"].funcs.values()
                      if any(c2.callee == "janet_unmarshal" and any("JANET_MARSHAL_DECREF" in y.macro_names() for y in c2.walk()) or
                             (c2.callee == "janet_unmarshal" and any(d.k == "vardecl" and d.kids and any("JANET_MARSHAL_DECREF" in y.macro_names() for y in d.kids[0].walk())
                                                                      for d in g.nodes)) for c2 in g.calls()))

        def transfer(st, x, readers=readers):
            if x.k == "call" and (x.callee == "janet_unmarshal" or x.callee in readers):
                return st | frozenset(["read"])
            if x.k == "call" and x.callee == "janet_marshal":
                return st - frozenset(["read"])
            return st
        # may-analysis: the read-back sits in the OK arm of a janet_try, and the path that skips that arm is the one on
        # which the read-back itself raised - an attempt on some path to the free is what can be required
        IN, OUT = flow.forward(fn, frozenset(), transfer, lambda a, b: a | b)
        for x, st in flow.states_at(fn, IN, transfer):
            if x not in frees:
                continue
            n += 1
            chk.instance(rule)
            if "read" in st:
                chk.ok(rule, "%s: transit buffer freed after its contents were read back" % fn.name)
            else:
                chk.violation(rule, "ev.c", fn.name, "free-unread", x.loc,
                              "`%s` frees a transit buffer on a path on which its (possibly partial) contents were not read back: the "
                              "references that marshalling took on shared abstracts (thread channels, locks) are never dropped and "
                              "those objects are never released" % x.text()[:40])
    chk.floor(rule, 2, n)
    # and nothing may come between packing a value and handing it on: an early return after a successful pack drops the
    # packed message with the references it holds
    fn = prog.tus["ev.c"].funcs.get("janet_channel_push_with_lock")
    if fn is None:
        raise AnalysisBroken("janet_channel_push_with_lock not found")
    chk.analysed(fn)
    HAND_ON = ("janet_q_push", "janet_chan_post", "janet_schedule", "make_read_result")

    def t2(st, x):
        if x.k == "call" and x.callee == "janet_chan_pack":
            return st | {"packed"}
        if x.k == "call" and x.callee in HAND_ON and any(is_ref(y, "x") for a in x.args for y in a.walk()):
            return st - {"packed"}
        if x.k == "asg" and x.kids[0].k == "mem" and x.kids[0].field == "argj":
            return st - {"packed"}
        return st

    def e2(st, blk, succ, cond, truth):
        c = flow.strip_not(cond, truth)
        if c[0] is not None and c[0].k == "call" and c[0].callee == "janet_chan_pack" and c[1]:
            return st - {"packed"}          # pack reported failure: nothing was packed
        return st
    IN2, OUT2, T2 = flow.forward_paths(fn, frozenset(), t2, e2)
    for b, kind in flow.exits(fn):
        if kind != "return" or b.id not in OUT2:
            continue
        chk.instance(rule)
        if any("packed" in ps for ps in OUT2[b.id]):
            where = b.term or (b.elems[-1] if b.elems else None)
            chk.violation(rule, "ev.c", fn.name, "packed-then-dropped", where.loc if where is not None else fn.loc,
                          "janet_channel_push_with_lock can return after janet_chan_pack succeeded without queueing, posting or "
                          "delivering the packed value (the `closed` test comes after the pack): every give to a closed thread "
                          "channel leaks the message and the references it holds")
        else:
            chk.ok(rule, "janet_channel_push_with_lock: a packed value is always handed on before this return")


def _closeresult_rule(chk, prog):
    """What a waiter gets when its channel is closed must not depend on which thread closes it.  A close from the
    waiter's own thread schedules it directly ([:close chan] for a select clause, nil for a plain take / give); a close
    from another thread goes through janet_thread_chan_cb, whose CLOSE arm has to make the same distinction."""
    rule = "C08-CLOSERESULT"
    chk.rule(rule, "a waiter woken by a close gets the same result whether the closing thread is its own or another one")
    tu = prog.tus["ev.c"]
    close = tu.funcs.get("cfun_channel_close")
    cb = tu.funcs.get("janet_thread_chan_cb")
    if close is None or cb is None:
        raise AnalysisBroken("cfun_channel_close / janet_thread_chan_cb not found")
    chk.analysed(close)
    chk.analysed(cb)
    local = len(close.calls("make_close_result"))
    if local < 2:
        # the same-thread path no longer builds [:close chan] for both kinds of waiter: there is nothing to hold the
        # cross-thread path against (what the same-thread close must do is C06 / C07's clause, not this one)
        chk.note("C08-CLOSERESULT: cfun_channel_close builds %d close results itself; cross-thread agreement not decidable" % local)
        chk.floor(rule, 0, 0)
        return
    chk.instance(rule)
    remote = cb.calls("make_close_result")
    if remote:
        chk.ok(rule, "janet_thread_chan_cb: a close arriving from another thread can produce [:close chan] as the same-thread path does")
    else:
        chk.violation(rule, "ev.c", "janet_thread_chan_cb", "close-result", cb.loc,
                      "cfun_channel_close gives a select clause [:close chan] when it wakes the waiter itself (%d sites), but "
                      "janet_thread_chan_cb never builds that result: the same (ev/select tc) returns nil when tc is closed from "
                      "another thread" % local)
    # and the message must carry what the call-back needs to tell the two kinds of waiter apart
    chk.instance(rule)
    carried = [x for x in close.nodes if x.k == "asg" and x.kids[0].k == "mem" and x.kids[0].field == "argj"
               and any(y.k == "mem" and y.field == "mode" for y in x.kids[1].walk())]
    if len(carried) >= 2:
        chk.ok(rule, "cfun_channel_close: the hand-off message records whether the waiter is a select clause")
    else:
        chk.violation(rule, "ev.c", "cfun_channel_close", "close-message", close.loc,
                      "the close message posted to another thread does not carry the waiter's mode (select clause or plain "
                      "operation), so the receiving thread cannot produce the right result")


_run_locks = run


def _msgrec_rule(chk, prog):
    """A hand-off to another thread describes ONE waiter: the event is posted to that waiter's VM and carries its
    fiber, its saved generation and the mode it waits in (the mode decides how the payload is unpacked and which
    result shape the fiber gets).  All four must come from the same JanetChannelPending record; a field left over
    from an earlier message (the re-dispatch path receives one) addresses a different waiter."""
    rule = "C08-MSGREC"
    chk.rule(rule, "every message posted to janet_thread_chan_cb takes vm, fiber, sched_id and mode from one pending-waiter record")
    n = 0
    NEED = {"fiber": "fiber", "argi": "sched_id", "tag": "mode"}
    for fn in prog.tus["ev.c"].funcs.values():
        sites = [c for c in fn.calls("janet_ev_post_event")
                 if len(c.args) == 3 and is_ref(strip_casts(c.args[1]), "janet_thread_chan_cb") and is_ref(strip_casts(c.args[2]))]
        # (since the hand-off restructuring the channel code goes through janet_chan_post(vm, msg), which posts to
        # janet_thread_chan_cb itself - at once, or after the last channel mutex is released)
        sites += [c for c in fn.calls("janet_chan_post") if len(c.args) == 2 and is_ref(strip_casts(c.args[1]))]
        sites = [c for c in sites if fn.name not in ("janet_chan_post", "janet_chan_unlock")]
        if not sites:
            continue
        chk.analysed(fn)

        def src(x):
            x = strip_casts(x)
            if x.k == "mem" and is_ref(strip_casts(x.kids[0])) and "JanetChannelPending" in (strip_casts(x.kids[0]).t or ""):
                return ("rec", strip_casts(x.kids[0]).name, x.field)
            if x.v is not None:
                return ("const", x.v)
            return ("other", x.text()[:40])

        def transfer(st, x):
            if x.k == "asg" and x.op == "=":
                l = x.kids[0]
                if l.k == "mem" and is_ref(l.kids[0]) and "JanetEVGenericMessage" in (l.kids[0].t or ""):
                    key = (l.kids[0].name, l.field)
                    return frozenset(f for f in st if f[0] != key) | {(key, src(x.kids[1]))}
                if is_ref(l) and "JanetVM" in (l.t or ""):
                    key = (l.name, None)
                    return frozenset(f for f in st if f[0] != key) | {(key, src(x.kids[1]))}
            if x.k == "vardecl" and "JanetVM" in (x.t or "") and x.kids:
                key = (x.name, None)
                return frozenset(f for f in st if f[0] != key) | {(key, src(x.kids[0]))}
            return st
        init = frozenset(((p["n"], f), ("incoming",)) for p in fn.params if "JanetEVGenericMessage" in p.get("t", "")
                         for f in NEED)
        IN, OUT = flow.forward(fn, init, transfer, lambda a, b: a | b)
        for x, st in flow.states_at(fn, IN, transfer):
            if x not in sites:
                continue
            n += 1
            chk.instance(rule)
            m = strip_casts(x.args[-1]).name
            vmarg = strip_casts(x.args[0])
            got = {}
            for f in NEED:
                got[f] = set(v for (k, v) in st if k == (m, f))
            if is_ref(vmarg):
                got["vm"] = set(v for (k, v) in st if k == (vmarg.name, None))
            else:
                got["vm"] = {src(vmarg)}
            recs = set(v[1] for vs in got.values() for v in vs if v[0] == "rec")
            probs = []
            for f, want in list(NEED.items()) + [("vm", "thread")]:
                vs = got[f]
                if not vs:
                    probs.append("%s is never set" % f)
                for v in vs:
                    if v[0] == "rec" and v[2] == want:
                        continue
                    if f == "tag" and v[0] == "const":
                        continue
                    probs.append("%s comes from %s" % (f, "the message this function received" if v[0] == "incoming" else " ".join(map(str, v))))
            if len(recs) > 1:
                probs.append("fields come from different records %s" % sorted(recs))
            if probs:
                chk.violation(rule, "ev.c", fn.name, "post:%s" % (sorted(recs)[0] if recs else m), x.loc,
                              "message posted to janet_thread_chan_cb does not describe one waiter: %s" % "; ".join(probs))
            else:
                chk.ok(rule, "%s: message for `%s` (vm, fiber, sched_id, mode%s)" % (
                    fn.name, sorted(recs)[0], "" if not any(v[0] == "const" for v in got["tag"]) else " = constant"))
    chk.floor(rule, 5, n)


def _parkroot_rule(chk, prog):
    """A fiber parked on a THREADED channel is referenced only from the channel's pending queue, which lives outside
    every VM heap and is never traced.  Suspended tasks are not otherwise marked, so the registration itself must root
    the fiber (janet_thread_chan_cb / close drop the root).  Every path that parks on a possibly-threaded channel must
    therefore pass janet_gcroot - whatever kind of wait (plain or select clause) it is."""
    rule = "C08-PARKROOT"
    chk.rule(rule, "every path that queues the current fiber on a threaded channel's pending list roots the fiber")
    tu = prog.tus["ev.c"]
    n = 0
    for fname in ("janet_channel_push_with_lock", "janet_channel_pop_with_lock"):
        fn = tu.funcs.get(fname)
        if fn is None:
            raise AnalysisBroken("%s not found" % fname)
        chk.analysed(fn)
        flagvars = set(x.name for x in fn.nodes if x.k == "vardecl" and x.kids and strip_casts(x.kids[0]).k == "call"
                       and strip_casts(x.kids[0]).callee == "janet_chan_is_threaded")
        if not flagvars:
            raise AnalysisBroken("%s: no local holding janet_chan_is_threaded(channel)" % fname)

        def transfer(st, x):
            if x.k == "call" and x.callee == "janet_q_push" and x.args and \
                    any(y.k == "mem" and y.field in ("read_pending", "write_pending") for y in x.args[0].walk()):
                return st | {"parked"}
            if x.k == "call" and x.callee == "janet_gcroot":
                return st | {"rooted"}
            return st

        def edge(st, blk, succ, cond, truth):
            c = flow.compare_of(cond, truth)
            if c is None or c[2] is not None:
                return st
            l = strip_casts(c[0])
            if is_ref(l) and l.name in flagvars:
                want = "thr" if c[1] == "!=" else "nothr"
                other = "nothr" if want == "thr" else "thr"
                if other in st:
                    return None
                return st | {want}
            return st
        IN, OUT, T = flow.forward_paths(fn, frozenset(), transfer, edge=edge)
        for b, kind in flow.exits(fn):
            if kind != "return" or b.id not in OUT:
                continue
            S = OUT[b.id]
            if not any("parked" in ps for ps in S):
                continue
            n += 1
            chk.instance(rule)
            bad = [ps for ps in S if "parked" in ps and "nothr" not in ps and "rooted" not in ps]
            last = b.elems[-1] if b.elems else None
            if bad:
                chk.violation(rule, "ev.c", fname, "park-without-root", last.loc if last is not None else fn.loc,
                              "%s can return having queued the fiber on the pending list of a channel that may be threaded without "
                              "janet_gcroot: nothing else keeps a parked fiber alive, the next collection in this thread frees it and "
                              "the hand-off from the other thread resumes freed memory" % fname)
            else:
                chk.ok(rule, "%s: parking return at %s roots the fiber whenever the channel is threaded" % (fname, last.loc if last is not None else "?"))
    chk.floor(rule, 2, n)


def _payload_rule(chk, prog):
    """A value handed to a parked reader of a thread channel leaves the channel's queue and travels in the message
    (msg.argj).  janet_thread_chan_cb is the only place that holds it then: on every path that handles a READ message
    the payload must go somewhere - delivered to the fiber (unpacked and scheduled), forwarded to another waiter, or
    put back into the channel's items.  A path that just returns drops a sent value."""
    rule = "C08-PAYLOAD"
    chk.rule(rule, "janet_thread_chan_cb delivers, forwards or re-queues the payload of a read hand-off on every path")
    fn = prog.tus["ev.c"].funcs.get("janet_thread_chan_cb")
    if fn is None:
        raise AnalysisBroken("janet_thread_chan_cb not found")
    chk.analysed(fn)
    pay = None
    for x in fn.nodes:
        if x.k == "vardecl" and x.kids and strip_casts(x.kids[0]).k == "mem" and strip_casts(x.kids[0]).field == "argj":
            pay = x.name
    if pay is None:
        raise AnalysisBroken("janet_thread_chan_cb: payload variable (msg.argj) not found")
    READS = ("JANET_CP_MODE_READ", "JANET_CP_MODE_CHOICE_READ")
    readflags = set()
    for x in fn.nodes:
        if x.k == "vardecl" and x.kids and any(is_ref(y) and y.name in READS for y in x.kids[0].walk()):
            readflags.add(x.name)

    def uses(x):
        if x.k == "call" and any(is_ref(y, pay) for a in x.args for y in a.walk()):
            return True
        if x.k == "asg" and x.kids[0].k == "mem" and x.kids[0].field == "argj" and any(is_ref(y, pay) for y in x.kids[1].walk()):
            return True
        return False

    def transfer(st, x):
        return st | {"used"} if uses(x) else st

    def edge(st, blk, succ, cond, truth):
        c = flow.compare_of(cond, truth)
        if c is None:
            return st
        l, op, r = strip_casts(c[0]), c[1], (strip_casts(c[2]) if c[2] is not None else None)
        if r is None and is_ref(l) and l.name in readflags:
            if op == "!=":
                return st | {"read"}
            # the flag was computed from the mode tests taken on this very path
            return None if "read" in st else st | {"notread"}
        if r is not None and is_ref(r) and r.name in READS and op == "==":
            return st | {"read"}
        return st
    IN, OUT, T = flow.forward_paths(fn, frozenset(), transfer, edge=edge, cap=1024)
    n = 0
    for b, kind in flow.exits(fn):
        if b.id not in OUT:
            continue
        for ps in OUT[b.id]:
            if "read" in ps:
                n += 1
        bad = [ps for ps in OUT[b.id] if "read" in ps and "used" not in ps]
        chk.instance(rule)
        if bad:
            last = b.elems[-1] if b.elems else None
            chk.violation(rule, "ev.c", fn.name, "payload:%s" % pay, last.loc if last is not None else fn.loc,
                          "a path through janet_thread_chan_cb handles a read hand-off without delivering, forwarding or re-queueing "
                          "`%s`: when the addressed reader has moved on and nobody else waits, the value that was sent is dropped" % pay)
        else:
            chk.ok(rule, "janet_thread_chan_cb: every read path consumes `%s`" % pay)
    mode_tests = sum(1 for x in fn.nodes if x.k == "bin" and x.op == "==" and any(is_ref(y) and y.name in READS for y in x.walk()))
    if n < 1 or mode_tests < 2:
        raise AnalysisBroken("janet_thread_chan_cb: read paths not recognised (%d path classes, %d mode tests)" % (n, mode_tests))


def _recursive_rule(chk, prog):
    """ev/select locks the channel of every clause and holds those locks while it looks at the later clauses
    (cfun_channel_choice, checked by C08-LOCK).  Nothing stops a program from naming the same thread channel in two
    clauses, so the same thread then locks one mutex twice: the channel mutex has to be a recursive one, or that thread
    deadlocks on itself with the channel locked for everybody."""
    rule = "C08-RECURSIVE"
    chk.rule(rule, "the mutex used for channels is initialised as a recursive mutex (ev/select may lock one channel twice)")
    full = Program.load("default", units=["abstract.c", "ev.c"])
    fn = next((f for f in full.all_funcs() if f.name == "janet_os_mutex_init"), None)
    if fn is None:
        raise AnalysisBroken("janet_os_mutex_init not found")
    chk.analysed(fn)
    chk.instance(rule)
    settype = [c for c in fn.calls("pthread_mutexattr_settype") if len(c.args) == 2 and "PTHREAD_MUTEX_RECURSIVE" in (c.args[1].macro_names() + [c.args[1].text()])
               or (len(c.args) == 2 and c.args[1].v == 1)]
    inits = [c for c in fn.calls("pthread_mutex_init") if len(c.args) == 2]
    attr_used = any(strip_casts(c.args[1]).v != 0 for c in inits)
    if settype and inits and attr_used:
        chk.ok(rule, "janet_os_mutex_init: pthread_mutex_init with a PTHREAD_MUTEX_RECURSIVE attribute")
    else:
        chk.violation(rule, "abstract.c", fn.name, "recursive", fn.loc,
                      "janet_os_mutex_init does not create a recursive mutex (settype RECURSIVE: %s, attribute passed to "
                      "pthread_mutex_init: %s): (ev/select c c) on a thread channel locks the same mutex twice and the thread "
                      "deadlocks holding the channel" % (bool(settype), attr_used))
    # the premise: the select primitive really can hold one lock while taking another
    chk.instance(rule)
    ch = full.tus["ev.c"].funcs.get("cfun_channel_choice")
    locker = full.tus["ev.c"].funcs.get("chan_lock_args")
    if ch is None or not (ch.calls("janet_chan_lock") or (ch.calls("chan_lock_args") and locker is not None and locker.calls("janet_chan_lock"))):
        raise AnalysisBroken("cfun_channel_choice / janet_chan_lock not found")
    chk.ok(rule, "premise: cfun_channel_choice takes channel locks in a loop over its clauses")


def run(chk):   # noqa
    prog = Program.load("default")
    S = Summaries(prog)
    LA, results = _lock_rules(chk, prog, S)
    _guarded_rule(chk, prog, S, LA, results)
    _globals_rule(chk, prog)
    _atomic_rule(chk, prog)
    _refpair_rule(chk, prog)
    _transitref_rule(chk, prog)
    _closeresult_rule(chk, prog)
    _msgrec_rule(chk, prog)
    _parkroot_rule(chk, prog)
    _payload_rule(chk, prog)
    _recursive_rule(chk, prog)
    _sweepreset_rule(chk, prog)
    _supervisor_rule(chk, prog)
    _threadflag_rule(chk, prog)
    _withdraw_rule(chk, prog)
    _awaitreg_rule(chk, prog)
    _packflags_rule(chk, prog)
    _lockorder_rule(chk, prog)
    _rawtypes_rule(chk, prog)
    _decrefzero_rule(chk, prog)
    _selfpipe_rule(chk, prog)
    _bucketbound_rule(chk, prog)
    _deinitunpack_rule(chk, prog)
    _outboxdrain_rule(chk, prog)
    _lockeach_rule(chk, prog)
    _swapshape_rule(chk, prog)


def _sweepreset_rule(chk, prog):
    """Each thread keeps a table shared-abstract -> visited.  janet_mark_abstract sets the entry to true; janet_sweep
    drops the thread's reference for entries still false.  For that to work the next time round, the sweep has to put
    every SURVIVING entry back to false - unconditionally, not only on the branch that removes an entry."""
    rule = "C08-SWEEPRESET"
    chk.rule(rule, "janet_sweep resets the visited flag of every surviving shared-abstract entry (a reset not conditional on the flag itself)")
    fn = prog.need_func("janet_sweep", "gc.c")
    chk.analysed(fn)
    from jv.util import wraps
    stores = [x for x in fn.nodes if x.k == "asg" and x.op == "=" and x.kids[0].k == "mem" and x.kids[0].field == "value"
              and x.kids[0].kids and strip_casts(x.kids[0].kids[0]).k == "sub" and wraps(x.kids[1], "janet_wrap_false")]
    if not stores:
        raise AnalysisBroken("janet_sweep: no store of false into a threaded-abstract entry found")
    # control dependence read off the (structured) syntax tree: a store is conditional on the flag when an enclosing
    # if / conditional tests the entry's value
    uncond = []
    for x in stores:
        dep = False
        p_ = x.parent
        while p_ is not None:
            if p_.k in ("if", "cond", "while") and p_.kids and p_.kids[0] is not None and \
                    any(y.k == "mem" and y.field == "value" for y in p_.kids[0].walk()):
                dep = True
            p_ = p_.parent
        if not dep:
            uncond.append(x)
    chk.instance(rule)
    if uncond:
        chk.ok(rule, "janet_sweep: `%s` at %s runs for every entry that stays in the table" % (uncond[0].text()[:40], uncond[0].loc))
    else:
        chk.violation(rule, "gc.c", "janet_sweep", "visited-reset", stores[0].loc,
                      "every store of false into an entry's visited flag is under a test of that same flag (only entries being removed "
                      "are reset): an entry marked once stays `visited` for ever, later sweeps never drop this thread's reference and "
                      "the shared object is never released")


def _supervisor_rule(chk, prog):
    rule = "C08-SUPERVISOR"
    chk.rule(rule, "the thread body attaches the supervisor channel to the fiber it runs on every path to scheduling it")
    fn = next((f for f in prog.all_funcs() if f.name == "janet_go_thread_subr"), None)
    if fn is None:
        raise AnalysisBroken("janet_go_thread_subr not found")
    chk.analysed(fn)

    def transfer(st, x):
        if x.k == "asg" and x.op == "=" and x.kids[0].k == "mem" and x.kids[0].field == "supervisor_channel":
            rhs = strip_casts(x.kids[1])
            if rhs.k == "mem" and rhs.field == "user":
                return st | frozenset(["sup"])
        return st
    IN, OUT = flow.forward(fn, frozenset(), transfer, lambda a, b: a & b)
    n = 0
    for x, st in flow.states_at(fn, IN, transfer):
        if x.k == "call" and x.callee in ("janet_schedule", "janet_schedule_signal", "janet_schedule_soon"):
            n += 1
            chk.instance(rule)
            if "sup" in st:
                chk.ok(rule, "janet_go_thread_subr: supervisor channel attached before `%s`" % x.text()[:40])
            else:
                chk.violation(rule, "ev.c", fn.name, "supervisor", x.loc,
                              "`%s` is reached on a path that has not stored janet_vm.user into fiber->supervisor_channel: what that "
                              "fiber reports (its result, its error) never reaches the supervisor channel given to ev/thread" % x.text()[:40])
    if n == 0:
        raise AnalysisBroken("janet_go_thread_subr: no scheduling call found")


def _threadflag_rule(chk, prog):
    """Whether a channel locks and copies its values is decided by its is_threaded field, while whether it can be
    reached from other threads is decided by how it was allocated (janet_abstract_threaded).  The two must agree."""
    rule = "C08-THREADFLAG"
    chk.rule(rule, "a channel allocated as a shared (threaded) abstract is initialised as threaded, and only such a channel is")
    n = 0
    for fn in prog.tus["ev.c"].funcs.values():
        inits = [c for c in fn.calls("janet_chan_init") if len(c.args) == 3]
        if not inits:
            continue
        allocs = {}
        for x in fn.nodes:
            tgt = rhs = None
            if x.k == "vardecl" and x.kids:
                tgt, rhs = x.name, strip_casts(x.kids[0])
            elif x.k == "asg" and x.op == "=" and is_ref(x.kids[0]):
                tgt, rhs = x.kids[0].name, strip_casts(x.kids[1])
            if tgt and rhs is not None and rhs.k == "call" and rhs.callee in ("janet_abstract", "janet_abstract_threaded"):
                allocs.setdefault(tgt, set()).add(rhs.callee)
        for c in inits:
            obj = strip_casts(c.args[0])
            kinds = allocs.get(obj.name) if is_ref(obj) else None
            if not kinds or len(kinds) != 1:
                continue      # unmarshal picks the allocation at run time; not decided here
            n += 1
            chk.analysed(fn)
            chk.instance(rule)
            kind = next(iter(kinds))
            flag = strip_casts(c.args[2]).v
            want = 1 if kind == "janet_abstract_threaded" else 0
            if flag is not None and (flag != 0) == (want != 0):
                chk.ok(rule, "%s: %s and is_threaded = %d" % (fn.name, kind, flag))
            else:
                chk.violation(rule, "ev.c", fn.name, "init:%s" % kind, c.loc,
                              "`%s` initialises a channel allocated with %s as %s: %s" % (
                                  c.text()[:50], kind, "unthreaded" if want else "threaded",
                                  "it is shared between threads by pointer but takes no lock and does not copy its values"
                                  if want else "it packs values and locks although it cannot leave its thread"))
    chk.floor(rule, 4, n)


def _withdraw_rule(chk, prog):
    """A parked channel operation leaves (fiber, &janet_vm) in the channel's pending queue.  Entries are only ever
    removed by the opposite operation, which then posts to that VM.  For a thread channel the VM belongs to another
    thread: if the waiter gave up and its thread has exited, the entry points at a dead VM.  So somebody on the
    abandon / teardown side has to withdraw registrations."""
    rule = "C08-WITHDRAW"
    chk.rule(rule, "registrations (fiber, thread VM) left in a thread channel's pending queues are withdrawn when the wait is abandoned or the thread tears down")
    tu = prog.tus["ev.c"]
    removers = []
    for fn in tu.funcs.values():
        for c in fn.calls("janet_q_pop"):
            if c.args and any(y.k == "mem" and y.field in ("read_pending", "write_pending") for y in c.args[0].walk()):
                removers.append(fn)
                break
    if len(removers) < 3:
        raise AnalysisBroken("only %d functions pop the pending queues" % len(removers))
    # a withdrawal has to pick entries by whose they are: it compares an entry's fiber or thread with the one leaving
    withdrawers = []
    for fn in prog.all_funcs():
        if fn.calls("janet_schedule", "janet_schedule_signal", "janet_cancel", "janet_ev_post_event"):
            continue      # wakes the entries it finds: a consumer (close), not a withdrawal
        for x in fn.nodes:
            if x.k == "bin" and x.op in ("==", "!="):
                for side in x.kids:
                    y = strip_casts(side)
                    if y.k == "mem" and y.rec == "JanetChannelPending" and y.field in ("thread", "fiber"):
                        withdrawers.append(fn)
    regs = []
    for fn in tu.funcs.values():
        for x in fn.nodes:
            if x.k == "asg" and x.op == "=" and x.kids[0].k == "mem" and x.kids[0].field == "thread" and x.kids[0].rec == "JanetChannelPending":
                regs.append((fn, x))
    if len(regs) < 2:
        raise AnalysisBroken("registration sites (pending.thread = &janet_vm) not found")
    for fn, x in regs:
        chk.analysed(fn)
        chk.instance(rule)
        if withdrawers:
            chk.ok(rule, "%s: registration can be withdrawn by %s" % (fn.name, withdrawers[0].name))
        else:
            chk.violation(rule, "ev.c", fn.name, "pending.thread", x.loc,
                          "`%s` registers this thread's VM in the channel, and no function selects pending entries by their fiber or thread in order to remove "
                          "them (only %s pop the queues, on the opposite operation): once the waiter has given up and its thread has exited, the next give / take posts to a VM that "
                          "no longer exists" % (x.text()[:40], ", ".join(sorted(set(f.name for f in removers)))))


def _awaitreg_rule(chk, prog):
    """janet_channel_push / janet_channel_pop register the running fiber in the channel (mode 0, or 1 for select) when
    the operation has to wait, and the caller then suspends with janet_await; the next give / take wakes it.  Mode 2 -
    the public janet_channel_give / janet_channel_take used by event-loop callbacks - reports `would block` WITHOUT
    registering anybody.  A function that suspends after a mode-2 call sleeps with nobody holding a reference to it."""
    rule = "C08-AWAITREG"
    chk.rule(rule, "a function that suspends with janet_await uses only the registering modes of the channel operations, never janet_channel_give / janet_channel_take (mode 2)")
    n = 0
    for fn in prog.all_funcs():
        if not fn.calls("janet_await"):
            continue
        ops = fn.calls("janet_channel_push", "janet_channel_pop", "janet_channel_push_with_lock", "janet_channel_pop_with_lock",
                       "janet_channel_give", "janet_channel_take")
        if not ops:
            continue
        chk.analysed(fn)
        for c in ops:
            n += 1
            chk.instance(rule)
            mode = strip_casts(c.args[2]) if len(c.args) == 3 else None
            if c.callee in ("janet_channel_give", "janet_channel_take") or (mode is not None and mode.k == "int" and mode.v == 2):
                chk.violation(rule, fn.tu.name, fn.name, "nonregistering:" + c.callee, c.loc,
                              "%s suspends with janet_await but calls `%s`, the never-block variant that returns `would block` without "
                              "queueing a JanetChannelPending entry: the fiber (and for a thread channel its whole thread) is never woken" % (
                                  fn.name, c.text()[:60]))
            else:
                chk.ok(rule, "%s: `%s` registers the fiber before it suspends" % (fn.name, c.text()[:50]))
    chk.floor(rule, 4, n)


def _packflags_rule(chk, prog):
    """A thread-channel message is an arbitrary value: it may contain cycles and the same mutable object in several
    places.  janet_chan_pack therefore marshals with the seen-table on (no JANET_MARSHAL_NO_CYCLES), and pack and
    unpack pass the same flags so that what one writes the other accepts."""
    rule = "C08-PACKFLAGS"
    chk.rule(rule, "janet_chan_pack and janet_chan_unpack marshal / unmarshal with the same flags, and without JANET_MARSHAL_NO_CYCLES")
    tu = prog.tus["ev.c"]
    byname = {f.name: f for f in tu.funcs.values()}
    pack, unpack = byname.get("janet_chan_pack"), byname.get("janet_chan_unpack")
    if pack is None or unpack is None:
        raise AnalysisBroken("janet_chan_pack / janet_chan_unpack not found")
    def flags(fn, callee, idx):
        out = []
        for c in fn.calls(callee):
            a = c.args[idx]
            if strip_casts(a).k == "ref":       # flags kept in a local: read its initialiser
                for d in fn.nodes:
                    if d.k == "vardecl" and d.name == strip_casts(a).name and d.kids:
                        a = d.kids[0]
            # JANET_MARSHAL_DECREF only tells the reader to drop the references a discarded message carries
            names = sorted(set(m for y in a.walk() for m in y.macro_names() if m.startswith("JANET_MARSHAL_")) - {"JANET_MARSHAL_DECREF"})
            out.append((c, names, a))
        return out
    w = flags(pack, "janet_marshal", 3)
    r = flags(unpack, "janet_unmarshal", 2)
    if not w or not r:
        raise AnalysisBroken("janet_chan_pack / janet_chan_unpack: marshal call not found")
    chk.analysed(pack)
    chk.analysed(unpack)
    rflags = r[0][1]
    for (c, names, a) in w:
        chk.instance(rule)
        if "JANET_MARSHAL_NO_CYCLES" in names:
            chk.violation(rule, "ev.c", "janet_chan_pack", "no-cycles", c.loc,
                          "`%s` packs a message with JANET_MARSHAL_NO_CYCLES: a value that reaches itself can no longer be sent (the "
                          "marshaller recurses to its depth limit) and an object that occurs twice in one message arrives as two copies" % c.text()[:70])
        elif names != rflags:
            chk.violation(rule, "ev.c", "janet_chan_pack", "flag-mismatch", c.loc,
                          "janet_chan_pack marshals with %s but janet_chan_unpack unmarshals with %s" % (names, rflags))
        else:
            chk.ok(rule, "pack and unpack both use %s" % names)
    chk.floor(rule, 1, len(w))


def _lockorder_rule(chk, prog):
    """Whoever holds one channel mutex while taking another needs a global order on them: two threads that
    (ev/select a b) and (ev/select b a) otherwise end up holding one each and waiting for the other.  The clauses'
    own order is not such an order - it is the program's.  The one place that takes several channel mutexes has to
    sort them (by address) first."""
    rule = "C08-LOCKORDER"
    chk.rule(rule, "a loop that takes the mutexes of several channels takes them in sorted (address) order, not in the order the program named them")
    tu = prog.tus["ev.c"]
    n = 0
    for fn in tu.funcs.values():
        # loops that pile mutexes up: some path from a lock in the body comes round to the loop condition again without
        # passing an unlock or a *_with_lock helper (those return with the mutex released, which C08-LOCK establishes)
        cands = [lp for lp in fn.nodes if lp.k in ("for", "while", "do") and any(c.k == "call" and c.callee == LOCK for c in lp.walk())]
        loops = []
        for lp in cands:
            body_ids = set(y.id for y in lp.walk())
            cond = lp.kids[1] if lp.k == "for" else (lp.kids[0] if lp.k == "while" else lp.kids[-1])
            if cond is None:
                continue

            def tr(st, x, body_ids=body_ids):
                if x.k == "call" and x.id in body_ids:
                    if x.callee == LOCK:
                        return frozenset(["held"])
                    if x.callee == UNLOCK or (x.callee or "").endswith("_with_lock"):
                        return frozenset()
                return st
            IN, OUT = flow.forward(fn, frozenset(), tr, lambda a, b: a | b)
            cond_ids = set(y.id for y in cond.walk())
            if any("held" in st for x, st in flow.states_at(fn, IN, tr) if x.id in cond_ids):
                loops.append(lp)
        if not loops:
            continue
        order = {id(x): i for i, x in enumerate(fn.nodes)}
        for lp in loops:
            n += 1
            chk.instance(rule)
            chk.analysed(fn)
            sorts = [c for c in fn.calls("qsort") if order[id(c)] < order[id(lp)]]
            # what is locked must be what was sorted
            locked = [c for c in lp.walk() if c.k == "call" and c.callee == LOCK][0]
            arr = set(y.name for y in locked.args[0].walk() if y.k == "ref")
            ok = any(arr & set(y.name for y in c.args[0].walk() if y.k == "ref") for c in sorts)
            if ok:
                chk.ok(rule, "%s: the channels are sorted before their mutexes are taken" % fn.name)
            else:
                chk.violation(rule, "ev.c", fn.name, "clause-order", lp.loc,
                              "%s takes channel mutexes one after the other in the order the program listed the channels: two "
                              "threads that select over the same two thread channels in opposite clause order each get one mutex "
                              "and wait for the other for ever" % fn.name)
    if n == 0:
        chk.note("%s: no loop takes several channel mutexes without releasing them in between; nothing to order" % rule)
    chk.floor(rule, 0, n)


def _rawtypes_rule(chk, prog):
    """janet_chan_pack lets a few value types travel through a thread channel as they are and marshals the rest into a
    transit buffer; janet_chan_unpack has the mirror-image list.  A type that is in one list and not in the other is
    either unmarshalled although it was never marshalled, or reported as a failed message after it was taken out of
    the queue."""
    rule = "C08-RAWTYPES"
    chk.rule(rule, "janet_chan_pack and janet_chan_unpack agree on the value types that cross a thread channel unmarshalled")
    from jv.util import switch_cases, case_name
    tu = prog.tus["ev.c"]
    fs = {}
    for name in ("janet_chan_pack", "janet_chan_unpack"):
        f = tu.funcs.get(name)
        if f is None:
            raise AnalysisBroken(name + " not found")
        chk.analysed(f)
        sw = [x for x in f.nodes if x.k == "switch"]
        if not sw:
            raise AnalysisBroken(name + ": no switch over the value type")
        fs[name] = set(case_name(c) for c in switch_cases(sw[0]) if c.k == "case")
    raw_p = fs["janet_chan_pack"] - {"JANET_BUFFER"}
    raw_u = fs["janet_chan_unpack"] - {"JANET_BUFFER"}
    chk.instance(rule)
    if raw_p == raw_u and raw_p:
        chk.ok(rule, "both list %s" % sorted(raw_p))
    else:
        chk.violation(rule, "ev.c", "janet_chan_unpack", "raw-types", tu.funcs["janet_chan_unpack"].loc,
                      "janet_chan_pack passes %s through unmarshalled, janet_chan_unpack expects %s: only in pack %s, only in unpack %s - "
                      "such a message is consumed from the queue and then reported as an error (or read as bytes it does not contain)" % (
                          sorted(raw_p), sorted(raw_u), sorted(raw_p - raw_u), sorted(raw_u - raw_p)))
    chk.floor(rule, 1)


def _decrefzero_rule(chk, prog):
    """Shared abstracts are reference counted across threads; whoever takes the count to zero has to run the
    finalizer and free the object, because nobody else will.  A decrement whose result is thrown away is right only
    where another reference is known to remain."""
    rule = "C08-DECREFZERO"
    chk.rule(rule, "the result of janet_abstract_decref is tested for zero (and the object released then), except where a remaining reference was just established")
    n = 0
    full = Program.load("default", units=["marsh.c", "gc.c", "ev.c", "abstract.c"])
    for fn in full.all_funcs():
        for c in fn.calls("janet_abstract_decref"):
            n += 1
            chk.instance(rule)
            chk.analysed(fn)
            p_ = c.parent
            while p_ is not None and p_.k in ("cast", "paren"):
                p_ = p_.parent
            tested = p_ is not None and p_.k == "bin" and p_.op in ("==", "!=", "<=", ">") 
            if tested:
                chk.ok(rule, "%s: `%s` tested" % (fn.name, c.text()[:40]))
                continue
            # untested: acceptable where the path has just found the object in this heap's table (its reference remains)
            IN, T = flow.condition_facts(fn, cap=24)
            ok = False
            for x, S in flow.states_at(fn, IN, T):
                if x is c:
                    ok = bool(S) and all(any(op in ("==", "!=") and ln is not None and
                                             any(y.k == "ref" and y.name == "check" for y in ln.walk()) or
                                             (ln is not None and any("threaded_abstracts" in z.text() for z in ln.walk()))
                                             for (op, l, r, toks, ln, rn) in ps) for ps in S)
            if ok:
                chk.ok(rule, "%s: `%s` - this heap's own reference was just found in its table" % (fn.name, c.text()[:40]))
            else:
                chk.violation(rule, fn.tu.name, fn.name, "result-dropped", c.loc,
                              "`%s` drops a reference and ignores whether it was the last one: when a discarded message held the only "
                              "reference to a thread channel or lock, that object is never finalized or freed" % c.text()[:40])
    chk.floor(rule, 3, n)


def _selfpipe_rule(chk, prog):
    """janet_ev_post_event hands a completion or a channel hand-off to another thread by writing one record to that
    thread's self-pipe and treats a write that cannot complete as fatal (a few retries on EAGAIN, then janet_assert).
    That is sound only while the write end blocks when the pipe is full; a non-blocking write end turns ~1600 hand-offs
    in flight to a busy thread into a process abort that loses every one of them."""
    rule = "C08-SELFPIPE"
    chk.rule(rule, "the write end of the event loop's self-pipe is created blocking (janet_make_pipe mode evaluated against its O_NONBLOCK conditions)")
    from rules.c16 import selfpipe_write_end_nonblocking
    post = prog.need_func("janet_ev_post_event", "ev.c")
    chk.analysed(post)
    chk.instance(rule)
    fatal = any(c.k == "call" and c.callee in ("janet_assert", "JANET_EXIT", "abort", "exit", "janet_exit") or
                "janet_assert" in c.macro_names() for c in post.nodes)
    mode, nonblock, call = selfpipe_write_end_nonblocking(prog)
    if nonblock is None:
        raise AnalysisBroken("janet_make_pipe: the O_NONBLOCK call for handles[1] was not recognised")
    if not fatal:
        chk.ok(rule, "janet_ev_post_event no longer treats a failed write as fatal")
        chk.note("%s: premise gone (no janet_assert in janet_ev_post_event)" % rule)
    elif nonblock:
        chk.violation(rule, "ev.c", "janet_ev_setup_selfpipe", "write-end", call.loc,
                      "the self-pipe is made with mode %s, for which janet_make_pipe sets O_NONBLOCK on the write end; janet_ev_post_event "
                      "gives up after a few EAGAIN results and aborts the process once more messages are in flight to a thread than its "
                      "pipe holds - every hand-off still queued is lost" % mode)
    else:
        chk.ok(rule, "self-pipe mode %s keeps the write end blocking" % mode)
    chk.floor(rule, 1)


def _bucketbound_rule(chk, prog):
    """A JanetTable's entries are spread over `capacity` buckets; `count` is how many are occupied.  A loop that
    visits buckets by index and stops at `count` sees only the entries that happen to hash low.  For
    janet_vm.threaded_abstracts that means an exiting thread releases only some of its shared references."""
    rule = "C08-BUCKETBOUND"
    chk.rule(rule, "every loop that indexes the bucket array of a JanetTable is bounded by that table's capacity, not its count")
    n = 0
    for fn in prog.all_funcs():
        for x in fn.nodes:
            if x.k != "for" or len(x.kids) < 3:
                continue
            cond = x.kids[1] if len(x.kids) >= 4 else None
            if cond is None:
                continue
            bound = [y for y in cond.walk() if y.k == "mem" and y.rec == "JanetTable" and y.field in ("count", "capacity", "deleted")]
            if not bound:
                continue
            body = x.kids[-1]
            # the loop subscripts `.data` of a table (directly or through a local initialised from it) with the loop variable
            datas = set(d.name for d in fn.nodes if d.k == "vardecl" and d.kids and any(
                y.k == "mem" and y.rec == "JanetTable" and y.field == "data" for y in d.kids[0].walk()))
            subs = [y for y in body.walk() if y.k == "sub" and (
                any(z.k == "mem" and z.rec == "JanetTable" and z.field == "data" for z in y.kids[0].walk()) or
                (is_ref(strip_casts(y.kids[0])) and strip_casts(y.kids[0]).name in datas))]
            if not subs:
                continue
            n += 1
            chk.instance(rule)
            chk.analysed(fn)
            if all(b.field == "capacity" for b in bound):
                chk.ok(rule, "%s: bucket loop at %s runs to capacity" % (fn.name, x.loc))
            else:
                chk.violation(rule, fn.tu.name, fn.name, "loop:%s" % bound[0].field, x.loc,
                              "the loop at %s indexes a table's bucket array but stops at `%s`: entries are spread over all `capacity` buckets, "
                              "so only those that hash into the first few are visited (for janet_vm.threaded_abstracts: a thread that exits "
                              "keeps references on the shared abstracts it skipped, and they are never released)" % (x.loc, bound[0].text()))
    chk.floor(rule, 3, n)


def _outboxdrain_rule(chk, prog):
    """Hand-offs to other threads made while a channel mutex is held are parked in janet_vm.chan_outbox and posted
    when the last mutex is released.  One locked section can park several (closing a channel wakes every waiter), and
    nothing else ever posts them: the release must empty the outbox, i.e. pop in a loop that ends only when the pop
    finds nothing."""
    rule = "C08-OUTBOXDRAIN"
    chk.rule(rule, "every pop from janet_vm.chan_outbox is the condition of a loop (the release posts all parked hand-offs, not one)")
    tu = prog.tus["ev.c"]
    n = 0
    pushes = 0
    for fn in sorted(tu.funcs.values(), key=lambda f: f.name):
        for c in fn.nodes:
            if c.k != "call" or c.callee not in ("janet_q_pop", "janet_q_push") or not c.kids:
                continue
            args = c.kids[1:] if (c.kids and c.kids[0].k in ("ref", "cast") and c.kids[0].text().endswith(c.callee)) else c.kids
            if not any(y.k == "mem" and y.field == "chan_outbox" for a in args for y in a.walk()):
                continue
            if c.callee == "janet_q_push":
                pushes += 1
                continue
            n += 1
            chk.instance(rule)
            chk.analysed(fn)
            looped = False
            for l in fn.nodes:
                if l.k in ("while", "do") and l.kids:
                    cond = l.kids[0] if l.k == "while" else l.kids[-1]
                    if cond is not None and any(y is c for y in cond.walk()):
                        looped = True
                if l.k == "for" and l.kids[1] is not None and any(y is c for y in l.kids[1].walk()):
                    looped = True
            if looped:
                chk.ok(rule, "%s: the pop at %s is a loop condition" % (fn.name, c.loc))
            else:
                chk.violation(rule, "ev.c", fn.name, "pop-once", c.loc,
                              "%s pops janet_vm.chan_outbox at %s outside a loop condition: a locked section that parked several "
                              "hand-offs (channel close with several waiting threads) gets one of them posted and the other threads "
                              "are never woken" % (fn.name, c.loc))
    if pushes == 0 and n == 0:
        chk.note("%s: this tree has no chan_outbox (hand-offs are posted directly); nothing to decide" % rule)
        chk.floor(rule, 0, 0)
        return
    chk.floor(rule, 1, n)


def _deinitunpack_rule(chk, prog):
    """A value queued in a thread channel is a packed message: a malloc'ed image that owns descriptors dup'ed by
    janet_stream_marshal and references on shared abstracts.  Only unmarshalling it in discard mode
    (janet_chan_unpack(chan, &item, 1)) gives those back; freeing the buffer alone leaks one descriptor or pinned
    object per undelivered message."""
    rule = "C08-DEINITUNPACK"
    chk.rule(rule, "janet_chan_deinit passes every item it pops from a threaded channel's queue to janet_chan_unpack before the queue is freed")
    fn = prog.need_func("janet_chan_deinit", "ev.c")
    chk.analysed(fn)
    chk.instance(rule)
    pops = [c for c in fn.calls("janet_q_pop") if "items" in c.text()]
    unp = fn.calls("janet_chan_unpack")
    if not pops:
        # not drained with janet_q_pop: an in-place walk has to cover both segments of a wrapped ring, which only the
        # pop knows how to do; report it rather than stop
        chk.violation(rule, "ev.c", "janet_chan_deinit", "items", fn.loc,
                      "janet_chan_deinit no longer takes the undelivered messages off the queue with janet_q_pop: a walk over head .. tail "
                      "visits nothing when the ring has wrapped, and every message still queued keeps its transit buffer and the "
                      "references it owns")
        chk.floor(rule, 1)
        return
    loops = [x for x in fn.nodes if x.k in ("while", "for", "do") and any(c in pops for c in x.walk() if c.k == "call")]
    ok = bool(unp) and any(any(c in unp for c in l.walk() if c.k == "call") for l in loops)
    if ok:
        chk.ok(rule, "janet_chan_deinit: popped items go through janet_chan_unpack")
    else:
        chk.violation(rule, "ev.c", "janet_chan_deinit", "items", pops[0].loc,
                      "janet_chan_deinit drains the item queue of a threaded channel without passing the messages to janet_chan_unpack: "
                      "the descriptors and shared-abstract references a packed message owns are never released")
    chk.floor(rule, 1)


def _lockeach_rule(chk, prog):
    """ev/select takes the mutex of every clause's channel up front and gives each back clause by clause (the mutexes
    are recursive, so a channel named twice is locked twice).  Taking it once per DISTINCT channel while still giving
    it back once per CLAUSE releases it early: the second clause then works on an unlocked channel and unlocks a mutex
    its thread does not hold."""
    rule = "C08-LOCKEACH"
    chk.rule(rule, "chan_lock_args locks one mutex per clause: the lock call in its loop is under no condition and the loop skips nothing")
    fn = prog.tus["ev.c"].funcs.get("chan_lock_args")
    if fn is None:
        chk.note("%s: no chan_lock_args in this tree; nothing to decide" % rule)
        chk.floor(rule, 0, 0)
        return
    chk.analysed(fn)
    chk.instance(rule)
    locks = fn.calls(LOCK)
    bad = None
    if not locks:
        raise AnalysisBroken("chan_lock_args no longer calls janet_chan_lock")
    for c in locks:
        q = c.parent
        while q is not None and q.k not in ("for", "while", "do"):
            if q.k == "if":
                bad = (c, "sits under `if (%s)`" % q.kids[0].text()[:40])
            q = q.parent
        if q is not None and any(y.k == "continue" for y in q.walk()):
            bad = (c, "shares its loop with a `continue`")
    if bad is None:
        chk.ok(rule, "chan_lock_args: one unconditional lock per clause")
    else:
        chk.violation(rule, "ev.c", "chan_lock_args", "skip", bad[0].loc,
                      "the lock call of chan_lock_args %s, so some clauses take no mutex although every clause gives one back: with the same "
                      "thread channel in two clauses the first clause's unlock releases it, the second clause runs unlocked and its unlock "
                      "fails (`cannot release lock`)" % bad[1])
    chk.floor(rule, 1)


def _swapshape_rule(chk, prog):
    """ev/rselect shuffles its clauses in place before it hands them to ev/select.  Each step has to be a swap - the
    two slots exchange their contents - or a clause is lost and another one duplicated, and the select that follows is
    not the one the program wrote."""
    rule = "C08-SWAPSHAPE"
    chk.rule(rule, "each step of the clause shuffle of ev/rselect is an exchange of two slots of argv (tmp = a[x]; a[x] = a[y]; a[y] = tmp)")
    fn = prog.tus["ev.c"].funcs.get("fisher_yates_args")
    if fn is None:
        chk.note("%s: no fisher_yates_args in this tree; nothing to decide" % rule)
        chk.floor(rule, 0, 0)
        return
    chk.analysed(fn)
    chk.instance(rule)

    def idx(e):
        e = strip_casts(e)
        if e.k == "sub" and is_ref(strip_casts(e.kids[0])):
            return strip_casts(e.kids[0]).name, e.kids[1].text().replace(" ", "")
        return None
    tmp = [d for d in fn.nodes if d.k == "vardecl" and d.kids and idx(d.kids[0])]
    stores = [x for x in fn.nodes if x.k == "asg" and x.op == "=" and idx(x.kids[0])]
    ok = False
    if tmp and len(stores) == 2:
        a = idx(tmp[0].kids[0])                                   # tmp = arr[x]
        s1 = next((s_ for s_ in stores if idx(s_.kids[0]) == a), None)                # arr[x] = arr[y]
        s2 = next((s_ for s_ in stores if s_ is not s1), None)
        if s1 is not None and s2 is not None and idx(s1.kids[1]) is not None:
            b = idx(s1.kids[1])
            ok = idx(s2.kids[0]) == b and is_ref(strip_casts(s2.kids[1])) and strip_casts(s2.kids[1]).name == tmp[0].name and a[0] == b[0]
    if ok:
        chk.ok(rule, "fisher_yates_args exchanges two slots per step")
    else:
        chk.violation(rule, "ev.c", "fisher_yates_args", "swap", fn.loc,
                      "a step of fisher_yates_args is not an exchange of two slots (%s): a clause is overwritten and another duplicated, so "
                      "ev/rselect waits on a different set of clauses than it was given" % "; ".join(x.text()[:40] for x in stores))
    chk.floor(rule, 1)
