"""C04 - tables, structs, arrays and buffers as maps and sequences: structural clauses.

C04-ARITY  R-ARITY over the container cfuns (table.c, struct.c, array.c, buffer.c, tuple.c, corelib.c)
C04-FIND   the result of janet_table_find / janet_dict_find / janet_struct_find is dereferenced only when
           known non-NULL (tested, or room guaranteed by a rehash / an earlier non-NULL find on this path)
C04-OWNER  storage fields of tables/arrays/buffers/queues are written only by their owning modules
C04-GROW   32-bit size arithmetic in the growth primitives is dominated by an INT32_MAX guard
C04-INDEX  indexed reads/writes of container storage in the generic accessors are bounds-checked
"""
from jv import flow
from jv.facts import Program, AnalysisBroken
from jv.callgraph import CallGraph
from jv.util import wraps, is_ref, is_mem, strip_casts
from rules.arity import run_arity

EXPLANATION = (
    "Static rules over the container modules: (ARITY) path-sensitive interval analysis of argc proving every "
    "argv[k] read in every container C function is preceded by an arity guarantee; (FIND) path-sensitive nullness "
    "of hash-slot lookups; (OWNER) who-may-write query for the storage fields (capacity, data, count, deleted, "
    "queue indices); (GROW) dominance of INT32_MAX guards over 32-bit size arithmetic in the growth primitives; "
    "(INDEX) symbolic bounds facts (0 <= i, i < length) dominating every subscript of container storage in the "
    "generic accessors.  Necessary memory-safety and ownership conditions; equivalence with a finite-map model "
    "over operation histories is not decided.")
ASSUMPTIONS = ["default Linux configuration", "tombstone/rehash thresholds and iteration order are value-level and not decided"]

ARITY_UNITS = {"table.c", "struct.c", "array.c", "buffer.c", "tuple.c", "corelib.c"}

FINDERS = ("janet_table_find", "janet_dict_find", "janet_struct_find")

# (record, field) -> {unit: reason}
OWNERS = {
    ("JanetTable", "capacity"): {"table.c": "owner"},
    ("JanetTable", "data"): {"table.c": "owner"},
    ("JanetTable", "count"): {"table.c": "owner", "gc.c": "weak-table sweep removes dead entries"},
    ("JanetTable", "deleted"): {"table.c": "owner", "gc.c": "weak-table sweep removes dead entries"},
    ("JanetArray", "capacity"): {"array.c": "owner"},
    ("JanetArray", "data"): {"array.c": "owner"},
    ("JanetBuffer", "capacity"): {"buffer.c": "owner", "io.c": "cfun_io_printf_impl_x frees its private temporary buffer"},
    ("JanetBuffer", "data"): {"buffer.c": "owner", "io.c": "cfun_io_printf_impl_x frees its private temporary buffer"},
    ("JanetQueue", "capacity"): {"ev.c": "owner (janet_q_*)"},
    ("JanetQueue", "data"): {"ev.c": "owner (janet_q_*)"},
    ("JanetQueue", "head"): {"ev.c": "owner (janet_q_*)"},
    ("JanetQueue", "tail"): {"ev.c": "owner (janet_q_*)"},
    # a struct's bucket count is a function of the pair count it was begun with: equality, hashing and ordering of
    # structs all read both, so a finished struct never has its length corrected in place - it is rebuilt
    ("JanetStructHead", "length"): {"struct.c": "janet_struct_begin sizes the bucket array from it"},
    ("JanetStructHead", "capacity"): {"struct.c": "janet_struct_begin sizes the bucket array from it"},
    ("JanetTupleHead", "length"): {"tuple.c": "janet_tuple_begin sizes the allocation from it"},
}
OWNER_FUNCS = {
    "io.c": {"cfun_io_printf_impl_x"},
    "ev.c": {"janet_q_init", "janet_q_maybe_resize", "janet_q_pop", "janet_q_push", "janet_q_push_head"},
    "gc.c": {"janet_sweep"},
    "struct.c": {"janet_struct_begin"},
    "tuple.c": {"janet_tuple_begin"},
}

GROW_FUNCS = ("janet_array_ensure", "janet_array_push", "janet_array_setcount", "janet_buffer_ensure",
              "janet_buffer_extra", "janet_buffer_setcount", "janet_buffer_push_bytes", "janet_buffer_push_u8",
              "janet_buffer_push_u16", "janet_buffer_push_u32", "janet_buffer_push_u64")


FIND_EXCEPTIONS = {
    ("janet_table_rehash", "newkv"): "re-insertion into the freshly allocated, empty bucket array whose size every caller "
                                     "computes from the live count (janet_tablen(2 * count + 2)): a free slot always exists",
}


def _find_rule(chk, prog):
    rule = "C04-FIND"
    chk.rule(rule, "hash-slot lookup results are dereferenced only when known non-NULL")
    for fn in prog.all_funcs():
        calls = [c for c in fn.calls(*FINDERS)]
        if not calls or fn.name in FINDERS:
            continue
        chk.analysed(fn)
        # variables assigned from a finder
        src = {}
        for n in fn.nodes:
            rhs = None
            if n.k == "vardecl" and n.kids:
                var, rhs = n.name, n.kids[0]
            elif n.k == "asg" and n.op == "=" and is_ref(n.kids[0]):
                var, rhs = n.kids[0].name, n.kids[1]
            if rhs is not None:
                r = strip_casts(rhs)
                if r.k == "call" and r.callee in FINDERS:
                    src.setdefault(var, []).append(n.id)
        if not src:
            continue

        def args_text(call):
            return ", ".join(a.text() for a in call.args)

        def transfer(facts, n):
            if n.k == "call" and n.callee == "janet_table_rehash" and n.args:
                return facts | frozenset([("reh", n.args[0].text())])
            if n.k == "call" and n.callee and "table_" in n.callee and n.callee not in FINDERS and n.callee != "janet_table_rehash":
                return frozenset(f for f in facts if f[0] not in ("nnargs", "reh"))
            var = rhs = None
            if n.k == "vardecl" and n.name in src:
                var, rhs = n.name, (n.kids[0] if n.kids else None)
            elif n.k == "asg" and n.op == "=" and is_ref(n.kids[0]) and n.kids[0].name in src:
                var, rhs = n.kids[0].name, n.kids[1]
            if var is not None:
                facts = frozenset(f for f in facts if f[1] != var)
                r = strip_casts(rhs) if rhs is not None else None
                if r is not None and r.k == "call" and r.callee in FINDERS:
                    at = args_text(r)
                    facts = facts | frozenset([("src", var, at)])
                    tab = r.args[0].text() if r.args else ""
                    if ("nnargs", at) in facts or ("reh", tab) in facts:
                        facts = facts | frozenset([("nn", var)])
            return facts

        def edge(facts, blk, succ, cond, truth):
            if cond is None:
                return facts
            c = flow.compare_of(cond, truth)
            if c is None:
                return facts
            lhs, op, rhs = c
            l = strip_casts(lhs)
            r = strip_casts(rhs) if rhs is not None else None
            if r is not None and r.k == "ref" and r.name in src and l.v == 0:
                l, r = r, l
            if l.k == "ref" and l.name in src and (r is None or r.v == 0):
                if op == "!=":
                    add = [("nn", l.name)]
                    for f in facts:
                        if f[0] == "src" and f[1] == l.name:
                            add.append(("nnargs", f[2]))
                    return facts | frozenset(add)
            return facts

        IN, OUT, T = flow.forward_paths(fn, frozenset(), transfer, edge)
        for b, S in IN.items():
            for n in fn.blocks[b].elems:
                base = None
                if n.k == "mem" and n.d.get("arrow") and is_ref(strip_casts(n.kids[0])):
                    base = strip_casts(n.kids[0]).name
                elif n.k == "un" and n.op == "*" and is_ref(strip_casts(n.kids[0])):
                    base = strip_casts(n.kids[0]).name
                elif n.k == "sub" and is_ref(strip_casts(n.kids[0])):
                    base = strip_casts(n.kids[0]).name
                if base in src:
                    # only when the variable currently holds a finder result
                    holds = all(any(f[0] == "src" and f[1] == base for f in s) for s in S)
                    if holds:
                        chk.instance(rule)
                        if all(("nn", base) in s for s in S):
                            chk.ok(rule, "%s: %s at %s" % (fn.name, n.text()[:40], n.loc))
                        elif (fn.name, base) in FIND_EXCEPTIONS:
                            chk.exception(rule, "%s:%s" % (fn.name, base), FIND_EXCEPTIONS[(fn.name, base)])
                            chk.ok(rule, "%s: %s (exception)" % (fn.name, n.text()[:40]))
                        else:
                            chk.violation(rule, fn.tu.name, fn.name, "%s:%s" % (base, n.text()[:30]), n.loc,
                                          "`%s` dereferences the slot returned by a hash lookup that may be NULL here "
                                          "(empty or saturated table): no NULL test, rehash or earlier successful lookup on this path" % n.text()[:50])
                S = T(S, n)
    chk.floor(rule, 20)


def _owner_rule(chk, prog):
    rule = "C04-OWNER"
    chk.rule(rule, "storage fields of JanetTable/JanetArray/JanetBuffer/JanetQueue are written only by their owners")
    for fn in prog.all_funcs():
        for n in fn.nodes:
            tgt = None
            if n.k == "asg":
                tgt = n.kids[0]
            elif n.k == "un" and n.op in ("pre++", "post++", "pre--", "post--"):
                tgt = n.kids[0]
            if tgt is None or tgt.k != "mem":
                continue
            key = (tgt.rec, tgt.field)
            if key not in OWNERS:
                continue
            chk.instance(rule)
            allowed = OWNERS[key]
            unit = fn.tu.name
            if unit in allowed and (unit not in OWNER_FUNCS or fn.name in OWNER_FUNCS[unit]):
                chk.ok(rule, "%s.%s written in %s:%s (%s)" % (key[0], key[1], unit, fn.name, allowed[unit]))
            else:
                chk.violation(rule, unit, fn.name, "%s.%s" % key, n.loc,
                              "`%s` writes %s.%s outside its owner %s: the container's invariants "
                              "(count <= capacity, storage sized by capacity / length) are maintained only there" % (
                                  n.text()[:60], key[0], key[1],
                                  "function(s) %s" % sorted(OWNER_FUNCS[unit]) if unit in allowed else "module(s) %s" % sorted(allowed)))
    chk.floor(rule, 50)


def _grow_rule(chk, prog):
    rule = "C04-GROW"
    chk.rule(rule, "32-bit size arithmetic in the growth primitives is dominated by an INT32_MAX guard on an operand")
    found = 0
    for name in GROW_FUNCS:
        fn = prog.func(name)
        if fn is None:
            raise AnalysisBroken("growth primitive %s not found" % name)
        chk.analysed(fn)

        def vars_of(e):
            out = set()
            for x in e.walk():
                if x.k == "ref" and x.d.get("d") in ("var", "parm"):
                    out.add(x.name)
                elif x.k == "mem":
                    out.add(x.text())
            return out

        def transfer(st, n):
            # a growth call on the same object has done the overflow check for count/capacity arithmetic
            if n.k == "call" and n.callee in ("janet_buffer_extra", "janet_buffer_ensure", "janet_array_ensure",
                                              "janet_buffer_setcount", "janet_array_setcount") and n.args:
                o = n.args[0].text()
                return st | frozenset([o + "->count", o + "->capacity"])
            return st

        def edge(st, blk, succ, cond, truth):
            if cond is not None and any("INT32_MAX" in x.macro_names() for x in cond.walk()):
                return st | frozenset(vars_of(cond))
            return st

        IN, OUT = flow.forward(fn, frozenset(), transfer, lambda a, b: a & b, edge=edge)
        for b, st in IN.items():
            for n in fn.blocks[b].elems:
                st = transfer(st, n)
                if n.k == "bin" and n.op in ("+", "*") and n.t in ("int", "int32_t") and n.v is None:
                    ops = vars_of(n)
                    if not ops:
                        continue
                    # arithmetic performed in a wider type is exempt: operands cast to 64 bit
                    if any(k.k == "cast" and (k.t or "") in ("int64_t", "size_t", "uint64_t", "long") for k in n.kids):
                        continue
                    found += 1
                    chk.instance(rule)
                    if ops & st:
                        chk.ok(rule, "%s: %s guarded" % (fn.name, n.text()))
                    else:
                        chk.violation(rule, fn.tu.name, fn.name, n.text()[:40], n.loc,
                                      "32-bit `%s` on a count/capacity is not dominated by a comparison of an operand "
                                      "with INT32_MAX: signed overflow before the allocation" % n.text())
    if found < 4:
        raise AnalysisBroken("only %d size computations found in the growth primitives" % found)


def _tombstone_rule(chk, prog):
    rule = "C04-TOMBSTONE"
    chk.rule(rule, "a table slot's value becomes nil only in fresh-memory initialisers; removal writes the (nil key, false value) tombstone")
    n = 0
    for fn in prog.all_funcs():
        if fn.tu.name not in ("table.c", "gc.c", "util.c", "wrap.c", "struct.c"):
            continue
        stores = [x for x in fn.nodes if x.k == "asg" and x.op == "=" and x.kids[0].k == "mem" and x.kids[0].rec == "JanetKV"]
        for x in stores:
            names = set(strip_casts(x.kids[1]).macro_names())
            for wn in ("janet_wrap_nil", "janet_wrap_false"):
                if wraps(x.kids[1], wn):
                    names.add(wn)
            fld = x.kids[0].field
            if fld == "value" and "janet_wrap_nil" in names:
                n += 1
                chk.instance(rule)
                if "empty" in fn.name:
                    chk.ok(rule, "%s initialises fresh slots" % fn.name)
                else:
                    chk.violation(rule, fn.tu.name, fn.name, "value=nil", x.loc,
                                  "`%s` turns a slot into an empty one: lookups stop probing there, so keys that were "
                                  "inserted behind it become unreachable" % x.text()[:60])
            if fld == "key" and "janet_wrap_nil" in names and "empty" not in fn.name:
                n += 1
                chk.instance(rule)
                base = strip_casts(x.kids[0].kids[0]).text()
                paired = any(y.kids[0].field == "value" and strip_casts(y.kids[0].kids[0]).text() == base
                             and wraps(y.kids[1], "janet_wrap_false") for y in stores)
                if paired:
                    chk.ok(rule, "%s: removal writes the tombstone (nil, false)" % fn.name)
                else:
                    chk.violation(rule, fn.tu.name, fn.name, "key=nil", x.loc,
                                  "a slot's key is cleared without writing the `false` tombstone value")
    if n < 4:
        raise AnalysisBroken("only %d slot clearing stores found" % n)


def _probesym_rule(chk, prog):
    """A hash lookup that starts at the key's home bucket walks [home, capacity) and then wraps to [0, home).  The two
    loops are one probe sequence cut in two, so they must treat a bucket identically: same tests in the same order, same
    results.  A tombstone rule or an early return present in one half only makes keys whose chain crosses the end of
    the array unreachable."""
    rule = "C04-PROBESYM"
    chk.rule(rule, "the two halves of every wrap-around probe loop (home..capacity, then 0..home) have identical bodies")
    n = 0
    for fn in prog.all_funcs():
        if fn.tu.name not in ("util.c", "struct.c", "table.c", "symcache.c"):
            continue
        fors = sorted([x for x in fn.nodes if x.k == "for" and x.kids[0] is not None and x.kids[1] is not None], key=lambda x: x.ln)

        def init(x):
            for y in x.kids[0].walk():
                if y.k == "asg" and y.op == "=":
                    return strip_casts(y.kids[1])
                if y.k == "vardecl" and y.kids:
                    return strip_casts(y.kids[0])
            return None
        for a, b in zip(fors, fors[1:]):
            ia, ib = init(a), init(b)
            if ia is None or ib is None or a.parent is not b.parent:
                continue
            cb = strip_casts(b.kids[1])
            if ib.v == 0 and ia.v is None and cb.k == "bin" and cb.op == "<" and strip_casts(cb.kids[1]).text() == ia.text():
                n += 1
                chk.instance(rule)
                chk.analysed(fn)
                def sig(x):
                    return (x.k, x.d.get("op"), x.d.get("n"), x.d.get("field"), x.v, tuple(sig(k) for k in x.kids))
                if sig(a.kids[3]) == sig(b.kids[3]):
                    chk.ok(rule, "%s: both halves of the probe at %s / %s treat a bucket the same way" % (fn.name, a.loc, b.loc))
                else:
                    chk.violation(rule, fn.tu.name, fn.name, "halves", b.loc,
                                  "the wrap-around half of the probe loop (%s) differs from the first half (%s): a key whose collision "
                                  "chain crosses the end of the bucket array is looked up by different rules than one that does not" % (b.loc, a.loc))
    chk.floor(rule, 2, n)


def run(chk):
    prog = Program.load("default")
    cg = CallGraph(prog)
    n = run_arity(chk, "C04-ARITY", prog, cg, ARITY_UNITS,
                  "container cfuns read argv[k] only where argc > k is established")
    chk.floor("C04-ARITY", 95)
    _find_rule(chk, prog)
    _owner_rule(chk, prog)
    _grow_rule(chk, prog)
    _tombstone_rule(chk, prog)
    _index_rule(chk, prog)
    _setcount_rule(chk, prog)
    _probesym_rule(chk, prog)
    _restore_rule(chk, prog)
    _growtharg_rule(chk, prog)
    _ensuresum_rule(chk, prog)
    _capnull_rule(chk, prog)
    _chainbuild_rule(chk, prog)
    _validatefirst_rule(chk, prog)
    _clearkeeps_rule(chk, prog)
    _overwriteat_rule(chk, prog)
    from jv.report import must_fire
    must_fire(chk, "C04-ENSURESUM", _ensuresum_rule, "c04_ensuresum.c", ["bad_product", "bad_sum"])


def _restore_rule(chk, prog):
    """save / lower / restore of a container's count: the lowered count is a transient state, so nothing that can raise
    may run while it is in force (a raise would leave the elements above it cut off)."""
    from jv.summaries import Summaries
    rule = "C04-RESTORE"
    chk.rule(rule, "a container count that is saved, overwritten and later restored is not left overwritten by a raise in between")
    summ = Summaries(prog, CallGraph(prog))

    def count_store(n):
        if n.k == "asg" and n.kids[0].k == "mem" and n.kids[0].field == "count" and n.kids[0].rec in ("JanetBuffer", "JanetArray"):
            return n.kids[0].text(), strip_casts(n.kids[1])
        return None
    for fn in prog.all_funcs():
        stores = [(n, count_store(n)) for n in fn.nodes if count_store(n)]
        if not stores:
            continue
        chk.instance(rule)
        chk.analysed(fn)
        # locals that hold a saved count: `int32_t old = X->count`
        saved = {}
        for n in fn.nodes:
            src = None
            if n.k == "vardecl" and n.kids:
                src, name = strip_casts(n.kids[0]), n.name
            elif n.k == "asg" and n.op == "=" and n.kids[0].k == "ref":
                src, name = strip_casts(n.kids[1]), n.kids[0].name
            if src is not None and src.k == "mem" and src.field == "count" and src.rec in ("JanetBuffer", "JanetArray"):
                saved[name] = src.text()
        restores = [(n, st) for n, st in stores if n.op == "=" and is_ref(st[1]) and saved.get(st[1].name) == st[0]]
        if not restores:
            chk.ok(rule, "%s: %d count store(s), none restores a saved count" % (fn.name, len(stores)))
            continue
        restore_ids = set(n.id for n, _ in restores)
        lvals = set(st[0] for _, st in restores)

        def transfer(st, n):
            cs = count_store(n)
            if cs and cs[0] in lvals:
                if n.id in restore_ids:
                    return st - frozenset([cs[0]])
                return st | frozenset([cs[0]])
            return st
        IN, OUT, T = flow.forward_paths(fn, frozenset(), transfer)
        for b, S in IN.items():
            for n in fn.blocks[b].elems:
                if n.k == "call" and any(s for s in S) and summ.call_in(fn, n, summ.may_panic):
                    lv = sorted(set().union(*S))[0]
                    chk.violation(rule, fn.tu.name, fn.name, "%s:%s" % (lv, n.callee or "indirect"), n.loc,
                                  "`%s` can raise while `%s` holds a temporary value that %s restores only afterwards from its saved copy: "
                                  "after the raise the container stays cut to the temporary count and the elements above it are lost" % (
                                      n.text()[:50], lv, fn.name))
                S = T(S, n)
        chk.ok(rule, "%s: restore idiom, no raising call while the count is overwritten" % fn.name)
    chk.floor(rule, 30)


def _ensuresum_rule(chk, prog):
    """janet_buffer_ensure / janet_array_ensure take the wanted capacity as an int32 and do nothing when it is not larger
    than the current one.  A caller that computes that capacity as `count + n` (or a product) in 32 bits gets a negative
    number once the sum passes INT32_MAX, the call silently does nothing, and whatever relied on the room having been
    made - a raw write behind count, or `the storage will not move while I read from it` - is wrong.  (janet_buffer_extra
    is the checked way to ask for n more bytes.)"""
    rule = "C04-ENSURESUM"
    chk.rule(rule, "a capacity handed to janet_buffer_ensure / janet_array_ensure is not a 32-bit sum or product that can wrap unnoticed")
    n = 0
    for fn in prog.all_funcs():
        if fn.tu.name in ("shell.c",):
            continue
        sites = [c for c in fn.calls("janet_buffer_ensure", "janet_array_ensure") if len(c.args) == 3]
        sites = [c for c in sites if strip_casts(c.args[1]).k == "bin" and strip_casts(c.args[1]).op in ("+", "*")
                 and (strip_casts(c.args[1]).t or "") in ("int", "int32_t")
                 and any(y.k in ("mem", "ref") and y.v is None and y.d.get("d") != "enum" for y in c.args[1].walk())]
        if not sites:
            continue
        chk.analysed(fn)
        IN, T = flow.condition_facts(fn)
        for x, S in flow.states_at(fn, IN, T):
            if x not in sites:
                continue
            n += 1
            chk.instance(rule)
            e = strip_casts(x.args[1])
            ops = set(y.text().replace(" ", "") for y in e.walk() if y.k in ("mem", "ref") and y.v is None)
            ok = bool(S)
            for ps in S:
                good = False
                for (op, l, r, toks, ln, rn) in ps:
                    both = [z for z in (ln, rn) if z is not None]
                    if any("INT32_MAX" in y.macro_names() or y.v == 2 ** 31 - 1 for z in both for y in z.walk()) and \
                            any(y.text().replace(" ", "") in ops for z in both for y in z.walk() if y.k in ("mem", "ref")):
                        good = True
                if not good:
                    ok = False
            if ok:
                chk.ok(rule, "%s: `%s` after an INT32_MAX guard on an operand" % (fn.name, e.text()[:40]))
            else:
                chk.violation(rule, fn.tu.name, fn.name, "%s:%s" % (x.callee, e.text()[:30].replace(" ", "")), x.loc,
                              "`%s` computes the wanted capacity in 32-bit arithmetic with no overflow guard: for a container close to "
                              "2 GB (or, for a product, a few hundred MB) the value is negative, the call does nothing, and the code after "
                              "it runs without the room it asked for" % x.text()[:70])
    chk.floor(rule, 0, n)


def _growtharg_rule(chk, prog):
    rule = "C04-GROWTHARG"
    chk.rule(rule, "every call of janet_array_ensure / janet_buffer_ensure passes a growth factor that is at least 1")
    for fn in prog.all_funcs():
        sites = [n for n in fn.nodes if n.k == "call" and n.callee in ("janet_array_ensure", "janet_buffer_ensure") and len(n.args) == 3]
        if not sites:
            continue
        chk.analysed(fn)
        IN = T = None
        for c in sites:
            chk.instance(rule)
            g = strip_casts(c.args[2])
            if g.v is not None:
                if g.v >= 1:
                    chk.ok(rule, "%s: growth %d" % (fn.name, g.v))
                else:
                    chk.violation(rule, fn.tu.name, fn.name, "growth:%s" % c.callee, c.loc,
                                  "`%s` passes the constant growth factor %d: capacity * growth is not a capacity" % (c.text()[:50], g.v))
                continue
            if IN is None:
                IN, T = flow.condition_facts(fn)
            gt = g.text()
            ok = True
            for x, S in flow.states_at(fn, IN, T):
                if x is not c:
                    continue
                for ps in S:
                    good = False
                    for (op, l, r, toks, ln, rn) in ps:
                        if l == gt and rn is not None and rn.v is not None and ((op == ">=" and rn.v >= 1) or (op == ">" and rn.v >= 0)):
                            good = True
                    if not good:
                        ok = False
            if ok:
                chk.ok(rule, "%s: growth `%s` tested >= 1 on every path" % (fn.name, gt))
            else:
                chk.violation(rule, fn.tu.name, fn.name, "growth:%s" % c.callee, c.loc,
                              "`%s` passes a growth factor `%s` that no dominating test bounds below by 1: with growth <= 0 the new "
                              "capacity capacity * growth is zero or negative and the reallocation aborts the process with 'out of memory'" % (
                                  c.text()[:50], gt))
    chk.floor(rule, 8)


def _setcount_rule(chk, prog):
    rule = "C04-SETCOUNT"
    chk.rule(rule, "growing an array/buffer through setcount fills the new slots (nil / zero) before publishing the new count")
    for unit, fname, kind in (("array.c", "janet_array_setcount", "array"), ("buffer.c", "janet_buffer_setcount", "buffer")):
        fn = prog.need_func(fname, unit)
        chk.analysed(fn)
        from jv.linear import linear
        fill_nodes = set()
        oldvars = set(x.name for x in fn.nodes if x.k == "vardecl" and x.kids and strip_casts(x.kids[0]).k == "mem"
                      and strip_casts(x.kids[0]).field == "count")

        def is_old(e):
            e = strip_casts(e)
            return (e.k == "mem" and e.field == "count") or (is_ref(e) and e.name in oldvars)
        for n in fn.nodes:
            # for (i = <old count>; i < count; i++) data[i] = nil
            if n.k == "for" and n.kids[1] is not None:
                stores = [x for x in n.kids[3].walk() if x.k == "asg"]
                init = [x for x in (n.kids[0].walk() if n.kids[0] is not None else []) if (x.k == "asg" and x.op == "=") or (x.k == "vardecl" and x.kids)]
                cond = strip_casts(n.kids[1])
                if len(stores) == 1 and stores[0].kids[0].k == "sub" and wraps(stores[0].kids[1], "janet_wrap_nil") and init:
                    start = init[0].kids[1] if init[0].k == "asg" else init[0].kids[0]
                    if is_old(start) and cond.k == "bin" and cond.op == "<" and is_ref(strip_casts(cond.kids[1]), "count"):
                        fill_nodes.add(n.kids[1].id)
            # memset(data + <old count>, 0, count - <old count>)
            if n.k == "call" and n.callee == "memset" and len(n.args) == 3 and any(x.k == "mem" and x.field == "data" for x in n.args[0].walk()):
                a0 = strip_casts(n.args[0])
                a2 = linear(n.args[2])
                if a0.k == "bin" and a0.op == "+" and is_old(a0.kids[1]) and n.args[1].v == 0 and a2 is not None:
                    off = strip_casts(a0.kids[1]).text()
                    if a2[1] == 0 and a2[0].get("count") == 1 and a2[0].get(off) == -1 and len(a2[0]) == 2:
                        fill_nodes.add(n.id)

        def transfer(st, n):
            if n.id in fill_nodes:
                return st | frozenset(["filled"])
            return st

        def edge(st, blk, succ, cond, truth):
            if cond is None:
                return st
            c = flow.compare_of(cond, truth)
            if c is None or c[2] is None:
                return st
            l, op, r = strip_casts(c[0]), c[1], strip_casts(c[2])
            # count <= old count on this edge: nothing new is exposed
            if op == "<=" and is_ref(l, "count") and r.k == "mem" and r.field == "count":
                return st | frozenset(["notgrow"])
            if op == ">=" and is_ref(r, "count") and l.k == "mem" and l.field == "count":
                return st | frozenset(["notgrow"])
            return st
        IN, OUT, T = flow.forward_paths(fn, frozenset(), transfer, edge)
        found = False
        for b, S in IN.items():
            for n in fn.blocks[b].elems:
                if n.k == "asg" and n.op == "=" and n.kids[0].k == "mem" and n.kids[0].field == "count" and is_ref(strip_casts(n.kids[1]), "count"):
                    found = True
                    chk.instance(rule)
                    if all(("notgrow" in s) or ("filled" in s) for s in S):
                        chk.ok(rule, "%s: new slots filled before count is raised" % fname)
                    else:
                        chk.violation(rule, unit, fname, "fill", n.loc,
                                      "%s can raise count without having filled exactly the slots between the old and the new count (nil / zero from "
                                      "the OLD COUNT, not from the old capacity): values left behind by an earlier shrink become elements" % fname)
                S = T(S, n)
        if not found:
            raise AnalysisBroken("%s: store of count not found" % fname)


# ------------------------------------------------------------------------------------------------
def _len_key(e):
    """canonical key of a length expression: X->count, tuple/string length of a pointer variable, or text"""
    e = strip_casts(e)
    names = e.macro_names()
    for m, tag in (("janet_tuple_length", "tuplen"), ("janet_string_length", "strlen"), ("janet_struct_length", "structlen")):
        if m in names:
            for x in e.walk():
                if x.k == "ref" and x.d.get("d") in ("var", "parm"):
                    return "%s:%s" % (tag, x.name)
    return e.text()


def _index_rule(chk, prog):
    rule = "C04-INDEX"
    chk.rule(rule, "value.c accessors: every subscript of array/buffer/tuple/string storage is dominated by 0 <= i and i < length")
    tu = prog.tus["value.c"]
    total = 0
    for fn in tu.funcs.values():
        # container pointer locals
        kinds = {}
        for n in fn.nodes:
            if n.k == "vardecl":
                t = (n.t or "").replace("const ", "").replace(" ", "")
                if t in ("JanetArray*", "JanetBuffer*"):
                    kinds[n.name] = "rec"
                elif t == "Janet*" and n.kids and "janet_unwrap_tuple" in strip_casts(n.kids[0]).macro_names() + [strip_casts(n.kids[0]).callee or ""]:
                    kinds[n.name] = "tuple"
                elif t == "uint8_t*" and n.kids and any(m in ("janet_unwrap_string", "janet_unwrap_symbol", "janet_unwrap_keyword")
                                                      for m in strip_casts(n.kids[0]).macro_names() + [strip_casts(n.kids[0]).callee or ""]):
                    kinds[n.name] = "string"
        sites = []
        for n in fn.nodes:
            if n.k != "sub":
                continue
            b = strip_casts(n.kids[0])
            idx = strip_casts(n.kids[1])
            if idx.v is not None:
                continue
            if b.k == "mem" and b.field == "data" and b.rec in ("JanetArray", "JanetBuffer") and is_ref(strip_casts(b.kids[0])):
                sites.append((n, idx, strip_casts(b.kids[0]).name + "->count"))
            elif b.k == "ref" and kinds.get(b.name) == "tuple":
                sites.append((n, idx, "tuplen:" + b.name))
            elif b.k == "ref" and kinds.get(b.name) == "string":
                sites.append((n, idx, "strlen:" + b.name))
        if not sites:
            continue
        chk.analysed(fn)
        # locals that hold a length: len = janet_tuple_length(tuple)
        len_alias = {}
        for n in fn.nodes:
            if n.k == "vardecl" and n.kids:
                k = _len_key(n.kids[0])
                if k.startswith(("tuplen:", "strlen:")) or k.endswith("->count"):
                    len_alias[n.name] = k
        unsigned_vars = set(n.name for n in fn.nodes if n.k == "vardecl" and (n.t or "").startswith(("uint", "size_t", "unsigned")))

        def transfer(facts, n):
            tgt = None
            if n.k == "vardecl":
                tgt = n.name
                src = strip_casts(n.kids[0]) if n.kids else None
            elif n.k == "asg" and is_ref(n.kids[0]):
                tgt = n.kids[0].name
                src = strip_casts(n.kids[1]) if n.op == "=" else None
            elif n.k == "un" and n.op in ("pre++", "post++", "pre--", "post--") and is_ref(n.kids[0]):
                tgt, src = n.kids[0].name, None
            if tgt is not None:
                facts = frozenset(f for f in facts if f[1] != tgt and not (len(f) > 2 and f[2].endswith(":" + tgt)))
                if src is not None and src.k == "call" and src.callee == "getter_checkint" and len(src.args) >= 3:
                    k3 = _len_key(src.args[2])
                    facts = facts | frozenset([("ge0", tgt), ("lt", tgt, len_alias.get(k3, k3))])
                return facts
            if n.k == "call" and n.callee in ("janet_array_setcount", "janet_buffer_setcount", "janet_array_ensure", "janet_buffer_ensure") and len(n.args) >= 2:
                # setcount(X, i + 1) makes i < X->count
                o = strip_casts(n.args[0])
                a = strip_casts(n.args[1])
                if n.callee.endswith("setcount") and a.k == "bin" and a.op == "+" and a.kids[1].v == 1 and is_ref(strip_casts(a.kids[0])):
                    facts = facts | frozenset([("lt", strip_casts(a.kids[0]).name, o.text() + "->count")])
                else:
                    # the count may have changed: forget comparisons against it
                    facts = frozenset(f for f in facts if not (f[0] == "lt" and f[2] == o.text() + "->count"))
            return facts

        def edge(facts, blk, succ, cond, truth):
            if cond is None:
                return facts
            c = flow.compare_of(cond, truth)
            if c is None or c[2] is None:
                return facts
            l, op, r = strip_casts(c[0]), c[1], strip_casts(c[2])
            if r.k == "ref" and l.k != "ref":
                l, r = r, l
                op = {"<": ">", ">": "<", "<=": ">=", ">=": "<=", "==": "==", "!=": "!="}[op]
            if l.k != "ref":
                return facts
            if r.v is not None:
                if (op == ">=" and r.v >= 0) or (op == ">" and r.v >= -1) or (op == "==" and r.v >= 0):
                    facts = facts | frozenset([("ge0", l.name)])
                return facts
            if op == "<":
                k4 = _len_key(c[2] if strip_casts(c[2]) is r else c[0])
                return facts | frozenset([("lt", l.name, len_alias.get(k4, k4))])
            return facts

        IN, OUT, T = flow.forward_paths(fn, frozenset(), transfer, edge)
        ids = {s[0].id: s for s in sites}
        for b, S in IN.items():
            for n in fn.blocks[b].elems:
                if n.id in ids:
                    node, idx, key = ids[n.id]
                    total += 1
                    chk.instance(rule)
                    if idx.k == "call" and idx.callee == "getter_checkint" and len(idx.args) >= 3:
                        k2 = _len_key(idx.args[2])
                        k2 = len_alias.get(k2, k2)
                        if k2 == key:
                            chk.ok(rule, "%s: %s indexed by getter_checkint(..., %s)" % (fn.name, n.text()[:30], key))
                        else:
                            chk.violation(rule, "value.c", fn.name, n.text()[:40], n.loc,
                                          "index is range-checked against %s but the storage is %s long" % (k2, key))
                    elif idx.k != "ref":
                        chk.violation(rule, "value.c", fn.name, n.text()[:40], n.loc, "index expression `%s` is not a checked variable" % idx.text())
                    else:
                        v = idx.name
                        ge0 = v in unsigned_vars or all(("ge0", v) in f for f in S)
                        lt = all(("lt", v, key) in f for f in S)
                        if ge0 and lt:
                            chk.ok(rule, "%s: %s with 0 <= %s < %s" % (fn.name, n.text(), v, key))
                        else:
                            miss = []
                            if not ge0:
                                miss.append("0 <= %s" % v)
                            if not lt:
                                miss.append("%s < %s" % (v, key))
                            chk.violation(rule, "value.c", fn.name, n.text()[:40], n.loc,
                                          "`%s` is reached on a path where %s has not been established" % (n.text(), " and ".join(miss)))
                S = T(S, n)
    if total < 6:
        raise AnalysisBroken("value.c: only %d variable subscripts of container storage analysed" % total)


# functions after which the container itself is gone: what its capacity field says no longer matters
CAPNULL_DYING = {
    "janet_buffer_deinit": "the buffer is being destroyed",
    "janet_table_deinit": "the table is being destroyed",
    "janet_q_deinit": "the queue is being destroyed",
    "janet_deinit_block": "the collector is freeing the object that owns the storage",
}


def _capnull_rule(chk, prog):
    """A growable container trusts its capacity: ensure() returns without allocating when the wanted size fits, and
    the element store that follows writes through data.  Whoever releases data, or stores a pointer that may be NULL
    there, therefore has to leave capacity 0 on the same path - otherwise the next in-range push writes through NULL
    or into freed memory."""
    rule = "C04-CAPNULL"
    chk.rule(rule, "a path that frees a container's storage or stores a possibly-NULL pointer in data also leaves its capacity 0 (or installs new storage)")
    RECS = ("JanetArray", "JanetBuffer", "JanetTable", "JanetQueue")
    n = 0
    for fn in prog.all_funcs():
        def dstore(x):
            if x.k == "asg" and x.op == "=" and x.kids[0].k == "mem" and x.kids[0].rec in RECS and x.kids[0].field in ("data", "capacity"):
                return x.kids[0].kids[0].text(), x.kids[0].field, strip_casts(x.kids[1])
            return None
        def dfree(x):
            if x.k == "call" and x.callee in ("janet_free", "free") and x.args:
                a = strip_casts(x.args[0])
                if a.k == "mem" and a.field == "data" and a.rec in RECS:
                    return a.kids[0].text()
            return None
        ev = [x for x in fn.nodes if dfree(x) or (dstore(x) and dstore(x)[1] == "data")]
        if not ev:
            continue
        def is_null(e, st):
            return (e.k == "int" and e.v == 0) or e.text() in ("NULL", "((void *)0)") or (e.k == "ref" and ("null:" + e.name) in st)

        def transfer(st, x):
            if x.k == "vardecl" and x.kids:
                st = st - {"null:" + x.name}
                if is_null(strip_casts(x.kids[0]), st):
                    st = st | {"null:" + x.name}
                return st
            if x.k == "asg" and x.op == "=" and x.kids[0].k == "ref":
                st = st - {"null:" + x.kids[0].name, "le0:" + x.kids[0].name}
                if is_null(strip_casts(x.kids[1]), st):
                    st = st | {"null:" + x.kids[0].name}
                return st
            f = dfree(x)
            if f:
                return st | {"nodata:" + f}
            d = dstore(x)
            if d:
                lv, field, rhs = d
                if field == "data":
                    if is_null(rhs, st):
                        return st | {"nodata:" + lv, "at:%s:%d" % (lv, x.id)}
                    return st - {"nodata:" + lv}
                if (rhs.k == "int" and rhs.v == 0) or (rhs.k == "ref" and ("le0:" + rhs.name) in st):
                    return st | {"cap0:" + lv}
                return st - {"cap0:" + lv}
            return st

        def edge(st, blk, succ, cond, truth):
            c = flow.compare_of(cond, truth)
            if c is None:
                return st
            l, op, r = c
            l = strip_casts(l)
            if l.k == "ref" and (r is None or is_null(strip_casts(r), frozenset())):
                if op == "!=":
                    return st - {"null:" + l.name}
                if op == "==" and ("null:" + l.name) not in st:
                    return st | {"null:" + l.name}
            if l.k == "ref" and r is not None and strip_casts(r).k == "int" and strip_casts(r).v == 0 and op in ("<=", "=="):
                return st | {"le0:" + l.name}       # the size a constructor was asked for is not positive: no storage, capacity <= 0
            # `if (x->capacity)`-style knowledge is not tracked: capacity must be stored
            return st
        IN, OUT, T = flow.forward_paths(fn, frozenset(), transfer, edge)
        chk.analysed(fn)
        n += 1
        chk.instance(rule)
        if fn.name in CAPNULL_DYING:
            chk.exception(rule, fn.name, CAPNULL_DYING[fn.name])
            continue
        bad = None
        for b, kind in flow.exits(fn):
            if kind != "return" or b.id not in OUT:
                continue
            for st in OUT[b.id]:
                for t in st:
                    if t.startswith("nodata:") and ("cap0:" + t[7:]) not in st:
                        bad = (t[7:], b)
        if bad is None:
            chk.ok(rule, "%s: storage released / nulled only together with capacity 0 or replaced" % fn.name)
        else:
            lv, b = bad
            site = next((x for x in ev if (dfree(x) == lv) or (dstore(x) and dstore(x)[0] == lv)), ev[0])
            chk.violation(rule, fn.tu.name, fn.name, "data:" + lv, site.loc,
                          "%s can return with `%s->data` released or possibly NULL while `%s->capacity` was not set to 0 on that path: "
                          "the next ensure() sees room and the following in-range store writes through NULL / freed memory" % (fn.name, lv, lv))
    chk.floor(rule, 6, n)


def _chainbuild_rule(chk, prog):
    """A loop that builds a prototype chain level by level (struct/to-table with its recursive flag) stores each new
    table in `cursor->proto` and then moves the cursor to it.  Without the move every level is written to the same
    slot: the result has the first and the last level only, and keys of the levels in between are gone."""
    rule = "C04-CHAINBUILD"
    chk.rule(rule, "a loop that appends freshly made tables to a prototype chain advances its cursor in the same iteration")
    n = 0
    for fn in prog.all_funcs():
        for lp in [x for x in fn.nodes if x.k in ("for", "while", "do")]:
            stores = [x for x in lp.walk() if x.k == "asg" and x.op == "=" and x.kids[0].k == "mem" and x.kids[0].field == "proto"
                      and x.kids[0].rec == "JanetTable" and strip_casts(x.kids[0].kids[0]).k == "ref"
                      and strip_casts(x.kids[1]).k == "call" and "table" in (strip_casts(x.kids[1]).callee or "")]
            for st in stores:
                v = strip_casts(st.kids[0].kids[0]).name
                n += 1
                chk.instance(rule)
                chk.analysed(fn)
                moved = any(x.k == "asg" and x.op == "=" and is_ref(x.kids[0], v) for x in lp.walk())
                if moved:
                    chk.ok(rule, "%s: `%s` moves along the chain it builds" % (fn.name, v))
                else:
                    chk.violation(rule, fn.tu.name, fn.name, "cursor:" + v, st.loc,
                                  "`%s` is executed for every level but `%s` never moves: each level overwrites the one before, and a "
                                  "chain of three or more levels comes out with only its first and last" % (st.text()[:60], v))
    chk.floor(rule, 1, n)


MUTATORS = ("janet_buffer_setcount", "janet_array_setcount", "janet_buffer_push_u8", "janet_array_push", "janet_buffer_ensure",
            "janet_array_ensure", "janet_buffer_extra", "janet_buffer_push_bytes")
PANICS = ("janet_panic", "janet_panicf", "janet_panicv", "janet_panics")


def _validatefirst_rule(chk, prog):
    """put / set on an array or buffer may extend it (an index past the end zero- or nil-fills up to it).  The
    operation as a whole either happens or raises: every reason to refuse it - a non-integer index, a value a buffer
    cannot hold - is found before the container is touched.  A check that comes after the growth still raises the same
    error, but leaves the container longer than it was."""
    rule = "C04-VALIDATEFIRST"
    chk.rule(rule, "in janet_put / janet_putindex no path reaches a raise after a call that has already grown or modified the container")
    tu = prog.tus["value.c"]
    # helpers of value.c that modify a container (one level)
    helpers = set(f.name for f in tu.funcs.values() if any(c.k == "call" and c.callee in MUTATORS for c in f.nodes)
                  and f.name not in ("janet_put", "janet_putindex", "janet_putkey"))
    n = 0
    for name in ("janet_put", "janet_putindex"):
        fn = tu.funcs.get(name)
        if fn is None:
            raise AnalysisBroken("value.c: %s not found" % name)
        chk.analysed(fn)
        n += 1
        chk.instance(rule)

        def transfer(st, x):
            if x.k == "call" and (x.callee in MUTATORS or x.callee in helpers):
                return st | {("mut", x.id)}
            return st
        IN, OUT = flow.forward(fn, frozenset(), transfer, lambda a, b: a | b)
        bad = None
        for x, st in flow.states_at(fn, IN, transfer):
            if st and x.k == "call" and x.callee in PANICS and bad is None:
                bad = (x, st)
        if bad is None:
            chk.ok(rule, "%s: every refusal precedes the first modification" % name)
        else:
            x, st = bad
            mid = sorted(st)[0][1]
            m = next(c for c in fn.nodes if c.id == mid)
            chk.violation(rule, "value.c", name, "raise-after-grow", x.loc,
                          "%s can raise at %s (`%s`) after `%s` at %s has already changed the container: the refused operation leaves an "
                          "array or buffer that is longer than before" % (name, x.loc, x.text()[:50], m.text()[:40], m.loc))
    chk.floor(rule, 2, n)


def _clearkeeps_rule(chk, prog):
    """table/clear removes the entries of a table; it is not a re-initialisation.  What else the table carries - its
    prototype - stays.  The constructor helper sets proto = NULL, so a clear that delegates to it silently cuts the
    table off its prototype chain."""
    rule = "C04-CLEARKEEPS"
    chk.rule(rule, "janet_table_clear (and what it calls) writes only the bucket bookkeeping of the table: data, count, deleted, capacity - never proto")
    from jv.callgraph import CallGraph
    fn = prog.need_func("janet_table_clear", "table.c")
    chk.analysed(fn)
    tu = prog.tus["table.c"]
    work, seen = [fn], set()
    writers = []
    while work:
        f = work.pop()
        if f.name in seen:
            continue
        seen.add(f.name)
        for x in f.nodes:
            if x.k == "asg" and x.kids[0].k == "mem" and x.kids[0].rec == "JanetTable" and x.kids[0].field == "proto":
                writers.append((f, x))
            if x.k == "call" and x.callee in tu.funcs:
                work.append(tu.funcs[x.callee])
    chk.instance(rule)
    if writers:
        f, x = writers[0]
        chk.violation(rule, "table.c", "janet_table_clear", "proto", x.loc,
                      "janet_table_clear reaches `%s` in %s: clearing a table resets its prototype, so lookups that fell back along the "
                      "chain before the clear answer nil afterwards" % (x.text()[:40], f.name))
    else:
        chk.ok(rule, "janet_table_clear (via %s) never writes proto" % ", ".join(sorted(seen)))
    chk.floor(rule, 1)


def _overwriteat_rule(chk, prog):
    """buffer/push-at and buffer/format-at write at a position of an existing buffer.  The helper that does it grows
    the buffer to position + length and copies - it never fills a gap.  A position past the current end therefore
    exposes bytes the program never wrote; both callers have to refuse it (position in 0 .. count) before they call."""
    rule = "C04-OVERWRITEAT"
    chk.rule(rule, "every caller of buffer_overwrite_at has refused a position below 0 and a position beyond the buffer's count before the call")
    tu = prog.tus["buffer.c"]
    n = 0
    for fn in tu.funcs.values():
        for c in fn.calls("buffer_overwrite_at"):
            idx = strip_casts(c.args[1])
            if not is_ref(idx):
                continue
            n += 1
            chk.instance(rule)
            chk.analysed(fn)
            counts = set(d.name for d in fn.nodes if d.k == "vardecl" and d.kids and any(y.k == "mem" and y.field == "count" for y in d.kids[0].walk()))
            lower = upper = False
            for x in fn.nodes:
                if x.k != "if" or x.ln > c.ln or not any(y.k == "call" and y.callee in ("janet_panic", "janet_panicf") for y in x.kids[1].walk()):
                    continue
                for y in x.kids[0].walk():
                    if y.k != "bin" or y.op not in ("<", ">", "<=", ">="):
                        continue
                    l, r = strip_casts(y.kids[0]), strip_casts(y.kids[1])
                    op = y.op
                    if is_ref(r) and r.name == idx.name and not (is_ref(l) and l.name == idx.name):
                        l, r = r, l
                        op = {"<": ">", ">": "<", "<=": ">=", ">=": "<="}[op]
                    if not (is_ref(l) and l.name == idx.name):
                        continue
                    if op == "<" and r.v == 0:
                        lower = True
                    if op in (">", ">=") and (any(z.k == "mem" and z.field == "count" for z in r.walk()) or (is_ref(r) and r.name in counts)):
                        upper = True
            if lower and upper:
                chk.ok(rule, "%s: `%s` confined to 0 .. count before the write" % (fn.name, idx.name))
            else:
                miss = " and ".join(m for m, ok in (("a negative position", lower), ("a position beyond the current count", upper)) if not ok)
                chk.violation(rule, "buffer.c", fn.name, idx.name, c.loc,
                              "%s calls buffer_overwrite_at with `%s` without having refused %s: the helper extends the buffer to position + length "
                              "without filling the gap, so the call succeeds where it should raise and the buffer shows bytes nobody wrote" % (fn.name, idx.name, miss))
    if "buffer_overwrite_at" not in tu.funcs:
        chk.note("%s: buffer.c has no gap-less overwrite helper (buffer_overwrite_at); nothing to decide" % rule)
        chk.floor(rule, 0, n)
        return
    chk.floor(rule, 2, n)
