"""C12 - PEG matching: structural clauses on peg.c's interpreter (peg_rule).

C12-MODE       a store to s->mode is undone (saved value stored back) before every return / goto tail
C12-WINDOW     same for s->text_end
C12-DEPTH      down1/up1 balanced on every path to a return / goto tail
C12-BACKTRACK  after a failed sub-match a case continues matching only after cap_load
C12-BOUNDS     every read of text[...] is dominated by a comparison against s->text_end
C12-EXHAUSTIVE RULE_* enum == peg_rule cases == unmarshal verifier cases == opcodes the compiler emits
"""
from jv import flow
from jv.facts import Program, AnalysisBroken
from jv.util import enclosing_cases, is_mem, is_ref, may_set, switch_cases, strip_casts
from jv.report import path_lines

EXPLANATION = (
    "Static path analysis of peg.c:peg_rule over clang's CFG: per opcode case, every path from a "
    "store to s->mode / s->text_end / a depth decrement to a `return` or `goto tail` must pass the "
    "restoring store / matching increment; after a failed sub-match (NULL edge) no further matching "
    "without cap_load; every text[] read dominated by a text_end comparison; opcode sets of enum, "
    "interpreter, bytecode verifier and compiler agree.  Decides these necessary structural clauses, "
    "not the conformance of match results to PEG semantics.")
ASSUMPTIONS = [
    "default Linux configuration of peg.c as parsed by clang 14",
    "a panic (noreturn call) discards the PegState, so paths ending in one are exempt from restore obligations",
]


def _exit_points(fn):
    """(block, node-or-None, kind) for `return` elements and `goto tail` terminators"""
    out = []
    for b in fn.blocks.values():
        for n in b.elems:
            if n.k == "return":
                out.append((b, n, "return"))
        if b.term is not None and b.term.k == "goto" and b.term.name == "tail":
            out.append((b, b.term, "goto tail"))
    return out


def _restore_rule(chk, fn, rule, field, desc, rec="PegState"):
    """may-dirty analysis on field `field` of PegState (or of record `rec`)"""
    chk.rule(rule, desc)
    savers = set()
    for n in fn.nodes:
        if n.k == "vardecl" and n.kids and is_mem(n.kids[0], field, rec):
            savers.add(n.name)
        if n.k == "asg" and n.op == "=" and is_ref(n.kids[0]) and is_mem(n.kids[1], field, rec):
            savers.add(n.kids[0].name)
    stores = [n for n in fn.nodes if n.k == "asg" and is_mem(n.kids[0], field, rec)]
    chk.instance(rule, len(stores))

    def transfer(st, n):
        if n.k == "asg" and is_mem(n.kids[0], field, rec):
            rhs = strip_casts(n.kids[1])
            if n.op == "=" and is_ref(rhs) and rhs.name in savers:
                return frozenset()
            return frozenset([n.id])
        return st

    IN, OUT = may_set(fn, frozenset(), transfer)
    for b, n, kind in _exit_points(fn):
        if b.id not in IN:
            continue
        st = IN[b.id]
        for e in b.elems:
            if e is n:
                break
            st = transfer(st, e)
        else:
            st = OUT[b.id]
        cases = enclosing_cases(n) or ["?"]
        if st:
            src = fn.nodes[min(st)]
            chk.violation(rule, fn.tu.name, fn.name, cases[0], n.loc,
                          "%s reached with s->%s still overwritten by the store at line %d (no restoring "
                          "store of the saved value on this path)" % (kind, field, src.ln),
                          ["store   %s: %s" % (src.loc, src.text()), "exit    %s: %s" % (n.loc, n.text())])
        else:
            chk.ok(rule, "%s case %s %s at %s" % (fn.name, cases[0], kind, n.loc))


def _depth_rule(chk, fn):
    rule = "C12-DEPTH"
    chk.rule(rule, "down1(s)/up1(s) balanced on every path of peg_rule to a return or goto tail")

    def delta(n):
        if n.k == "un" and is_mem(n.kids[0], "depth", "PegState"):
            if n.op in ("pre--", "post--"):
                return -1
            if n.op in ("pre++", "post++"):
                return 1
        return 0

    chk.instance(rule, sum(1 for n in fn.nodes if delta(n)))

    def transfer(st, n):
        d = delta(n)
        if d:
            return frozenset(max(-6, min(6, x + d)) for x in st)
        return st

    IN, OUT = may_set(fn, frozenset([0]), transfer)
    for b, n, kind in _exit_points(fn):
        if b.id not in IN:
            continue
        st = IN[b.id]
        for e in b.elems:
            if e is n:
                break
            st = transfer(st, e)
        else:
            st = OUT[b.id]
        cases = enclosing_cases(n) or ["?"]
        bad = sorted(x for x in st if x != 0)
        if bad:
            chk.violation(rule, fn.tu.name, fn.name, cases[0], n.loc,
                          "%s reached with recursion depth counter off by %s (down1/up1 unbalanced)" % (kind, bad))
        else:
            chk.ok(rule, "%s case %s %s at %s" % (fn.name, cases[0], kind, n.loc))


def _backtrack_rule(chk, fn):
    """After `r = peg_rule(...)` returned NULL (edge where r is NULL / !r), reaching another
    peg_rule call, `goto tail` or a return of a non-NULL value requires cap_load/cap_load_keept first.
    State: set of result variables known-NULL-and-not-yet-rolled-back ("failed")."""
    rule = "C12-BACKTRACK"
    chk.rule(rule, "after a failed sub-match, matching continues only after cap_load of a saved capture state")
    # result variables: locals assigned from peg_rule(...)
    resvars = set()
    for n in fn.nodes:
        if n.k == "vardecl" and n.kids and n.kids[0].k == "call" and n.kids[0].callee == "peg_rule":
            resvars.add(n.name)
        if n.k == "asg" and n.op == "=" and is_ref(n.kids[0]) and n.kids[1].k == "call" and n.kids[1].callee == "peg_rule":
            resvars.add(n.kids[0].name)
    chk.instance(rule, len(resvars))

    FAILED = "failed"

    OPEN = "open"

    def assigned_from_rule(n):
        """name of the result variable if n stores the value of a peg_rule call"""
        if n.k == "vardecl" and n.kids and n.kids[0].k == "call" and n.kids[0].callee == "peg_rule":
            return n.name
        if n.k == "asg" and n.op == "=" and is_ref(n.kids[0]) and n.kids[1].k == "call" and n.kids[1].callee == "peg_rule":
            return n.kids[0].name
        return None

    def transfer(st, n):
        if n.k == "call" and n.callee in ("cap_load", "cap_load_keept"):
            return frozenset()
        v = assigned_from_rule(n)
        if v is not None:
            return (st - frozenset([FAILED + ":" + v])) | frozenset([OPEN + ":" + v])
        if st and n.k == "asg" and n.op == "=" and is_ref(n.kids[0]):
            nm = n.kids[0].name
            return st - frozenset([FAILED + ":" + nm, OPEN + ":" + nm])
        return st

    def edge(st, blk, succ, cond, truth):
        sb = fn.blocks[succ]
        if sb.label is not None and sb.label.k == "label" and sb.label.name == "tail":
            return frozenset()   # a new rule starts; obligations were checked at the goto
        if cond is None:
            return st
        cmp = flow.compare_of(cond, truth)
        if cmp is None:
            return st
        lhs, op, rhs = cmp
        l = strip_casts(lhs)
        r = strip_casts(rhs) if rhs is not None else None
        # NULL == x form
        if r is not None and is_ref(r) and r.name in resvars and not (is_ref(l) and l.name in resvars):
            l, r = r, l
        if is_ref(l) and l.name in resvars and (r is None or r.v == 0):
            if op == "==":
                if (OPEN + ":" + l.name) in st:
                    return (st - frozenset([OPEN + ":" + l.name])) | frozenset([FAILED + ":" + l.name])
                return st
            if op == "!=":
                return st - frozenset([FAILED + ":" + l.name, OPEN + ":" + l.name])
        return st

    IN, OUT = may_set(fn, frozenset(), transfer, edge=edge)

    def _check(n, st):
        if st and n.k == "call" and n.callee == "peg_rule":
            chk.violation(rule, fn.tu.name, fn.name, (enclosing_cases(n) or ["?"])[0], n.loc,
                          "sub-rule matched after a failed sub-match (%s) without cap_load: captures of the "
                          "failed branch leak" % ",".join(sorted(st)))
        if st and n.k == "return" and n.kids and n.kids[0].v != 0:
            rv = strip_casts(n.kids[0])
            if rv.v == 0:
                return
            # returning the failed variable itself (NULL) is a failure return
            if is_ref(rv) and (FAILED + ":" + rv.name) in st:
                return
            # `return r ? text : NULL` - the failing arm returns NULL
            if rv.k == "cond":
                c = flow.compare_of(rv.kids[0], True)
                if c is not None and is_ref(strip_casts(c[0])) and (c[2] is None or c[2].v == 0):
                    var = strip_casts(c[0]).name
                    null_arm = rv.kids[2] if c[1] == "!=" else rv.kids[1]
                    if (FAILED + ":" + var) in st and len(st) == 1 and strip_casts(null_arm).v == 0:
                        return
            chk.violation(rule, fn.tu.name, fn.name, (enclosing_cases(n) or ["?"])[0], n.loc,
                          "returns a match after a failed sub-match (%s) without cap_load" % ",".join(sorted(st)))

    for b in fn.blocks.values():
        if b.id not in IN:
            continue
        st = IN[b.id]
        for n in b.elems:
            failed = frozenset(x for x in st if x.startswith(FAILED))
            _check(n, failed)
            st = transfer(st, n)
        failed = frozenset(x for x in st if x.startswith(FAILED))
        if failed and b.term is not None and b.term.k == "goto" and b.term.name == "tail":
            chk.violation(rule, fn.tu.name, fn.name, (enclosing_cases(b.term) or ["?"])[0], b.term.loc,
                          "goto tail after a failed sub-match (%s) without cap_load" % ",".join(sorted(failed)))
    chk.ok(rule, "%d result variables tracked in %s" % (len(resvars), fn.name), n=max(1, len(resvars)))


def _exhaustive_rule(chk, prog, tu, fn):
    rule = "C12-EXHAUSTIVE"
    chk.rule(rule, "RULE_* enum, peg_rule cases, peg_unmarshal verifier cases and compiler-emitted opcodes are one set")
    enum = None
    for name, members in prog.enumtypes.items():
        if "RULE_LITERAL" in members:
            enum = members
    if not enum:
        raise AnalysisBroken("PEG opcode enum not found")
    enum = set(enum)
    chk.instance(rule, len(enum))

    def cases_of(f, what):
        sws = [n for n in f.nodes if n.k == "switch"]
        best = set()
        hasdef = None
        for sw in sws:
            cs = switch_cases(sw)
            names = set(c.kids[0].name for c in cs if c.k == "case" and c.kids and c.kids[0].k == "ref")
            if len(names & enum) > len(best):
                best = names
                hasdef = [c for c in cs if c.k == "default"]
        if not best:
            raise AnalysisBroken("no opcode switch found in %s" % what)
        return best, hasdef

    interp, interp_def = cases_of(fn, "peg_rule")
    verifier_fn = prog.need_func("peg_unmarshal", tu)
    verif, verif_def = cases_of(verifier_fn, "peg_unmarshal")
    emitted = set()
    for f in tu.funcs.values():
        if f.name in ("peg_rule", "peg_unmarshal"):
            continue
        for n in f.nodes:
            if n.k == "ref" and n.d.get("d") == "enum" and n.name in enum:
                emitted.add(n.name)
    for what, s in (("peg_rule", interp), ("peg_unmarshal verifier", verif), ("peg compiler", emitted)):
        for op in sorted(enum - s):
            chk.violation(rule, tu.name, what.split()[0], op, fn.loc,
                          "opcode %s of the enum is not handled by %s" % (op, what))
        for op in sorted(s - enum):
            chk.violation(rule, tu.name, what.split()[0], op, fn.loc, "%s names unknown opcode %s" % (what, op))
        chk.ok(rule, "%s covers %d opcodes" % (what, len(s & enum)), n=len(s & enum))
    # default arms must reject
    for f, defs, what in ((fn, interp_def, "peg_rule"), (verifier_fn, verif_def, "peg_unmarshal")):
        for dnode in defs or []:
            ok = False
            for n in dnode.walk():
                if n.k == "call" and prog.is_noreturn(n.callee or ""):
                    ok = True
                if n.k == "goto":
                    ok = True
                if n.k in ("case",):
                    break
            if ok:
                chk.ok(rule, "%s default arm rejects" % what)
            else:
                chk.violation(rule, tu.name, f.name, "default", dnode.loc,
                              "default arm of the opcode switch does not reject (panic/goto bad)")


def _bounds_rule(chk, fn):
    """every text[i] / *text read is reached only after a comparison of text against s->text_end
    on this path since the last modification of text."""
    rule = "C12-BOUNDS"
    chk.rule(rule, "reads through `text` in peg_rule are dominated by a comparison with s->text_end")

    # tracked pointer variables: `text` parameter only (locals derived from it are checked where used)
    def is_text_deref(n):
        if n.k == "sub" and is_ref(n.kids[0], "text") and n.d.get("rv"):
            return True
        if n.k == "un" and n.op == "*" and is_ref(n.kids[0], "text"):
            return True
        return False

    def mentions_text_end(n):
        return any(is_mem(x, "text_end", "PegState") for x in n.walk())

    def mentions_text(n):
        return any(is_ref(x, "text") for x in n.walk())

    def transfer(st, n):
        if n.k == "asg" and is_ref(n.kids[0], "text"):
            return frozenset()
        if n.k == "un" and n.op in ("pre++", "post++", "pre--", "post--") and is_ref(n.kids[0], "text"):
            return frozenset()
        return st

    def edge(st, blk, succ, cond, truth):
        if cond is None:
            return st
        c, t = flow.strip_not(cond, truth)
        if c.k == "bin" and c.op in ("<", "<=", ">", ">=") and mentions_text_end(c) and mentions_text(c):
            # which side proves text in range?  text < end (true), text >= end (false), text + n > end (false) ...
            lhs_text = mentions_text(c.kids[0])
            op = c.op
            if not lhs_text:
                op = {"<": ">", ">": "<", "<=": ">=", ">=": "<="}[op]
            inrange = (op in ("<", "<=") and t) or (op in (">", ">=") and not t)
            if inrange:
                return st | frozenset(["checked"])
        return st

    IN, OUT = flow.forward(fn, frozenset(), transfer, lambda a, b: a & b, edge=edge)
    cnt = 0
    for b in fn.blocks.values():
        if b.id not in IN:
            continue
        st = IN[b.id]
        for n in b.elems:
            if is_text_deref(n):
                cnt += 1
                if "checked" in st:
                    chk.ok(rule, "%s case %s read %s at %s" % (fn.name, (enclosing_cases(n) or ["?"])[0], n.text(), n.loc))
                else:
                    chk.violation(rule, fn.tu.name, fn.name, (enclosing_cases(n) or ["?"])[0], n.loc,
                                  "read %s not dominated by a comparison of text against s->text_end" % n.text())
            if n.k == "call" and n.callee in ("memcmp", "memcpy") and any(mentions_text(a) for a in n.args[:2]):
                cnt += 1
                if "checked" in st:
                    chk.ok(rule, "%s case %s %s at %s" % (fn.name, (enclosing_cases(n) or ["?"])[0], n.text()[:50], n.loc))
                else:
                    chk.violation(rule, fn.tu.name, fn.name, (enclosing_cases(n) or ["?"])[0], n.loc,
                                  "%s reads text without a dominating comparison against s->text_end" % n.callee)
            st = transfer(st, n)
    chk.instance(rule, cnt)


def _reset_rule(chk, prog, tu):
    """peg_rule leaves captures, tags and scratch behind when a match attempt fails part-way (only choice-like combinators
    roll back).  An entry point that tries again at the next offset must start from a clean capture state, so between two
    peg_rule calls on the same PegCall there has to be a peg_call_reset on every path (typestate clean -> used -> clean)."""
    rule = "C12-RESET"
    chk.rule(rule, "entry points call peg_rule only on a freshly initialised or reset capture state")
    n = 0
    for fn in tu.funcs.values():
        sites = fn.calls("peg_rule")
        if not sites or fn.name == "peg_rule":
            continue
        chk.analysed(fn)

        def transfer(st, x):
            if x.k == "call" and x.callee in ("peg_call_reset", "peg_cfun_init"):
                return frozenset(["clean"])
            if x.k == "call" and x.callee == "peg_rule":
                return frozenset(["used"])
            return st
        IN, OUT = flow.forward(fn, frozenset(), transfer, lambda a, b: a | b)
        for x, st in flow.states_at(fn, IN, transfer):
            if x in sites:
                n += 1
                chk.instance(rule)
                if "used" in st:
                    chk.violation(rule, "peg.c", fn.name, "peg_rule", x.loc,
                                  "%s can call peg_rule again without peg_call_reset since the previous attempt: captures and tags "
                                  "left by a failed attempt leak into the next one" % fn.name)
                elif "clean" not in st:
                    chk.violation(rule, "peg.c", fn.name, "peg_rule:uninit", x.loc,
                                  "%s calls peg_rule before the call state was initialised" % fn.name)
                else:
                    chk.ok(rule, "%s: peg_rule at %s on a clean state" % (fn.name, x.loc))
    chk.floor(rule, 4, n)


def _emits_rule(chk, prog, tu):
    """The grammar compiler records the index of the rule it is about to compile BEFORE calling the special's handler (and
    caches it for named rules), so every handler must append its rule at that index on every path.  A handler that
    returns without emitting leaves the recorded index pointing at whatever is compiled next."""
    rule = "C12-EMITS"
    chk.rule(rule, "every grammar special appends its rule on every returning path")
    tab = tu.ginit("peg_specials")
    if tab is None:
        raise AnalysisBroken("peg_specials[] not found")
    handlers = set()
    for x in tab.walk():
        if x.k == "ref" and x.name in tu.funcs:
            handlers.add(x.name)
    if len(handlers) < 30:
        raise AnalysisBroken("only %d grammar specials found" % len(handlers))
    always = {"reserve", "emit_bytes"}

    def emits_on_all_paths(fn):
        def transfer(st, x):
            if x.k == "call" and x.callee in always:
                return frozenset(["e"])
            if x.k == "mem" and x.field == "bytecode" and x.in_macro("janet_v_push"):
                return frozenset(["e"])
            return st
        IN, OUT = flow.forward(fn, frozenset(), transfer, lambda a, b: a & b)
        bad = None
        for b, kind in flow.exits(fn):
            if kind == "return" and b.id in OUT and "e" not in OUT[b.id]:
                bad = b
        return bad
    changed = True
    while changed:
        changed = False
        for name, fn in tu.funcs.items():
            if name in always or name in ("peg_compile1", "peg_rule"):
                continue
            if any(c.callee in always for c in fn.nodes if c.k == "call") or any(
                    x.k == "mem" and x.field == "bytecode" and x.in_macro("janet_v_push") for x in fn.nodes):
                if emits_on_all_paths(fn) is None:
                    always.add(name)
                    changed = True
    for h in sorted(handlers):
        chk.instance(rule)
        fn = tu.funcs[h]
        chk.analysed(fn)
        if h in always:
            chk.ok(rule, "%s emits on every path" % h)
        else:
            bad = emits_on_all_paths(fn)
            last = bad.elems[-1] if bad is not None and bad.elems else None
            chk.violation(rule, "peg.c", h, "emit", last.loc if last is not None else fn.loc,
                          "%s can return without appending a rule to the bytecode: the index the compiler recorded (and cached) for "
                          "this form then refers to the next rule compiled, or lies past the end" % h)


def run(chk):
    prog = Program.load("default", units=["peg.c"])
    tu = prog.tus["peg.c"]
    fn = prog.need_func("peg_rule", tu)
    chk.analysed(fn)
    _restore_rule(chk, fn, "C12-MODE", "mode",
                  "every store to s->mode in peg_rule is undone before each return / goto tail")
    _restore_rule(chk, fn, "C12-WINDOW", "text_end",
                  "every store to s->text_end in peg_rule is undone before each return / goto tail")
    _depth_rule(chk, fn)
    _backtrack_rule(chk, fn)
    _bounds_rule(chk, fn)
    _exhaustive_rule(chk, prog, tu, fn)
    _reset_rule(chk, prog, tu)
    _emits_rule(chk, prog, tu)
    _accumfast_rule(chk, fn)
    _endincl_rule(chk, fn)
    _subjectarg_rule(chk, prog, tu)
    _grammarcache_rule(chk, prog, tu)
    _endpos_rule(chk, prog, tu)
    _capscope_rule(chk, fn)
    _repeatempty_rule(chk, fn)
    _capload_rule(chk, prog, tu)
    _tagbyte_rule(chk, prog, tu)
    cfn = prog.need_func("peg_compile1", tu)
    chk.analysed(cfn)
    _restore_rule(chk, cfn, "C12-SCOPE", "grammar",
                  "the grammar scope the PEG compiler switches to while resolving a rule is restored on every return of peg_compile1", rec="Builder")
    chk.floor("C12-SCOPE", 2)
    chk.analysed(prog.need_func("peg_unmarshal", tu))
    chk.floor("C12-MODE", 10)
    chk.floor("C12-WINDOW", 6)
    chk.floor("C12-DEPTH", 40)
    chk.floor("C12-BACKTRACK", 8)
    chk.floor("C12-BOUNDS", 4)
    chk.floor("C12-EXHAUSTIVE", 37)


def _accumfast_rule(chk, fn):
    """Inside (% ...) a capture is not pushed but its printed form is appended to the scratch buffer (pushcap).  Some
    capture rules short-cut that by appending the matched text directly.  The short cut is only right when the capture IS
    that text (a plain string capture): for any other capture value (a number) the printed form differs from the text, and
    since the short cut is taken only when the grammar has no back-references, the result of an accumulation would depend
    on an unrelated part of the grammar."""
    rule = "C12-ACCUMFAST"
    chk.rule(rule, "an accumulate-mode short cut that appends the matched text directly is used only where the capture value is that very text")
    n = 0
    for x in fn.nodes:
        if x.k != "if" or len(x.kids) < 3 or x.kids[2] is None:
            continue
        cond = x.kids[0]
        if not any(y.k == "mem" and y.field == "has_backref" for y in cond.walk()):
            continue
        fast = [c for c in x.kids[1].walk() if c.k == "call" and c.callee == "janet_buffer_push_bytes"]
        slow = [c for c in x.kids[2].walk() if c.k == "call" and c.callee == "pushcap"]
        if not fast or not slow:
            continue
        n += 1
        chk.instance(rule)
        val = strip_casts(slow[0].args[1])
        inner = [c for c in val.walk() if c.k == "call" and c.callee in ("janet_string", "janet_stringv")]
        same = bool(inner) and [a.text().replace(" ", "") for a in inner[0].args] == [a.text().replace(" ", "") for a in fast[0].args[1:]]
        cases = enclosing_cases(x) or ["?"]
        # the short cut records nothing on the capture stack, which is what a later back-reference searches (an untagged
        # (backmatch) looks for tag 0, and pushcap records every capture once the grammar has back-references): every
        # way of taking it must include `no back-reference anywhere in the grammar`
        from jv.flow import _atoms
        loose = None
        for alt in _atoms(cond, True):
            if not any(any(y.k == "mem" and y.field == "has_backref" for y in a.walk()) and t is False for (a, t) in alt):
                loose = alt
        if loose is not None:
            n += 1
            chk.instance(rule)
            chk.violation(rule, "peg.c", "peg_rule", "%s:backref" % cases[0], x.loc,
                          "in %s the accumulate short cut (no entry on the capture stack) is also taken when %s, although the grammar has "
                          "back-references: a capture made that way is invisible to a later (backmatch), which then fails or matches an "
                          "older capture" % (cases[0], " && ".join(("" if t else "!") + "(" + a.text()[:30] + ")" for a, t in loose)))
        if same:
            chk.ok(rule, "%s: the short cut appends exactly the string the general path captures" % cases[0])
        else:
            chk.violation(rule, "peg.c", "peg_rule", "%s:fastpath" % cases[0], x.loc,
                          "in %s the general path captures `%s` but the accumulate short cut appends the raw matched text: inside (%% ...) the "
                          "result is the text when the grammar has no back-reference anywhere and the value's printed form when it has" % (
                              cases[0], val.text()[:40]))
    chk.floor(rule, 1, n)


def _grammarcache_rule(chk, prog, tu):
    """peg_compile1 caches `source form -> compiled rule` so that a form compiled twice yields one rule.  A nested
    grammar (a struct or a table with :main) opens a new scope whose rule names shadow the enclosing ones, so what it
    compiles to depends on where it stands; such forms must stay out of the cache - all kinds of them, not just structs."""
    rule = "C12-GRAMMARCACHE"
    chk.rule(rule, "every kind of source form that opens a grammar scope (struct, table) is kept out of the PEG compiler's rule cache")
    fn = prog.need_func("peg_compile1", tu)
    sw = [x for x in fn.nodes if x.k == "switch" and any("janet_type" in y.macro_names() or (y.k == "call" and y.callee == "janet_type") for y in x.kids[0].walk())]
    if not sw:
        raise AnalysisBroken("peg_compile1: switch on the source form's type not found")
    from jv.util import case_map
    m = case_map(sw[-1])
    scoped = set()
    for x in sw[-1].kids[1].walk():
        if x.k == "asg" and any(y.k == "mem" and y.field == "grammar" and y.rec == "Builder" for y in x.kids[0].walk()) and x.id in m:
            scoped.update(m[x.id])
    scoped = set(t for t in scoped if t.startswith("JANET_"))
    if len(scoped) < 2:
        raise AnalysisBroken("peg_compile1: arms that open a grammar scope not recognised (%s)" % sorted(scoped))
    puts = [c for c in fn.calls("janet_table_put") if len(c.args) == 3 and any(is_ref(y, "rule") for y in c.args[2].walk())]
    if not puts:
        raise AnalysisBroken("peg_compile1: cache insertion not found")
    excluded = set()
    for a in puts[0].ancestors():
        if a.k == "if":
            for y in a.kids[0].walk():
                if y.k == "ref" and y.name.startswith("JANET_") and y.d.get("d") == "enum":
                    excluded.add(y.name)
    for t in sorted(scoped):
        chk.instance(rule)
        if t in excluded:
            chk.ok(rule, "%s forms open a scope and are excluded from the rule cache" % t)
        else:
            chk.violation(rule, "peg.c", "peg_compile1", "cached:%s" % t, puts[0].loc,
                          "a %s source form opens its own grammar scope but is entered into the rule cache (`%s`): used a second time in "
                          "another scope, the rule compiled for the first scope is reused and its names resolve in the wrong grammar" % (
                              t, puts[0].text()[:50]))


def _endpos_rule(chk, prog, tu):
    """peg/match may start at any offset from 0 up to and including the length of the text (a pattern such as -1 or an
    empty one matches there).  The scanning entry points are defined as repeated matching at successive offsets, so their
    loops have to include that last offset too."""
    rule = "C12-ENDPOS"
    chk.rule(rule, "the scanning entry points (find, find-all, replace, replace-all) try every offset peg/match accepts, including offset = length")
    n = 0
    for fn in tu.funcs.values():
        if fn.name == "peg_rule":
            continue
        for lp in fn.nodes:
            if lp.k != "for" or lp.kids[1] is None or not any(c.k == "call" and c.callee == "peg_rule" for c in lp.walk()):
                continue
            cond = strip_casts(lp.kids[1])
            if cond.k != "bin" or cond.op not in ("<", "<=") or not any(y.k == "mem" and y.field == "len" for y in cond.kids[1].walk()):
                continue
            n += 1
            chk.instance(rule)
            chk.analysed(fn)
            if cond.op == "<=":
                chk.ok(rule, "%s: scans offsets up to and including the text length" % fn.name)
            else:
                chk.violation(rule, "peg.c", fn.name, "scan-bound", lp.kids[1].loc,
                              "%s scans `%s`: the offset equal to the text length is never tried, although (peg/match patt text (length text)) "
                              "matches there for patterns such as -1 or \"\" - so (peg/find -1 \"abc\") is nil while matching at 3 succeeds" % (
                                  fn.name, cond.text()[:40]))
    chk.floor(rule, 3, n)


def _capscope_rule(chk, fn):
    """A combinator that post-processes `the captures of its sub-pattern` saves the capture count first (cap_save) and
    owns only what lies above that mark.  Reading the capture array without comparing against the mark picks up a capture
    that was made before the combinator, by an unrelated part of the grammar."""
    rule = "C12-CAPSCOPE"
    chk.rule(rule, "a combinator reads `the last capture` of its sub-pattern only above its own saved capture mark")
    n = 0
    IN = T = None
    sites = []
    for x in fn.nodes:
        if x.k == "sub" and any(y.k == "mem" and y.field == "data" for y in x.kids[0].walk()) and \
                any(y.k == "mem" and y.field == "captures" for y in x.kids[0].walk()) and \
                any(y.k == "mem" and y.field == "count" for y in x.kids[1].walk()):
            sites.append(x)
    if not sites:
        raise AnalysisBroken("peg_rule: no read of the last capture found")
    IN, T = flow.condition_facts(fn)
    # locals that hold a saved capture count (`int32_t old_cap = s->captures->count`)
    marks = set(v.name for v in fn.nodes if v.k == "vardecl" and v.kids and strip_casts(v.kids[0]).k == "mem" and strip_casts(v.kids[0]).field == "count"
                and any(y.k == "mem" and y.field == "captures" for y in v.kids[0].walk()))
    seen = set()
    for x, S in flow.states_at(fn, IN, T):
        if x not in sites or x.id in seen:
            continue
        seen.add(x.id)
        n += 1
        chk.instance(rule)
        ok = bool(S)
        for ps in S:
            good = False
            for (op, l, r, toks, ln, rn) in ps:
                both = [e for e in (ln, rn) if e is not None]
                if any(y.k == "mem" and y.field == "count" for e in both for y in e.walk()) and \
                        any((y.k == "mem" and y.field == "cap") or (y.k == "ref" and y.name in marks) for e in both for y in e.walk()):
                    good = True
            if not good:
                ok = False
        cases = enclosing_cases(x) or ["?"]
        if ok:
            chk.ok(rule, "%s: last capture read only when the count is above the saved mark" % cases[0])
        else:
            chk.violation(rule, "peg.c", "peg_rule", "%s:last-capture" % cases[0], x.loc,
                          "`%s` is read on a path that has not compared the capture count with the mark saved before the sub-pattern ran: "
                          "when the sub-pattern captured nothing, a capture made earlier in the match is used instead "
                          "((* (<- \"a\") (/ \"b\" {\"a\" 1})) on \"ab\" yields 1)" % x.text()[:50])
    chk.floor(rule, 2, n)


def _repeatempty_rule(chk, fn):
    """An unbounded repetition has to stop when its sub-pattern matches the empty string (it would loop for ever).  But
    an empty match can be repeated any number of times, so it also satisfies whatever minimum count is still missing:
    the stop may be taken only once the minimum has been reached - as happens when the upper bound is finite and the loop
    simply runs on.  Otherwise (at-least 2 (any "a")) fails on "aab" while (between 2 3 (any "a")) succeeds."""
    rule = "C12-REPEATEMPTY"
    chk.rule(rule, "the empty-match exit of an unbounded repetition is taken only when the minimum count has been reached")
    n = 0
    for x in fn.nodes:
        if x.k != "if" or not x.kids or x.kids[0] is None:
            continue
        if "RULE_BETWEEN" not in (enclosing_cases(x) or []):
            continue
        cond = x.kids[0]
        emptytest = [y for y in cond.walk() if y.k == "bin" and y.op == "==" and all(is_ref(strip_casts(k)) for k in y.kids)
                     and set(strip_casts(k).name for k in y.kids) == {"next_text", "text"}]
        leaves = any(y.k == "break" for y in x.kids[1].walk())
        if not emptytest or not leaves:
            continue
        n += 1
        chk.instance(rule)
        if any(is_ref(y, "lo") for y in cond.walk()):
            chk.ok(rule, "RULE_BETWEEN: the empty-match exit is tied to the minimum count")
        else:
            chk.violation(rule, "peg.c", "peg_rule", "RULE_BETWEEN:empty-exit", x.loc,
                          "`%s` leaves the repetition at an empty match whatever the count so far: with fewer than `lo` repetitions done the "
                          "rule then fails, although the empty match could be repeated - (at-least 2 (any \"a\")) on \"aab\" fails while "
                          "(between 2 3 (any \"a\")) succeeds" % cond.text()[:70])
    chk.floor(rule, 1, n)


# what the success-path loader deliberately leaves as it is: tagged captures stay visible to later back-references
CAPLOAD_KEEPT_LEAVES = {"tcap"}


def _capload_rule(chk, prog, tu):
    """cap_save records how far the three capture stores have grown (captures, tagged captures, accumulation scratch).
    cap_load (failure) rewinds all of them; cap_load_keept (success of a combinator that replaces its sub-pattern's
    captures by one value) rewinds everything except the tagged captures.  A field that is saved but not put back
    leaves the sub-pattern's text in the scratch buffer: the enclosing accumulate sees it in addition to the
    combinator's own result."""
    rule = "C12-CAPLOAD"
    chk.rule(rule, "cap_load puts back every field cap_save records; cap_load_keept every field but the tagged-capture count")
    byname = {f.name: f for f in tu.funcs.values()}
    sv, ld, lk = byname.get("cap_save"), byname.get("cap_load"), byname.get("cap_load_keept")
    if sv is None or ld is None or lk is None:
        raise AnalysisBroken("cap_save / cap_load / cap_load_keept not found")
    saved = set(x.kids[0].field for x in sv.nodes if x.k == "asg" and x.kids[0].k == "mem" and x.kids[0].rec == "CapState")
    if len(saved) < 3:
        raise AnalysisBroken("cap_save: only %d saved fields found" % len(saved))

    def restored(fn, seen=()):
        out = set()
        for x in fn.nodes:
            if x.k == "asg" and x.kids[0].k == "mem" and x.kids[0].field == "count":
                for y in x.kids[1].walk():
                    if y.k == "mem" and y.rec == "CapState":
                        out.add(y.field)
            if x.k == "call" and x.callee in ("cap_load", "cap_load_keept") and x.callee not in seen and x.callee != fn.name:
                out |= restored(byname[x.callee], seen + (fn.name,))
        return out
    for fn, want, what in ((ld, saved, "every saved field"), (lk, saved - CAPLOAD_KEEPT_LEAVES, "every saved field except the tag count")):
        chk.analysed(fn)
        got = restored(fn)
        for f in sorted(want):
            chk.instance(rule)
            if f in got:
                chk.ok(rule, "%s restores %s" % (fn.name, f))
            else:
                chk.violation(rule, "peg.c", fn.name, "not-restored:" + f, fn.loc,
                              "cap_save records `%s` but %s does not put it back (it should restore %s): what the sub-pattern added "
                              "there stays, and e.g. an accumulate around a group / replace / only-tags sees the inner text twice" % (f, fn.name, what))
        extra = got - want
        for f in sorted(extra):
            chk.instance(rule)
            chk.violation(rule, "peg.c", fn.name, "restores:" + f, fn.loc,
                          "%s rewinds `%s`, which it is meant to keep: tagged captures made inside a successful group are lost to later "
                          "back-references" % (fn.name, f))
    chk.floor(rule, 5)


def _tagbyte_rule(chk, prog, tu):
    """Capture tags are numbered by the grammar compiler and stored one BYTE each next to the captures at match time
    (s->tags is a byte buffer), while get-tag / backmatch compare with the full number from the bytecode.  The compiler
    therefore may hand out tag numbers up to 255 only: number 256 is stored as 0 and its back-reference never finds it."""
    rule = "C12-TAGBYTE"
    chk.rule(rule, "the PEG compiler issues a new tag number only on a path that compared it with 255 (tags are stored in one byte at match time)")
    fn = next((f for f in tu.funcs.values() if f.name == "emit_tag"), None)
    if fn is None:
        raise AnalysisBroken("emit_tag not found")
    chk.analysed(fn)
    rets = [x for x in fn.nodes if x.k == "return" and x.kids and strip_casts(x.kids[0]).k == "ref"]
    if not rets:
        raise AnalysisBroken("emit_tag: return of the new tag not found")
    IN, T = flow.condition_facts(fn, dead_calls=prog.is_noreturn)
    for x, S in flow.states_at(fn, IN, T):
        if x in rets:
            v = strip_casts(x.kids[0]).name
            chk.instance(rule)
            ok = bool(S) and all(any(ln is not None and rn is not None and strip_casts(ln).k == "ref" and strip_casts(ln).name == v and
                                     ((op == "<=" and rn.v == 255) or (op == "<" and rn.v == 256)) for (op, l, r, toks, ln, rn) in ps) for ps in S)
            if ok:
                chk.ok(rule, "emit_tag: `%s` is at most 255" % v)
            else:
                chk.violation(rule, "peg.c", "emit_tag", "tag-range", x.loc,
                              "`%s` can be 256 or more when it is handed out: at match time the tag is stored in one byte, 256 becomes 0, "
                              "and (backref t) / (backmatch t) on that tag silently never match" % v)
    chk.floor(rule, 1, len(rets))


def _endincl_rule(chk, fn):
    """to, thru, til and split look for a sub-pattern at successive positions.  A pattern can match the empty string,
    also at the very end of the text (-1, (+ "\\n" -1)), so the search has to try the end position itself: the loop
    runs while position <= end.  With `<` a separator that first matches at the end is never found."""
    rule = "C12-ENDINCL"
    chk.rule(rule, "every loop of peg_rule that tries a sub-pattern at successive positions up to the end of the text includes the end position (<=)")
    ends = set(x.name for x in fn.nodes if x.k == "vardecl" and x.kids and any(y.k == "mem" and y.field == "text_end" for y in x.kids[0].walk()))
    n = 0
    for x in fn.nodes:
        if x.k != "while":
            continue
        cond = x.kids[0]
        cmpn = [y for y in cond.walk() if y.k == "bin" and y.op in ("<", "<=") and (
            any(z.k == "mem" and z.field == "text_end" for z in y.kids[1].walk()) or
            (is_ref(strip_casts(y.kids[1])) and strip_casts(y.kids[1]).name in ends))]
        if not cmpn or not any(c.k == "call" and c.callee == "peg_rule" for c in x.kids[1].walk()):
            continue
        n += 1
        chk.instance(rule)
        cases = enclosing_cases(x) or ["?"]
        if cmpn[0].op == "<=":
            chk.ok(rule, "%s: `%s`" % (cases[0], cond.text()[:40]))
        else:
            chk.violation(rule, "peg.c", "peg_rule", "%s:%s" % (cases[0], cmpn[0].text().replace(" ", "")[:30]), x.loc,
                          "the search loop of %s runs while `%s`: the end of the text is never tried, so a sub-pattern whose first match is "
                          "the empty string at the end (-1, the last line without a newline) is not found, unlike in its sibling rules" % (
                              cases[0], cmpn[0].text()))
    chk.floor(rule, 3, n)


def _subjectarg_rule(chk, prog, tu):
    """The matcher works on a raw view of the subject's bytes; grammar functions (cmt, replace functions) run in
    between and could resize a buffer subject.  The guard against that compares the buffer registered in the match
    state with the view - so the buffer registered has to be the very argument the view was taken from.  peg/replace
    and peg/replace-all carry the subject one position later than peg/match."""
    rule = "C12-SUBJECTARG"
    chk.rule(rule, "peg_cfun_init registers for the modified-during-match guard the same argument whose bytes it matches, for both argument layouts")
    fn = prog.need_func("peg_cfun_init", tu)
    chk.analysed(fn)
    flag = fn.params[2]["n"] if len(fn.params) > 2 else "get_replace"

    def ev(e, g):
        e = strip_casts(e)
        if e is None:
            return None
        if e.v is not None:
            return e.v
        if is_ref(e) and e.name == flag:
            return g
        if e.k == "cond" and len(e.kids) == 3:
            c = ev(e.kids[0], g)
            return None if c is None else ev(e.kids[1] if c else e.kids[2], g)
        if e.k == "paren" and e.kids:
            return ev(e.kids[0], g)
        return None
    # index of the byte view per layout
    view = {}
    for c in fn.calls("janet_getbytes"):
        idx = strip_casts(c.args[1])
        q, br = c.parent, None
        while q is not None:
            if q.k == "if" and any(is_ref(y) and y.name == flag for y in q.kids[0].walk()):
                br = 1 if any(z is c for z in q.kids[1].walk()) else 0
                c0, t0 = flow.strip_not(q.kids[0], True) if hasattr(flow, "strip_not") else (q.kids[0], True)
                if not t0:
                    br = 1 - br
                break
            q = q.parent
        for g in ((br,) if br is not None else (0, 1)):
            v = ev(idx, g)
            if v is not None:
                view[g] = v
    subj = {}
    for x in fn.nodes:
        if x.k == "asg" and x.kids[0].k == "mem" and x.kids[0].field == "subject":
            srcs = [y for y in x.kids[1].walk() if is_ref(y)]
            for y in srcs:
                d = next((d for d in fn.nodes if d.k == "vardecl" and d.name == y.name and d.kids), None)
                e = d.kids[0] if d is not None else None
                sub = next((z for z in (e.walk() if e is not None else x.kids[1].walk()) if z.k == "sub" and is_ref(strip_casts(z.kids[0]), "argv")), None)
                if sub is not None:
                    for g in (0, 1):
                        v = ev(sub.kids[1], g)
                        if v is not None:
                            subj[g] = v
    if len(view) < 2 or len(subj) < 2:
        raise AnalysisBroken("peg_cfun_init: subject / byte-view argument indices not recognised (%s, %s)" % (view, subj))
    for g in (0, 1):
        chk.instance(rule)
        if view[g] == subj[g]:
            chk.ok(rule, "%s layout: bytes and guard both from argv[%d]" % ("replace" if g else "match", view[g]))
        else:
            chk.violation(rule, "peg.c", "peg_cfun_init", "layout:%d" % g, fn.loc,
                          "for the %s entry points the bytes matched come from argv[%d] but the buffer registered for the "
                          "modified-during-match guard is argv[%d]: the guard is off, and a grammar function that grows the subject buffer makes "
                          "the matcher read freed memory" % ("peg/replace, peg/replace-all" if g else "peg/match, peg/find, peg/find-all", view[g], subj[g]))
    chk.floor(rule, 2)
