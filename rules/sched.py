"""R-SCHED: a fiber taken out of a queued record may be resumed only after its saved generation
(sched_id) was compared equal with fiber->sched_id.  Shared by C06 and C07."""
from jv import flow
from jv.util import is_ref, is_mem, strip_casts

QUEUED_RECORDS = ("JanetChannelPending", "JanetTask", "JanetTimeout", "JanetEVGenericMessage")
SINKS = ("janet_schedule", "janet_schedule_signal", "janet_schedule_soon", "janet_cancel",
         "janet_continue", "janet_continue_signal")


def _rec_of(t):
    if not t:
        return None
    t = t.replace("const ", "").replace("struct ", "").strip()
    return t if t in QUEUED_RECORDS else None


def tracked_vars(fn):
    """name -> record type for locals / params whose type is a queued record"""
    out = {}
    for p in fn.params:
        r = _rec_of(p["t"])
        if r:
            out[p["n"]] = r
    for n in fn.nodes:
        if n.k == "vardecl":
            r = _rec_of(n.t)
            if r:
                out[n.name] = r
    return out


def fiber_aliases(fn, tracked):
    """locals assigned from <tracked>.fiber -> tracked var"""
    out = {}
    for n in fn.nodes:
        src = None
        if n.k == "vardecl" and n.kids:
            dst, src = n.name, strip_casts(n.kids[0])
        elif n.k == "asg" and n.op == "=" and is_ref(n.kids[0]):
            dst, src = n.kids[0].name, strip_casts(n.kids[1])
        if src is not None and src.k == "mem" and src.field == "fiber" and is_ref(src.kids[0]) and src.kids[0].name in tracked:
            out[dst] = src.kids[0].name
    return out


def analyse(fn):
    """Returns list of (sink call node, fiber text, record var, ok(bool), how) for every sink whose
    fiber argument comes out of a queued record."""
    tracked = tracked_vars(fn)
    if not tracked:
        return []
    aliases = fiber_aliases(fn, tracked)

    def fiber_key(e):
        e = strip_casts(e)
        if e.k == "mem" and e.field == "fiber" and is_ref(e.kids[0]) and e.kids[0].name in tracked:
            return e.text(), e.kids[0].name
        if e.k == "ref" and e.name in aliases:
            return e.name, aliases[e.name]
        return None, None

    sinks = []
    for n in fn.nodes:
        if n.k == "call" and n.callee in SINKS and n.args:
            key, rv = fiber_key(n.args[0])
            if key:
                sinks.append((n, key, rv))
    if not sinks:
        return []

    boolvars = set()
    for n in fn.nodes:
        if n.k == "vardecl" and n.t in ("int", "_Bool", "bool"):
            boolvars.add(n.name)

    def transfer(facts, n):
        if n.k == "asg" and is_ref(n.kids[0]):
            nm = n.kids[0].name
            return frozenset(f for f in facts if f[1] != nm)
        if n.k == "vardecl":
            return frozenset(f for f in facts if f[1] != n.name)
        if n.k == "call" and n.callee in ("janet_q_pop", "peek_timeout") and n.args:
            # the record variable is overwritten: forget what was known about it
            for a in n.args:
                a = strip_casts(a)
                if a.k == "un" and a.op == "&" and is_ref(a.kids[0]):
                    nm = a.kids[0].name
                    facts = frozenset(f for f in facts if not (f[0] in ("eq", "canres") and (f[1] == nm or f[1].startswith(nm + "."))))
            return facts
        return facts

    def sched_side(e):
        """if e reads <F>->sched_id returns text of F"""
        e = strip_casts(e)
        if e is not None and e.k == "mem" and e.field == "sched_id" and e.d.get("arrow"):
            return strip_casts(e.kids[0]).text()
        return None

    def edge(facts, blk, succ, cond, truth):
        if cond is None:
            return facts
        c = flow.compare_of(cond, truth)
        if c is None:
            return facts
        lhs, op, rhs = c
        l = strip_casts(lhs)
        # boolean flag refinement
        if rhs is None and l.k == "ref" and l.name in boolvars:
            want = "t" if op == "!=" else "f"
            other = "f" if want == "t" else "t"
            if (other, l.name) in facts:
                return None
            return facts | frozenset([(want, l.name)])
        if rhs is None and l.k == "call" and l.callee == "janet_fiber_can_resume" and op == "!=":
            return facts | frozenset([("canres", strip_casts(l.args[0]).text())])
        if rhs is not None and op == "==":
            a, b = sched_side(lhs), sched_side(rhs)
            for side, other in ((a, rhs), (b, lhs)):
                if side is not None:
                    o = strip_casts(other)
                    # the other side must be a saved generation, not the same fiber's live field
                    if sched_side(o) == side:
                        continue
                    facts = facts | frozenset([("eq", side)])
        return facts

    IN, OUT, T = flow.forward_paths(fn, frozenset(), transfer, edge)
    res = []
    sinkids = {n.id: (n, key, rv) for n, key, rv in sinks}
    for b, S in IN.items():
        for n in fn.blocks[b].elems:
            if n.id in sinkids:
                _, key, rv = sinkids[n.id]
                ok = all(("eq", key) in f for f in S)
                how = "generation compared equal on every path" if ok else "no sched_id equality established on some path"
                # the fibers janet_fiber_can_resume was established for on EVERY path (texts); truthy iff some exists
                cs = [set(x[1] for x in f if x[0] == "canres") for f in S]
                canres = sorted(set.intersection(*cs)) if cs else []
                res.append((n, key, rv, ok, how, canres, tracked[rv]))
            S = T(S, n)
    return res
