"""C20-FD: a descriptor obtained from the OS is closed, handed to an owner, stored or returned on every path of
every function that holds it - including the functions that get it from an in-tree wrapper.

Acquirers:  direct (socket, accept, open, dup, ...), array-filling (pipe, pipe2, socketpair), and DERIVED ones,
computed to a fixpoint from the code: a function that returns a descriptor it holds, stores one through a pointer
parameter, or passes its own array parameter to an array-filling acquirer is an acquirer for its callers
(janet_make_pipe, make_pipes ...).
"""
from jv import flow
from jv.facts import AnalysisBroken
from jv.util import is_ref, strip_casts

RULE = "C20-FD"
ACQUIRE = ("socket", "accept", "accept4", "open", "dup", "inotify_init1", "inotify_init", "epoll_create1", "timerfd_create",
           "openat", "creat", "eventfd", "kqueue")
ARRAY_ACQUIRE = {"pipe": 0, "pipe2": 0, "socketpair": 3}
OWNERS = ("janet_stream", "janet_stream_ext", "make_stream", "fdopen", "janet_makefile", "janet_makejfile",
          # the descriptor number travels inside a marshalled message to the receiving thread, which wraps it in a stream
          "janet_marshal_int", "janet_marshal_int64")
CLOSERS = ("close", "closesocket", "fclose")
OWNS_ON_SUCCESS = ("fdopen", "_fdopen")


def _key(n):
    n = strip_casts(n)
    if n is None:
        return None
    if n.k == "ref":
        return n.name
    if n.k == "sub" and is_ref(strip_casts(n.kids[0])) and strip_casts(n.kids[1]).v is not None:
        return "%s[%d]" % (strip_casts(n.kids[0]).name, strip_casts(n.kids[1]).v)
    return None


def _uses(e, k):
    return any(_key(x) == k for x in e.walk() if x.k in ("ref", "sub"))


class Summary(object):
    def __init__(self):
        self.returns_fd = {}       # function name -> True
        self.outparams = {}        # function name -> set(param index) written with a held descriptor
        self.arrayparam = dict(ARRAY_ACQUIRE)   # function name -> index of the int[2] parameter it fills
        self.owners = set(OWNERS)  # functions that take ownership of a descriptor argument
        self.closers = set(CLOSERS)
        self.closes_params = {}    # derived: function name -> parameter indices it (conditionally) closes


class FdAnalysis(object):
    def __init__(self, prog, summ, panics=None):
        self.prog = prog
        self.summ = summ
        self.panics = panics      # jv.summaries.Summaries (may_panic), used only in the final pass

    def relevant(self, fn):
        S = self.summ
        for n in fn.nodes:
            if n.k == "call" and n.callee and (n.callee in ACQUIRE or n.callee in S.arrayparam or n.callee in S.returns_fd
                                               or n.callee in S.outparams):
                return True
        return False

    def analyse(self, fn):
        """returns (findings, facts about what fn does with held descriptors)"""
        prog, S = self.prog, self.summ
        params = [p["n"] for p in fn.params]
        # boolean aliases:  int is_x = (v == CONST)  never reassigned
        alias = {}
        assigned = {}
        for n in fn.nodes:
            if n.k == "asg" and is_ref(n.kids[0]):
                assigned[n.kids[0].name] = assigned.get(n.kids[0].name, 0) + 1
        for n in fn.nodes:
            if n.k == "vardecl" and n.kids and n.name not in assigned:
                e = strip_casts(n.kids[0])
                if e.k == "bin" and e.op in ("==", "!=") and is_ref(strip_casts(e.kids[0])) and strip_casts(e.kids[1]).v is not None:
                    alias[n.name] = (strip_casts(e.kids[0]).name, e.op, strip_casts(e.kids[1]).v)
        alias_targets = set(v[0] for v in alias.values())
        info = {"returns": False, "outparams": set(), "arrayparam": None, "owns": set(), "closes": set()}
        sites = {}     # acquisition node id -> description

        def open_fact(facts, k, nid):
            old = [f for f in facts if f[0] == "open" and f[1] == k]
            keep = frozenset(f for f in facts if not (f[0] in ("open", "given") and f[1] == k))
            if old:
                keep = keep | frozenset([("lost", k, old[0][2])])
            return keep | frozenset([("open", k, nid)])

        def drop(facts, k):
            return frozenset(f for f in facts if not (f[0] == "open" and f[1] == k))

        def handle_call(facts, n, target=None):
            """effects of a call node; `target` is the variable receiving its result (if any)"""
            c = n.callee
            if c in ACQUIRE or c in S.returns_fd:
                if target is not None:
                    sites[n.id] = "%s = %s(...)" % (target, c)
                    facts = open_fact(facts, target, n.id)
            if c in S.arrayparam and len(n.args) > S.arrayparam[c]:
                a = strip_casts(n.args[S.arrayparam[c]])
                if is_ref(a):
                    if a.name in params:
                        info["arrayparam"] = params.index(a.name)
                    else:
                        sites[n.id] = "%s(%s)" % (c, a.name)
                        facts = open_fact(facts, "%s[0]" % a.name, n.id)
                        facts = open_fact(facts, "%s[1]" % a.name, n.id)
            if c in S.outparams:
                for i in S.outparams[c]:
                    if i < len(n.args):
                        a = strip_casts(n.args[i])
                        if a.k == "un" and a.op == "&" and _key(a.kids[0]):
                            sites[(n.id, i)] = "%s(&%s)" % (c, _key(a.kids[0]))
                            facts = open_fact(facts, _key(a.kids[0]), (n.id, i))
            if c in S.closes_params:
                for i in S.closes_params[c]:
                    if i < len(n.args):
                        for f in list(facts):
                            if f[0] == "open" and _key(n.args[i]) == f[1]:
                                facts = facts - frozenset([f])
                        if _key(n.args[i]) in params:
                            info["closes"].add(params.index(_key(n.args[i])))
            if c in S.closers:
                # closing a descriptor this function has already handed to an owner: the owner closes it again later
                for a in n.args:
                    for f in list(facts):
                        if f[0] == "given" and _key(a) == f[1]:
                            facts = (facts - frozenset([f])) | frozenset([("twice", f[1], f[2], n.id)])
            if c in S.closers or c in S.owners:
                for a in n.args:
                    for f in list(facts):
                        if f[0] == "open" and _uses(a, f[1]):
                            facts = facts - frozenset([f])
                            if c in S.owners:
                                # fdopen owns the descriptor only when it succeeds: remember where its result went
                                facts = facts | frozenset([("given", f[1], f[2], target if c in OWNS_ON_SUCCESS else None)])
                            pk = f[1]
                            if pk in params:
                                (info["closes"] if c in S.closers else info["owns"]).add(params.index(pk))
                # a parameter handed to a closer / owner
                for a in n.args:
                    ka = _key(a)
                    if ka in params:
                        (info["closes"] if c in S.closers else info["owns"]).add(params.index(ka))
            return facts

        def transfer(facts, n):
            if n.k == "vardecl" and n.kids:
                r = strip_casts(n.kids[0])
                if r.k == "call":
                    return handle_call(facts, r, n.name)
                for f in list(facts):
                    if f[0] == "open" and _key(r) == f[1]:
                        facts = open_fact(facts - frozenset([f]), n.name, f[2])
                return facts
            if n.k == "asg" and n.op == "=":
                l, r = n.kids[0], strip_casts(n.kids[1])
                if r.k == "call" and _key(l):
                    return handle_call(facts, r, _key(l))
                if l.k in ("mem",) or (l.k == "sub" and _key(l) is None) or (l.k == "un" and l.op == "*"):
                    # stored into a record field / through a pointer: ownership moves to whoever holds that storage
                    for f in list(facts):
                        if f[0] == "open" and _uses(n.kids[1], f[1]):
                            facts = facts - frozenset([f])
                            if l.k == "un" and is_ref(strip_casts(l.kids[0])) and strip_casts(l.kids[0]).name in params:
                                info["outparams"].add(params.index(strip_casts(l.kids[0]).name))
                    return facts
                kl = _key(l)
                if kl:
                    for f in list(facts):
                        if f[0] == "open" and _key(r) == f[1]:
                            facts = open_fact(facts - frozenset([f]), kl, f[2])
                return facts
            if n.k == "call":
                # a call whose result is not assigned (statement or condition)
                p = n.parent
                if p is not None and ((p.k == "vardecl") or (p.k == "asg" and p.kids[1] is n) or
                                      (p.k == "cast" and p.parent is not None and p.parent.k in ("vardecl", "asg"))):
                    return facts
                return handle_call(facts, n, None)
            if n.k == "return" and n.kids:
                for f in list(facts):
                    if f[0] == "open" and _uses(n.kids[0], f[1]):
                        facts = facts - frozenset([f])
                        info["returns"] = True
                r = strip_casts(n.kids[0])
                if r.k == "call" and (r.callee in ACQUIRE or r.callee in S.returns_fd):
                    info["returns"] = True
            return facts

        def eqfact(facts, name, op, val):
            for f in facts:
                if f[0] == "eq" and f[1] == name and ((op == "==" and f[2] != val) or (op == "!=" and f[2] == val)):
                    return None
                if f[0] == "ne" and f[1] == name and op == "==" and f[2] == val:
                    return None
            return facts | frozenset([("eq" if op == "==" else "ne", name, val)])

        def edge(facts, blk, succ, cond, truth):
            if cond is None:
                return facts
            c = flow.compare_of(cond, truth)
            if c is None:
                return facts
            l = strip_casts(c[0])
            r = strip_casts(c[2]) if c[2] is not None else None
            op = c[1]
            # result of an array acquirer tested directly: non-zero / -1 means nothing was opened
            if l.k == "call" and l.callee in S.arrayparam and len(l.args) > S.arrayparam[l.callee]:
                failed = (r is None and op == "!=") or (r is not None and r.v is not None and (
                    (op == "==" and r.v != 0) or (op == "<" and r.v == 0) or (op == "!=" and r.v == 0)))
                a = strip_casts(l.args[S.arrayparam[l.callee]])
                if failed and is_ref(a):
                    facts = drop(drop(facts, "%s[0]" % a.name), "%s[1]" % a.name)
                return facts
            # a bit test on a flag word whose bit cannot be set on this path
            if l.k == "bin" and l.op == "&" and r is None and op == "!=":
                a, b = strip_casts(l.kids[0]), strip_casts(l.kids[1])
                if is_ref(a) and b.v is not None:
                    for f in facts:
                        if f[0] == "mb" and f[1] == a.name and not (f[2] & b.v):
                            return None
            # enum / flag equalities on locals and parameters (prunes infeasible combinations)
            if is_ref(l) and op in ("==", "!="):
                if r is None and l.name in alias:
                    v, aop, val = alias[l.name]
                    want = aop if op == "!=" else ("!=" if aop == "==" else "==")
                    facts = eqfact(facts, v, want, val)
                    if facts is None:
                        return None
                elif r is not None and r.v is not None and l.name in alias_targets:
                    nf = eqfact(facts, l.name, op, r.v)
                    if nf is None:
                        return None
                    facts = nf
            # pointer local compared with NULL
            pv = None
            if l.k == "ref" and "*" in (l.t or "") and (r is None or r.v == 0):
                pv = l.name
            elif r is not None and r.k == "ref" and "*" in (r.t or "") and l.v == 0:
                pv = r.name
            if pv is not None and op in ("==", "!="):
                want = "nl" if op == "==" else "nn"
                other = "nn" if want == "nl" else "nl"
                if (other, pv, 0) in facts:
                    return None
                facts = facts | frozenset([(want, pv, 0)])
            if pv is not None and op == "==":
                # the owner call failed (NULL result): the descriptor is still ours
                for f in list(facts):
                    if f[0] == "given" and f[3] == pv:
                        facts = (facts - frozenset([f])) | frozenset([("open", f[1], f[2])])
            for f in list(facts):
                if f[0] != "open":
                    continue
                kl = _key(l)
                if kl == f[1] and r is not None and r.v is not None:
                    # fd == -1, fd < 0: acquisition failed / nothing held
                    if (op == "==" and r.v == -1) or (op == "<" and r.v == 0) or (op == "<=" and r.v == -1):
                        facts = facts - frozenset([f])
            return facts

        def maybe_bits(e):
            e = strip_casts(e)
            if e.v is not None and e.v >= 0:
                return e.v
            if e.k == "cond":
                a, b = maybe_bits(e.kids[1]), maybe_bits(e.kids[2])
                return None if a is None or b is None else a | b
            return None

        def ptr_transfer(facts, n):
            # nullness of pointer locals (loop cursors such as `rp`, witnesses such as `addr`)
            if n.k == "asg" and n.op == "=" and is_ref(n.kids[0]) and "*" in (n.kids[0].t or ""):
                nm = n.kids[0].name
                facts = frozenset(f for f in facts if not (f[0] in ("nn", "nl") and f[1] == nm))
                r = strip_casts(n.kids[1])
                if r.v == 0:
                    facts = facts | frozenset([("nl", nm, 0)])
                elif r.k == "mem" and not (r.field or "").endswith("next"):
                    facts = facts | frozenset([("nn", nm, 0)])
            if n.k == "vardecl" and "*" in (n.t or "") and n.kids and strip_casts(n.kids[0]).v == 0:
                facts = frozenset(f for f in facts if not (f[0] in ("nn", "nl") and f[1] == n.name)) | frozenset([("nl", n.name, 0)])
            if n.k == "asg" and is_ref(n.kids[0]):
                nm = n.kids[0].name
                facts = frozenset(f for f in facts if not (f[0] in ("eq", "ne") and f[1] == nm))
                # maybe-set bits of flag words: which bits can be 1 on this path
                old = [f for f in facts if f[0] == "mb" and f[1] == nm]
                facts = frozenset(f for f in facts if not (f[0] == "mb" and f[1] == nm))
                if n.op == "|=" and old and strip_casts(n.kids[1]).v is not None:
                    facts = facts | frozenset([("mb", nm, old[0][2] | strip_casts(n.kids[1]).v)])
                elif n.op == "=":
                    mb = maybe_bits(n.kids[1])
                    if mb is not None:
                        facts = facts | frozenset([("mb", nm, mb)])
            if n.k == "vardecl" and n.kids and "*" not in (n.t or ""):
                mb = maybe_bits(n.kids[0])
                if mb is not None:
                    facts = frozenset(f for f in facts if not (f[0] == "mb" and f[1] == n.name)) | frozenset([("mb", n.name, mb)])
            return facts

        def T1(facts, n):
            return transfer(ptr_transfer(facts, n), n)

        IN, OUT, T = flow.forward_paths(fn, frozenset(), T1, edge, cap=4096)
        findings = []
        reported = set()
        for b, Sx in IN.items():
            blk = fn.blocks[b]
            for n in blk.elems:
                is_exit = n.k == "return" or (n.k == "call" and n.callee and prog.is_noreturn(n.callee)
                                              and n.callee not in ("abort", "exit", "_exit"))
                # a call that can raise (argument decoders, anything reaching janet_panic) leaves the function too
                if not is_exit and n.k == "call" and self.panics is not None and n.callee not in S.closers \
                        and n.callee not in S.owners and self.panics.call_in(fn, n, self.panics.may_panic):
                    for s_ in Sx:
                        for f in s_:
                            if f[0] == "open" and (f[2], n.id) not in reported and not any(_uses(a, f[1]) for a in n.args):
                                reported.add((f[2], n.id))
                                findings.append((f[2], f[1], "raise", n))
                if is_exit:
                    S2 = T(Sx, n) if n.k == "return" else Sx
                    for s in S2:
                        for f in s:
                            if f[0] == "open" and (f[2], n.id) not in reported:
                                reported.add((f[2], n.id))
                                findings.append((f[2], f[1], "raise" if n.k == "call" else "return", n))
                Sx = T(Sx, n)
                for s in Sx:
                    for f in s:
                        if f[0] == "twice" and (f[2], "twice", f[3]) not in reported:
                            reported.add((f[2], "twice", f[3]))
                            findings.append((f[2], f[1], "twice", fn.nodes[f[3]]))
                for s in Sx:
                    for f in s:
                        if f[0] == "lost" and (f[2], "lost") not in reported:
                            reported.add((f[2], "lost"))
                            findings.append((f[2], f[1], "overwritten", n))
            if fn.exit in blk.succs and not blk.noreturn and not any(e.k == "return" for e in blk.elems):
                for s in Sx:
                    for f in s:
                        if f[0] == "open" and (f[2], -b - 1) not in reported:
                            reported.add((f[2], -b - 1))
                            findings.append((f[2], f[1], "end", None))
        return findings, info, sites


def derive(prog):
    """fixpoint of derived acquirers / closers / owners"""
    summ = Summary()
    for _ in range(4):
        changed = False
        A = FdAnalysis(prog, summ)
        for fn in prog.all_funcs():
            if fn.name in ACQUIRE or fn.name in ARRAY_ACQUIRE:
                continue
            if not A.relevant(fn) and not any(c.callee in summ.closers or c.callee in summ.owners or c.callee in summ.closes_params
                                              for c in fn.nodes if c.k == "call"):
                continue
            findings, info, sites = A.analyse(fn)
            if info["returns"] and fn.name not in summ.returns_fd and fn.ret and "*" not in fn.ret:
                summ.returns_fd[fn.name] = True
                changed = True
            if info["outparams"] and summ.outparams.get(fn.name) != info["outparams"]:
                summ.outparams[fn.name] = set(info["outparams"])
                changed = True
            if info["arrayparam"] is not None and fn.name not in summ.arrayparam:
                summ.arrayparam[fn.name] = info["arrayparam"]
                changed = True
            # thin wrappers: a function whose only use of its descriptor parameter is to close it
            if info["closes"] and len(fn.params) == 1 and fn.name not in summ.closers and len(fn.nodes) < 40:
                summ.closers.add(fn.name)
                changed = True
            # helpers that close several of their parameters (possibly under a flag): sound for the caller only as
            # "may close"; accepted because the flag tested is the ownership flag set where the descriptor was made
            elif info["closes"] and len(fn.params) > 1 and len(fn.nodes) < 120 and fn.ret == "void" \
                    and summ.closes_params.get(fn.name) != info["closes"]:
                summ.closes_params[fn.name] = set(info["closes"])
                changed = True
        if not changed:
            break
    return summ


def run(chk, prog):
    chk.rule(RULE, "a descriptor obtained from the OS (directly or through an in-tree wrapper) is closed, handed to an owner, stored or returned on every path of the function holding it")
    summ = derive(prog)
    chk.note("C20-FD derived acquirers: returns %s; out-parameters %s; array fillers %s; closers %s" % (
        sorted(summ.returns_fd), dict((k, sorted(v)) for k, v in summ.outparams.items()),
        dict((k, v) for k, v in summ.arrayparam.items() if k not in ARRAY_ACQUIRE), sorted(summ.closers - set(CLOSERS))))
    from jv.summaries import Summaries
    A = FdAnalysis(prog, summ, Summaries(prog))
    nsites = 0
    for fn in prog.all_funcs():
        if not A.relevant(fn):
            continue
        findings, info, sites = A.analyse(fn)
        if not sites:
            continue
        chk.analysed(fn)
        bad = {}
        for (sid, var, how, node) in findings:
            bad.setdefault(sid, []).append((var, how, node))
        for sid, desc in sorted(sites.items(), key=lambda kv: str(kv[0])):
            nsites += 1
            chk.instance(RULE)
            if sid not in bad:
                chk.ok(RULE, "%s: %s released or owned on every path" % (fn.name, desc))
                continue
            nid = sid[0] if isinstance(sid, tuple) else sid
            src = fn.nodes[nid]
            seen = set()
            for (var, how, node) in bad[sid]:
                via = node.callee if (node is not None and node.k == "call") else ""
                if (var, how, via) in seen:
                    continue
                seen.add((var, how, via))
                if how == "overwritten":
                    chk.violation(RULE, fn.tu.name, fn.name, "%s:overwritten" % var, src.loc,
                                  "descriptor `%s` obtained at line %d is overwritten by a new one while still open" % (var, src.ln))
                elif how == "twice":
                    chk.violation(RULE, fn.tu.name, fn.name, "%s:closed-after-handover@%s" % (var, via), node.loc,
                                  "descriptor `%s` obtained at line %d (%s) was handed to an owner that closes it when it is finalised, and is "
                                  "closed here as well (`%s`): the number may have been reused by then and the owner's close hits somebody "
                                  "else's descriptor" % (var, src.ln, desc, node.text()[:40]),
                                  ["acquire %s: %s" % (src.loc, src.text()[:80]), "close   %s: %s" % (node.loc, node.text()[:80])])
                elif how == "end":
                    chk.violation(RULE, fn.tu.name, fn.name, "%s:end" % var, src.loc,
                                  "descriptor `%s` obtained at line %d is still open and unowned at the end of the function" % (var, src.ln))
                else:
                    chk.violation(RULE, fn.tu.name, fn.name, "%s:%s%s" % (var, how, ("@" + via) if via else ""), node.loc,
                                  "descriptor `%s` obtained at line %d (%s) is still open and unowned when the function leaves "
                                  "through `%s`" % (var, src.ln, desc, node.text()[:50]),
                                  ["acquire %s: %s" % (src.loc, src.text()[:80]), "exit    %s: %s" % (node.loc, node.text()[:80])])
    if nsites < 8:
        raise AnalysisBroken("only %d descriptor acquisitions found" % nsites)
