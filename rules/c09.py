"""C09 - marshal/unmarshal and disasm/asm round trips: writer/reader agreement clauses.

C09-LEAD    every lead byte the marshaller writes has a reader case and vice versa; the enum is contiguous and fits a byte
C09-FIELDS  every field of JanetFuncDef / JanetFuncEnv / JanetFiber is read by the writer and written by the reader
            (or is a listed untransported field); optional sections are tested in the same order on both sides
C09-HOOKS   abstract types have both or neither of marshal/unmarshal, are registered, and their hook pairs issue
            the same sequence of primitive kinds
C09-ASM     every JanetFuncDef field is consumed by the disassembler and produced by the assembler
"""
from jv.facts import Program, AnalysisBroken
from jv.util import is_ref, is_mem, strip_casts, switch_cases, case_name
from jv.witness import run_witnesses
from rules.c03 import abstract_types

EXPLANATION = (
    "Static writer/reader agreement: the sets of lead bytes referenced by the marshalling and the unmarshalling "
    "functions, the record fields each side touches, the order of optional-section flag tests in "
    "marshal_one_def / unmarshal_one_def, the presence and registration of abstract-type hook pairs and the "
    "kind-for-kind sequence of marshal/unmarshal primitives they call, and the JanetFuncDef fields consumed by "
    "disasm and produced by asm.  Decides that both sides of each format name the same things in the same order; "
    "it does not decide value codecs, reference numbering or behavioural equivalence of the copy.")
ASSUMPTIONS = ["default Linux configuration (JANET_EV on)", "integer codec boundaries, sharing and cycles are value/graph-level and not decided"]

# fields deliberately not transported, with reason
UNTRANSPORTED = {
    ("JanetFuncDef", "gc"): "collector header",
    ("JanetFuncDef", "closure_bitset"): "written only with HASCLOBITSET; covered by the section-order check",
    ("JanetFuncEnv", "gc"): "collector header",
    ("JanetFiber", "gc"): "collector header (status bits travel inside flags)",
    ("JanetFiber", "capacity"): "derived from stacktop at load time",
    ("JanetFiber", "data"): "stack contents are transported slot by slot",
    ("JanetFiber", "sched_id"): "event-loop generation, meaningless in another VM",
    ("JanetFiber", "ev_callback"): "fibers waiting on the event loop are rejected by the marshaller",
    ("JanetFiber", "ev_state"): "see ev_callback",
    ("JanetFiber", "ev_stream"): "see ev_callback",
    ("JanetFiber", "supervisor_channel"): "event-loop attachment, not part of the value",
}


def _lead_rule(chk, prog):
    rule = "C09-LEAD"
    chk.rule(rule, "lead bytes written by marshal == lead bytes read by unmarshal; enum contiguous, fits a byte")
    tu = prog.tus["marsh.c"]
    leads = [k for k in prog.enums if k.startswith("LB_")]
    if len(leads) < 25:
        raise AnalysisBroken("only %d LB_* enumerators" % len(leads))
    W, R = set(), set()
    for fn in tu.funcs.values():
        side = None
        if fn.name.startswith(("marshal_", "push", "janet_marshal")):
            side = W
        elif fn.name.startswith(("unmarshal_", "read", "janet_unmarshal")):
            side = R
        if side is None:
            continue
        chk.analysed(fn)
        for n in fn.nodes:
            if n.k == "ref" and n.d.get("d") == "enum" and n.name.startswith("LB_"):
                side.add(n.name)
    for lb in sorted(leads):
        chk.instance(rule)
        if lb in W and lb not in R:
            chk.violation(rule, "marsh.c", "unmarshal_one", lb, tu.file, "the marshaller writes lead byte %s but no unmarshal routine handles it" % lb)
        elif lb in R and lb not in W:
            chk.violation(rule, "marsh.c", "marshal_one", lb, tu.file, "unmarshal handles %s but the marshaller never writes it" % lb)
        elif lb not in W and lb not in R:
            chk.violation(rule, "marsh.c", "marshal_one", lb, tu.file, "lead byte %s is neither written nor read" % lb)
        else:
            chk.ok(rule, "%s written and read" % lb)
    vals = sorted(prog.enums[k] for k in leads)
    chk.instance(rule)
    if vals[0] == 200 and vals == list(range(200, 200 + len(vals))) and vals[-1] < 256:
        chk.ok(rule, "LB_* contiguous 200..%d" % vals[-1])
    else:
        chk.violation(rule, "marsh.c", "LeadBytes", "layout", tu.file, "LB_* values are not the contiguous byte range starting at 200: %s" % vals[:5])


def fields_touched(fn, rec, write):
    out = set()
    for n in fn.nodes:
        if n.k == "mem" and n.rec == rec:
            p = n.parent
            is_w = p is not None and p.k == "asg" and p.kids[0] is n
            # env->as.fiber = x  writes (part of) `as`: climb through member/subscript chains on the left side
            q, child = p, n
            while not is_w and q is not None and q.k in ("mem", "sub") and q.kids[0] is child:
                child, q = q, q.parent
                if q is not None and q.k == "asg" and q.kids[0] is child:
                    is_w = True
            if write and is_w:
                out.add(n.field)
            if not write and not is_w:
                out.add(n.field)
            if write and not is_w and p is not None and p.k in ("sub",) :
                # def->constants[i] = ... counts as producing the field
                gp = p.parent
                if gp is not None and gp.k == "asg" and gp.kids[0] is p:
                    out.add(n.field)
            if write and p is not None and p.k == "un" and p.op == "&":
                out.add(n.field)      # passed by address to a reader helper
            if write and p is not None and p.k == "bin" and p.op == "+":
                gp = p.parent
                if gp is not None and gp.k == "call":
                    out.add(n.field)  # def->constants + i handed to unmarshal_one as destination
    return out


def flag_sequence(fn, prefix):
    seq = []
    for n in sorted((x for x in fn.nodes if x.k == "ref" or x.k == "int" or x.k == "bin"), key=lambda x: (x.ln, x.d.get("col", 0))):
        for m in n.macro_names():
            if m.startswith(prefix) and n.k in ("int",):
                seq.append(m)
                break
    # collapse immediate duplicates (a flag tested and then masked on the same line)
    out = []
    for s in seq:
        if not out or out[-1] != s:
            out.append(s)
    return out


def _fields_rule(chk, prog):
    rule = "C09-FIELDS"
    chk.rule(rule, "record fields: read by the writer and written by the reader; optional sections in the same order")
    pairs = (("JanetFuncDef", "marshal_one_def", "unmarshal_one_def"),
             ("JanetFuncEnv", "marshal_one_env", "unmarshal_one_env"),
             ("JanetFiber", "marshal_one_fiber", "unmarshal_one_fiber"))
    for rec, wname, rname in pairs:
        w = prog.need_func(wname, "marsh.c")
        r = prog.need_func(rname, "marsh.c")
        chk.analysed(w)
        chk.analysed(r)
        wf = fields_touched(w, rec, write=False)
        rf = fields_touched(r, rec, write=True)
        for f in prog.records[rec]["fields"]:
            name = f["n"]
            chk.instance(rule)
            if (rec, name) in UNTRANSPORTED:
                chk.exception(rule, "%s.%s" % (rec, name), UNTRANSPORTED[(rec, name)])
                chk.ok(rule, "%s.%s untransported by design" % (rec, name))
                continue
            if name in wf and name in rf:
                chk.ok(rule, "%s.%s marshalled and restored" % (rec, name))
            elif name in wf:
                chk.violation(rule, "marsh.c", rname, "%s.%s" % (rec, name), r.loc,
                              "%s reads %s.%s but %s never sets it: the copy loses it" % (wname, rec, name, rname))
            elif name in rf:
                chk.violation(rule, "marsh.c", wname, "%s.%s" % (rec, name), w.loc,
                              "%s sets %s.%s but %s never writes it out" % (rname, rec, name, wname))
            else:
                chk.violation(rule, "marsh.c", wname, "%s.%s" % (rec, name), w.loc,
                              "field %s.%s is neither marshalled nor restored and is not in the table of untransported fields" % (rec, name))
    # section order
    w = prog.need_func("marshal_one_def", "marsh.c")
    r = prog.need_func("unmarshal_one_def", "marsh.c")

    def guard_flag(n):
        """JANET_FUNCDEF_FLAG_* tested by the innermost enclosing `if` of n, else None"""
        for a_ in n.ancestors():
            if a_.k == "if":
                for x in a_.kids[0].walk():
                    for m in x.macro_names():
                        if m.startswith("JANET_FUNCDEF_FLAG_"):
                            return m
                return None
        return None

    def header(fn, intcalls, stopcalls):
        seq = []
        for c in sorted(fn.calls(), key=lambda x: (x.ln, x.d.get("col", 0))):
            if c.callee in stopcalls:
                break
            if c.callee in intcalls:
                # skip the reference short-cut (LB_FUNCDEF_REF index)
                if any(x.k == "ref" and x.name == "LB_FUNCDEF_REF" for x in fn.nodes if abs(x.ln - c.ln) <= 2 and x.ln <= c.ln):
                    continue
                seq.append(guard_flag(c))
        return seq
    wh = header(w, ("pushint",), ("marshal_one", "janet_marshal_u32s", "marshal_one_def"))
    rh = header(r, ("readint", "readnat"), ("unmarshal_one", "janet_unmarshal_u32s", "unmarshal_one_def"))
    chk.extra["funcdef_header"] = {"marshal": wh, "unmarshal": rh}
    chk.instance(rule)
    if len(wh) < 8:
        raise AnalysisBroken("marshal_one_def header: only %d integers found" % len(wh))
    if wh == rh:
        chk.ok(rule, "funcdef header: %d integers with the same optional ones in the same order" % len(wh))
    else:
        chk.violation(rule, "marsh.c", "unmarshal_one_def", "header-order", r.loc,
                      "the integer header differs: writer emits %s, reader expects %s" % (wh, rh))
    CONTENT = ("name", "source", "constants", "symbolmap", "bytecode", "environments", "defs", "sourcemap", "closure_bitset")

    def content_order(fn, write):
        seq = []
        for n in sorted((x for x in fn.nodes if x.k == "mem" and x.rec == "JanetFuncDef" and x.field in CONTENT),
                        key=lambda x: (x.ln, x.d.get("col", 0))):
            p_ = n.parent
            is_w = p_ is not None and p_.k == "asg" and p_.kids[0] is n
            if write and not is_w:
                continue
            if write and strip_casts(p_.kids[1]).v == 0:
                continue     # NULL defaults
            if n.field not in seq:
                seq.append(n.field)
        return seq
    wo, ro = content_order(w, False), content_order(r, True)
    chk.extra["funcdef_sections"] = {"marshal": wo, "unmarshal": ro}
    chk.instance(rule)
    if len(wo) < 8:
        raise AnalysisBroken("marshal_one_def: only %d content sections found" % len(wo))
    if wo == ro:
        chk.ok(rule, "funcdef sections in the same order on both sides: %s" % wo)
    else:
        chk.violation(rule, "marsh.c", "unmarshal_one_def", "section-order", r.loc,
                      "sections are written as %s but read as %s - the wire format is this order" % (wo, ro))


KIND = {"byte": "byte", "int": "int", "int64": "int64", "size": "int64", "ptr": "ptr", "bytes": "bytes", "janet": "janet",
        "abstract": "abstract"}


def prim_sequence(fn, prefix):
    seq = []
    for c in sorted(fn.calls(), key=lambda x: (x.ln, x.d.get("col", 0))):
        if c.callee and c.callee.startswith(prefix):
            k = c.callee[len(prefix):]
            kind = None
            if k in KIND:
                kind = KIND[k]
            elif k in ("abstract_reuse", "abstract_threaded"):
                kind = "abstract"
            if kind is None:
                continue
            in_loop = any(a.k in ("for", "while", "do") for a in c.ancestors())
            if in_loop:
                kind += "*"
                if seq and seq[-1] == kind:
                    continue
            seq.append(kind)
    return seq


def _hooks_rule(chk, prog):
    rule = "C09-HOOKS"
    chk.rule(rule, "abstract types: marshal and unmarshal both or neither; registered; same sequence of primitive kinds")
    ats = abstract_types(prog)
    registered = set()
    for fn in prog.all_funcs():
        for c in fn.calls("janet_register_abstract_type"):
            for x in c.args[0].walk():
                if x.k == "ref":
                    registered.add(x.name)
    n = 0
    for tu, name, vals in ats:
        def fnname(f):
            v = vals.get(f)
            return v.name if v is not None and v.k == "ref" and v.d.get("d") == "fn" else None
        m, u = fnname("marshal"), fnname("unmarshal")
        chk.instance(rule)
        if bool(m) != bool(u):
            chk.violation(rule, tu.name, name, "pair", tu.file, "abstract type %s has %s but not %s" % (name, "marshal" if m else "unmarshal", "unmarshal" if m else "marshal"))
            continue
        if not m:
            chk.ok(rule, "%s: not marshallable (no hooks)" % name)
            continue
        n += 1
        if name not in registered:
            chk.violation(rule, tu.name, name, "registration", tu.file,
                          "%s has marshal hooks but is never passed to janet_register_abstract_type: unmarshal cannot find it by name" % name)
            continue
        mf, uf = prog.func(m, tu), prog.func(u, tu)
        if mf is None or uf is None:
            raise AnalysisBroken("hook functions of %s not found" % name)
        chk.analysed(mf)
        chk.analysed(uf)
        ms = [k for k in prim_sequence(mf, "janet_marshal_") if not k.startswith("abstract")]
        us = [k for k in prim_sequence(uf, "janet_unmarshal_") if not k.startswith("abstract")]
        if ms == us:
            chk.ok(rule, "%s: %s" % (name, ms))
        else:
            chk.violation(rule, tu.name, u, "sequence", uf.loc,
                          "%s writes %s but %s reads %s: the two hooks disagree on the wire format of %s" % (m, ms, u, us, name))
    if n < 5:
        raise AnalysisBroken("only %d abstract types with marshal hooks" % n)


def _asm_rule(chk, prog):
    rule = "C09-ASM"
    chk.rule(rule, "every JanetFuncDef field is consumed by disasm and produced by asm")
    dis = [f for f in prog.tus["asm.c"].funcs.values() if f.name.startswith("janet_disasm")]
    asm = [prog.need_func("janet_asm1", "asm.c"), prog.need_func("janet_asm_addenv", "asm.c")]
    read, written = set(), set()
    for f in dis:
        chk.analysed(f)
        read |= fields_touched(f, "JanetFuncDef", write=False)
    for f in asm:
        chk.analysed(f)
        written |= fields_touched(f, "JanetFuncDef", write=True)
    EXC = {"gc": "collector header", "closure_bitset": "recomputed by the verifier pass janet_def_addflags / not part of the assembly syntax",
           "symbolmap_length": "length of symbolmap", }
    for f in prog.records["JanetFuncDef"]["fields"]:
        name = f["n"]
        chk.instance(rule)
        if name in EXC:
            chk.exception(rule, "JanetFuncDef.%s" % name, EXC[name])
            chk.ok(rule, "JanetFuncDef.%s (exception)" % name)
        elif name in read and name in written:
            chk.ok(rule, "JanetFuncDef.%s disassembled and assembled" % name)
        else:
            chk.violation(rule, "asm.c", "janet_disasm" if name not in read else "janet_asm1", "JanetFuncDef.%s" % name,
                          prog.tus["asm.c"].file, "JanetFuncDef.%s is %s: (asm (disasm f)) loses it" % (
                              name, "not shown by disasm" if name not in read else "not accepted by asm"))


def _order_rule(chk, prog):
    rule = "C09-ORDER"
    chk.rule(rule, "reference numbering: writer and reader register a definition/environment at the same point relative to its children")
    pairs = (("marshal_one_def", "seen_defs", ("marshal_one_def", "marshal_one"),
              "unmarshal_one_def", "lookup_defs", ("unmarshal_one_def", "unmarshal_one")),
             ("marshal_one_env", "seen_envs", ("marshal_one", "marshal_one_fiber"),
              "unmarshal_one_env", "lookup_envs", ("unmarshal_one", "unmarshal_one_fiber")))

    def first_reg(fn, field):
        lines = [n.ln for n in fn.nodes if n.k == "mem" and n.field == field and n.in_macro("janet_v_push")]
        return min(lines) if lines else None

    def first_child(fn, callees):
        lines = [c.ln for c in fn.calls(*callees)]
        return min(lines) if lines else None
    for (w, wf, wc, r, rf, rc) in pairs:
        wfn, rfn = prog.need_func(w, "marsh.c"), prog.need_func(r, "marsh.c")
        chk.instance(rule)
        a, b = first_reg(wfn, wf), first_child(wfn, wc)
        c, d = first_reg(rfn, rf), first_child(rfn, rc)
        if None in (a, b, c, d):
            raise AnalysisBroken("registration or child calls not found in %s / %s" % (w, r))
        if (a < b) == (c < d):
            chk.ok(rule, "%s / %s: both register %s their children" % (w, r, "before" if a < b else "after"))
        else:
            chk.violation(rule, "marsh.c", r, "register-order", rfn.loc,
                          "%s registers the object %s marshalling its children but %s registers it %s unmarshalling them: "
                          "back-references are numbered differently on the two sides" % (
                              w, "before" if a < b else "after", r, "before" if c < d else "after"))


def _derived_rule(chk, prog):
    rule = "C09-DERIVED"
    chk.rule(rule, "state the reader recomputes instead of transporting follows the writer's rule (peg has_backref)")
    tu = prog.tus["peg.c"]
    from jv.util import enclosing_cases
    comp = set()
    for fn in tu.funcs.values():
        if fn.name in ("peg_unmarshal", "peg_rule"):
            continue
        if any(n.k == "asg" and n.kids[0].k == "mem" and n.kids[0].field == "has_backref" and strip_casts(n.kids[1]).v == 1 for n in fn.nodes):
            for n in fn.nodes:
                if n.k == "ref" and n.d.get("d") == "enum" and n.name.startswith("RULE_"):
                    comp.add(n.name)
    ver = set()
    vfn = prog.need_func("peg_unmarshal", tu)
    for n in vfn.nodes:
        if n.k == "asg" and is_ref(n.kids[0], "has_backref") and strip_casts(n.kids[1]).v == 1:
            ver |= set(x for x in enclosing_cases(n) if x.startswith("RULE_"))
    if not comp or not ver:
        raise AnalysisBroken("has_backref assignments not found (compiler %s, verifier %s)" % (sorted(comp), sorted(ver)))
    for op in sorted(comp | ver):
        chk.instance(rule)
        if op in comp and op in ver:
            chk.ok(rule, "%s sets has_backref in the compiler and in peg_unmarshal" % op)
        elif op in comp:
            chk.violation(rule, "peg.c", "peg_unmarshal", op, vfn.loc,
                          "the PEG compiler marks grammars containing %s as using back-references, peg_unmarshal does not: "
                          "an unmarshalled copy stops recording tagged captures" % op)
        else:
            chk.violation(rule, "peg.c", "peg_unmarshal", op, vfn.loc,
                          "peg_unmarshal sets has_backref for %s but the compiler does not" % op)


def run(chk):
    prog = Program.load("default")
    _order_rule(chk, prog)
    _derived_rule(chk, prog)
    _lead_rule(chk, prog)
    _fields_rule(chk, prog)
    _hooks_rule(chk, prog)
    _asm_rule(chk, prog)
