"""C09 - marshal/unmarshal and disasm/asm round trips: writer/reader agreement clauses.

C09-LEAD    every lead byte the marshaller writes has a reader case and vice versa; the enum is contiguous and fits a byte
C09-FIELDS  every field of JanetFuncDef / JanetFuncEnv / JanetFiber is read by the writer and written by the reader
            (or is a listed untransported field); optional sections are tested in the same order on both sides
C09-HOOKS   abstract types have both or neither of marshal/unmarshal, are registered, and their hook pairs issue
            the same sequence of primitive kinds
C09-ASM     every JanetFuncDef field is consumed by the disassembler and produced by the assembler
"""
from jv.facts import Program, AnalysisBroken
from jv.util import is_ref, is_mem, strip_casts, switch_cases, case_name, case_map
from jv import flow
from jv.witness import run_witnesses
from rules.c03 import abstract_types

EXPLANATION = (
    "Static writer/reader agreement: the sets of lead bytes referenced by the marshalling and the unmarshalling "
    "functions, the record fields each side touches, the order of optional-section flag tests in "
    "marshal_one_def / unmarshal_one_def, the presence and registration of abstract-type hook pairs and the "
    "kind-for-kind sequence of marshal/unmarshal primitives they call, and the JanetFuncDef fields consumed by "
    "disasm and produced by asm.  Decides that both sides of each format name the same things in the same order; "
    "it does not decide value codecs, reference numbering or behavioural equivalence of the copy.")
ASSUMPTIONS = ["default Linux configuration (JANET_EV on)", "integer codec boundaries, sharing and cycles are value/graph-level and not decided"]

# fields deliberately not transported, with reason
UNTRANSPORTED = {
    ("JanetFuncDef", "gc"): "collector header",
    ("JanetFuncDef", "closure_bitset"): "written only with HASCLOBITSET; covered by the section-order check",
    ("JanetFuncEnv", "gc"): "collector header",
    ("JanetFiber", "gc"): "collector header (status bits travel inside flags)",
    ("JanetFiber", "capacity"): "derived from stacktop at load time",
    ("JanetFiber", "data"): "stack contents are transported slot by slot",
    ("JanetFiber", "sched_id"): "event-loop generation, meaningless in another VM",
    ("JanetFiber", "ev_callback"): "fibers waiting on the event loop are rejected by the marshaller",
    ("JanetFiber", "ev_state"): "see ev_callback",
    ("JanetFiber", "ev_stream"): "see ev_callback",
    ("JanetFiber", "supervisor_channel"): "event-loop attachment, not part of the value",
}


def _lead_rule(chk, prog):
    rule = "C09-LEAD"
    chk.rule(rule, "lead bytes written by marshal == lead bytes read by unmarshal; enum contiguous, fits a byte")
    tu = prog.tus["marsh.c"]
    leads = [k for k in prog.enums if k.startswith("LB_")]
    if len(leads) < 25:
        raise AnalysisBroken("only %d LB_* enumerators" % len(leads))
    W, R = set(), set()
    for fn in tu.funcs.values():
        side = None
        if fn.name.startswith(("marshal_", "push", "janet_marshal")):
            side = W
        elif fn.name.startswith(("unmarshal_", "read", "janet_unmarshal")):
            side = R
        if side is None:
            continue
        chk.analysed(fn)
        for n in fn.nodes:
            if n.k == "ref" and n.d.get("d") == "enum" and n.name.startswith("LB_"):
                side.add(n.name)
    for lb in sorted(leads):
        chk.instance(rule)
        if lb in W and lb not in R:
            chk.violation(rule, "marsh.c", "unmarshal_one", lb, tu.file, "the marshaller writes lead byte %s but no unmarshal routine handles it" % lb)
        elif lb in R and lb not in W:
            chk.violation(rule, "marsh.c", "marshal_one", lb, tu.file, "unmarshal handles %s but the marshaller never writes it" % lb)
        elif lb not in W and lb not in R:
            chk.violation(rule, "marsh.c", "marshal_one", lb, tu.file, "lead byte %s is neither written nor read" % lb)
        else:
            chk.ok(rule, "%s written and read" % lb)
    vals = sorted(prog.enums[k] for k in leads)
    chk.instance(rule)
    if vals[0] == 200 and vals == list(range(200, 200 + len(vals))) and vals[-1] < 256:
        chk.ok(rule, "LB_* contiguous 200..%d" % vals[-1])
    else:
        chk.violation(rule, "marsh.c", "LeadBytes", "layout", tu.file, "LB_* values are not the contiguous byte range starting at 200: %s" % vals[:5])


def fields_touched(fn, rec, write):
    out = set()
    for n in fn.nodes:
        if n.k == "mem" and n.rec == rec:
            p = n.parent
            is_w = p is not None and p.k == "asg" and p.kids[0] is n
            # env->as.fiber = x  writes (part of) `as`: climb through member/subscript chains on the left side
            q, child = p, n
            while not is_w and q is not None and q.k in ("mem", "sub") and q.kids[0] is child:
                child, q = q, q.parent
                if q is not None and q.k == "asg" and q.kids[0] is child:
                    is_w = True
            if write and is_w:
                out.add(n.field)
            if not write and not is_w:
                out.add(n.field)
            if write and not is_w and p is not None and p.k in ("sub",) :
                # def->constants[i] = ... counts as producing the field
                gp = p.parent
                if gp is not None and gp.k == "asg" and gp.kids[0] is p:
                    out.add(n.field)
            if write and p is not None and p.k == "un" and p.op == "&":
                out.add(n.field)      # passed by address to a reader helper
            if write and p is not None and p.k == "bin" and p.op == "+":
                gp = p.parent
                if gp is not None and gp.k == "call":
                    out.add(n.field)  # def->constants + i handed to unmarshal_one as destination
    return out


def flag_sequence(fn, prefix):
    seq = []
    for n in sorted((x for x in fn.nodes if x.k == "ref" or x.k == "int" or x.k == "bin"), key=lambda x: (x.ln, x.d.get("col", 0))):
        for m in n.macro_names():
            if m.startswith(prefix) and n.k in ("int",):
                seq.append(m)
                break
    # collapse immediate duplicates (a flag tested and then masked on the same line)
    out = []
    for s in seq:
        if not out or out[-1] != s:
            out.append(s)
    return out


def _fields_rule(chk, prog):
    rule = "C09-FIELDS"
    chk.rule(rule, "record fields: read by the writer and written by the reader; optional sections in the same order")
    pairs = (("JanetFuncDef", "marshal_one_def", "unmarshal_one_def"),
             ("JanetFuncEnv", "marshal_one_env", "unmarshal_one_env"),
             ("JanetFiber", "marshal_one_fiber", "unmarshal_one_fiber"))
    for rec, wname, rname in pairs:
        w = prog.need_func(wname, "marsh.c")
        r = prog.need_func(rname, "marsh.c")
        chk.analysed(w)
        chk.analysed(r)
        wf = fields_touched(w, rec, write=False)
        rf = fields_touched(r, rec, write=True)
        for f in prog.records[rec]["fields"]:
            name = f["n"]
            chk.instance(rule)
            if (rec, name) in UNTRANSPORTED:
                chk.exception(rule, "%s.%s" % (rec, name), UNTRANSPORTED[(rec, name)])
                chk.ok(rule, "%s.%s untransported by design" % (rec, name))
                continue
            if name in wf and name in rf:
                chk.ok(rule, "%s.%s marshalled and restored" % (rec, name))
            elif name in wf:
                chk.violation(rule, "marsh.c", rname, "%s.%s" % (rec, name), r.loc,
                              "%s reads %s.%s but %s never sets it: the copy loses it" % (wname, rec, name, rname))
            elif name in rf:
                chk.violation(rule, "marsh.c", wname, "%s.%s" % (rec, name), w.loc,
                              "%s sets %s.%s but %s never writes it out" % (rname, rec, name, wname))
            else:
                chk.violation(rule, "marsh.c", wname, "%s.%s" % (rec, name), w.loc,
                              "field %s.%s is neither marshalled nor restored and is not in the table of untransported fields" % (rec, name))
    # section order
    w = prog.need_func("marshal_one_def", "marsh.c")
    r = prog.need_func("unmarshal_one_def", "marsh.c")

    def guard_flag(n):
        """JANET_FUNCDEF_FLAG_* tested by the innermost enclosing `if` of n, else None"""
        for a_ in n.ancestors():
            if a_.k == "if":
                for x in a_.kids[0].walk():
                    for m in x.macro_names():
                        if m.startswith("JANET_FUNCDEF_FLAG_"):
                            return m
                return None
        return None

    def header(fn, intcalls, stopcalls):
        seq = []
        for c in sorted(fn.calls(), key=lambda x: (x.ln, x.d.get("col", 0))):
            if c.callee in stopcalls:
                break
            if c.callee in intcalls:
                # skip the reference short-cut (LB_FUNCDEF_REF index)
                if any(x.k == "ref" and x.name == "LB_FUNCDEF_REF" for x in fn.nodes if abs(x.ln - c.ln) <= 2 and x.ln <= c.ln):
                    continue
                seq.append(guard_flag(c))
        return seq
    wh = header(w, ("pushint",), ("marshal_one", "janet_marshal_u32s", "marshal_one_def"))
    rh = header(r, ("readint", "readnat"), ("unmarshal_one", "janet_unmarshal_u32s", "unmarshal_one_def"))
    chk.extra["funcdef_header"] = {"marshal": wh, "unmarshal": rh}
    chk.instance(rule)
    if len(wh) < 8:
        raise AnalysisBroken("marshal_one_def header: only %d integers found" % len(wh))
    if wh == rh:
        chk.ok(rule, "funcdef header: %d integers with the same optional ones in the same order" % len(wh))
    else:
        chk.violation(rule, "marsh.c", "unmarshal_one_def", "header-order", r.loc,
                      "the integer header differs: writer emits %s, reader expects %s" % (wh, rh))
    CONTENT = ("name", "source", "constants", "symbolmap", "bytecode", "environments", "defs", "sourcemap", "closure_bitset")

    def content_order(fn, write):
        seq = []
        for n in sorted((x for x in fn.nodes if x.k == "mem" and x.rec == "JanetFuncDef" and x.field in CONTENT),
                        key=lambda x: (x.ln, x.d.get("col", 0))):
            p_ = n.parent
            is_w = p_ is not None and p_.k == "asg" and p_.kids[0] is n
            if write and not is_w:
                continue
            if write and strip_casts(p_.kids[1]).v == 0:
                continue     # NULL defaults
            if n.field not in seq:
                seq.append(n.field)
        return seq
    wo, ro = content_order(w, False), content_order(r, True)
    chk.extra["funcdef_sections"] = {"marshal": wo, "unmarshal": ro}
    chk.instance(rule)
    if len(wo) < 8:
        raise AnalysisBroken("marshal_one_def: only %d content sections found" % len(wo))
    if wo == ro:
        chk.ok(rule, "funcdef sections in the same order on both sides: %s" % wo)
    else:
        chk.violation(rule, "marsh.c", "unmarshal_one_def", "section-order", r.loc,
                      "sections are written as %s but read as %s - the wire format is this order" % (wo, ro))


KIND = {"byte": "byte", "int": "int", "int64": "int64", "size": "int64", "ptr": "ptr", "bytes": "bytes", "janet": "janet",
        "abstract": "abstract"}


def prim_sequence(fn, prefix):
    seq = []
    for c in sorted(fn.calls(), key=lambda x: (x.ln, x.d.get("col", 0))):
        if c.callee and c.callee.startswith(prefix):
            k = c.callee[len(prefix):]
            kind = None
            if k in KIND:
                kind = KIND[k]
            elif k in ("abstract_reuse", "abstract_threaded"):
                kind = "abstract"
            if kind is None:
                continue
            in_loop = any(a.k in ("for", "while", "do") for a in c.ancestors())
            if in_loop:
                kind += "*"
                if seq and seq[-1] == kind:
                    continue
            seq.append(kind)
    return seq


def _hooks_rule(chk, prog):
    rule = "C09-HOOKS"
    chk.rule(rule, "abstract types: marshal and unmarshal both or neither; registered; same sequence of primitive kinds")
    ats = abstract_types(prog)
    registered = set()
    for fn in prog.all_funcs():
        for c in fn.calls("janet_register_abstract_type"):
            for x in c.args[0].walk():
                if x.k == "ref":
                    registered.add(x.name)
    n = 0
    for tu, name, vals in ats:
        def fnname(f):
            v = vals.get(f)
            return v.name if v is not None and v.k == "ref" and v.d.get("d") == "fn" else None
        m, u = fnname("marshal"), fnname("unmarshal")
        chk.instance(rule)
        if bool(m) != bool(u):
            chk.violation(rule, tu.name, name, "pair", tu.file, "abstract type %s has %s but not %s" % (name, "marshal" if m else "unmarshal", "unmarshal" if m else "marshal"))
            continue
        if not m:
            chk.ok(rule, "%s: not marshallable (no hooks)" % name)
            continue
        n += 1
        if name not in registered:
            chk.violation(rule, tu.name, name, "registration", tu.file,
                          "%s has marshal hooks but is never passed to janet_register_abstract_type: unmarshal cannot find it by name" % name)
            continue
        mf, uf = prog.func(m, tu), prog.func(u, tu)
        if mf is None or uf is None:
            raise AnalysisBroken("hook functions of %s not found" % name)
        chk.analysed(mf)
        chk.analysed(uf)
        ms = [k for k in prim_sequence(mf, "janet_marshal_") if not k.startswith("abstract")]
        us = [k for k in prim_sequence(uf, "janet_unmarshal_") if not k.startswith("abstract")]
        if ms == us:
            chk.ok(rule, "%s: %s" % (name, ms))
        else:
            chk.violation(rule, tu.name, u, "sequence", uf.loc,
                          "%s writes %s but %s reads %s: the two hooks disagree on the wire format of %s" % (m, ms, u, us, name))
    if n < 5:
        raise AnalysisBroken("only %d abstract types with marshal hooks" % n)


def _asm_rule(chk, prog):
    rule = "C09-ASM"
    chk.rule(rule, "every JanetFuncDef field is consumed by disasm and produced by asm")
    dis = [f for f in prog.tus["asm.c"].funcs.values() if f.name.startswith("janet_disasm")]
    asm = [prog.need_func("janet_asm1", "asm.c"), prog.need_func("janet_asm_addenv", "asm.c")]
    read, written = set(), set()
    for f in dis:
        chk.analysed(f)
        read |= fields_touched(f, "JanetFuncDef", write=False)
    for f in asm:
        chk.analysed(f)
        written |= fields_touched(f, "JanetFuncDef", write=True)
    EXC = {"gc": "collector header", "closure_bitset": "recomputed by the verifier pass janet_def_addflags / not part of the assembly syntax",
           "symbolmap_length": "length of symbolmap", }
    for f in prog.records["JanetFuncDef"]["fields"]:
        name = f["n"]
        chk.instance(rule)
        if name in EXC:
            chk.exception(rule, "JanetFuncDef.%s" % name, EXC[name])
            chk.ok(rule, "JanetFuncDef.%s (exception)" % name)
        elif name in read and name in written:
            chk.ok(rule, "JanetFuncDef.%s disassembled and assembled" % name)
        else:
            chk.violation(rule, "asm.c", "janet_disasm" if name not in read else "janet_asm1", "JanetFuncDef.%s" % name,
                          prog.tus["asm.c"].file, "JanetFuncDef.%s is %s: (asm (disasm f)) loses it" % (
                              name, "not shown by disasm" if name not in read else "not accepted by asm"))


def _order_rule(chk, prog):
    rule = "C09-ORDER"
    chk.rule(rule, "reference numbering: writer and reader register a definition/environment at the same point relative to its children")
    pairs = (("marshal_one_def", "seen_defs", ("marshal_one_def", "marshal_one"),
              "unmarshal_one_def", "lookup_defs", ("unmarshal_one_def", "unmarshal_one")),
             ("marshal_one_env", "seen_envs", ("marshal_one", "marshal_one_fiber"),
              "unmarshal_one_env", "lookup_envs", ("unmarshal_one", "unmarshal_one_fiber")))

    def first_reg(fn, field):
        lines = [n.ln for n in fn.nodes if n.k == "mem" and n.field == field and n.in_macro("janet_v_push")]
        return min(lines) if lines else None

    def first_child(fn, callees):
        lines = [c.ln for c in fn.calls(*callees)]
        return min(lines) if lines else None
    for (w, wf, wc, r, rf, rc) in pairs:
        wfn, rfn = prog.need_func(w, "marsh.c"), prog.need_func(r, "marsh.c")
        chk.instance(rule)
        a, b = first_reg(wfn, wf), first_child(wfn, wc)
        c, d = first_reg(rfn, rf), first_child(rfn, rc)
        if None in (a, b, c, d):
            raise AnalysisBroken("registration or child calls not found in %s / %s" % (w, r))
        if (a < b) == (c < d):
            chk.ok(rule, "%s / %s: both register %s their children" % (w, r, "before" if a < b else "after"))
        else:
            chk.violation(rule, "marsh.c", r, "register-order", rfn.loc,
                          "%s registers the object %s marshalling its children but %s registers it %s unmarshalling them: "
                          "back-references are numbered differently on the two sides" % (
                              w, "before" if a < b else "after", r, "before" if c < d else "after"))


def _derived_rule(chk, prog):
    rule = "C09-DERIVED"
    chk.rule(rule, "state the reader recomputes instead of transporting follows the writer's rule (peg has_backref)")
    tu = prog.tus["peg.c"]
    from jv.util import enclosing_cases
    comp = set()
    for fn in tu.funcs.values():
        if fn.name in ("peg_unmarshal", "peg_rule"):
            continue
        if any(n.k == "asg" and n.kids[0].k == "mem" and n.kids[0].field == "has_backref" and strip_casts(n.kids[1]).v == 1 for n in fn.nodes):
            for n in fn.nodes:
                if n.k == "ref" and n.d.get("d") == "enum" and n.name.startswith("RULE_"):
                    comp.add(n.name)
    ver = set()
    vfn = prog.need_func("peg_unmarshal", tu)
    for n in vfn.nodes:
        if n.k == "asg" and is_ref(n.kids[0], "has_backref") and strip_casts(n.kids[1]).v == 1:
            ver |= set(x for x in enclosing_cases(n) if x.startswith("RULE_"))
    if not comp or not ver:
        raise AnalysisBroken("has_backref assignments not found (compiler %s, verifier %s)" % (sorted(comp), sorted(ver)))
    for op in sorted(comp | ver):
        chk.instance(rule)
        if op in comp and op in ver:
            chk.ok(rule, "%s sets has_backref in the compiler and in peg_unmarshal" % op)
        elif op in comp:
            chk.violation(rule, "peg.c", "peg_unmarshal", op, vfn.loc,
                          "the PEG compiler marks grammars containing %s as using back-references, peg_unmarshal does not: "
                          "an unmarshalled copy stops recording tagged captures" % op)
        else:
            chk.violation(rule, "peg.c", "peg_unmarshal", op, vfn.loc,
                          "peg_unmarshal sets has_backref for %s but the compiler does not" % op)


def _asmops_rule(chk, prog):
    """disasm and asm are each other's inverse only if, for every instruction type, they agree on where each operand
    sits, how wide it is and whether it is signed.  The assembler states this in doarg(a, kind, nth, nbytes, signed, x);
    the disassembler either masks (unsigned) or shifts the word arithmetically (signed)."""
    rule = "C09-ASMOPS"
    chk.rule(rule, "for every instruction type the assembler's (position, width, signedness) of each operand equals the disassembler's decoding")
    tu = prog.tus["asm.c"]
    rd, dec = tu.funcs.get("read_instruction"), tu.funcs.get("janet_asm_decode_instruction")
    if rd is None or dec is None:
        raise AnalysisBroken("read_instruction / janet_asm_decode_instruction not found")
    chk.analysed(rd)
    chk.analysed(dec)

    def arms(fn):
        sw = [x for x in fn.nodes if x.k == "switch"]
        if not sw:
            raise AnalysisBroken("%s: no switch over the instruction type" % fn.name)
        return sw[0], case_map(sw[0])
    sw_r, cm_r = arms(rd)
    sw_d, cm_d = arms(dec)
    spec_r, spec_d, manual = {}, {}, set()
    for x in sw_r.walk():
        if x.k == "call" and x.callee == "doarg" and x.id in cm_r and len(x.args) >= 6:
            nth, nb, sg = x.args[2].v, x.args[3].v, x.args[4]
            for lab in cm_r[x.id]:
                signed = sg.v
                if signed is None:
                    e = strip_casts(sg)
                    if e.k == "bin" and e.op in ("==", "!=") and is_ref(strip_casts(e.kids[1])):
                        same = strip_casts(e.kids[1]).name == lab
                        signed = 1 if (same if e.op == "==" else not same) else 0
                if nth is None or nb is None or signed is None:
                    manual.add(lab)
                    continue
                if nth == 0:
                    manual.add(lab)       # value placed by hand (environment operand of JINT_SES)
                    continue
                spec_r.setdefault(lab, set()).add((nth * 8, nb * 8, bool(signed)))
    for x in sw_d.walk():
        if x.k == "call" and x.callee in ("tup1", "tup2", "tup3", "tup4") and x.id in cm_d:
            ops = set()
            for a in x.args[1:]:
                sh = [y for y in a.walk() if y.k == "bin" and y.op == ">>"]
                if not sh:
                    continue
                y = sh[0]
                signed = y.kids[0].k == "cast" and (y.kids[0].t or "") in ("int32_t", "int")
                shift = strip_casts(y.kids[1]).v
                masks = [z for z in a.walk() if z.k == "bin" and z.op == "&" and strip_casts(z.kids[1]).v is not None]
                width = strip_casts(masks[0].kids[1]).v.bit_length() if masks else (32 - shift if shift is not None else None)
                ops.add((shift, width, signed))
            for lab in cm_d[x.id]:
                spec_d[lab] = ops
    n = 0
    for lab in sorted(set(spec_r) | set(spec_d)):
        if not lab.startswith("JINT_"):
            continue
        if lab in manual:
            chk.note("C09-ASMOPS: %s has a hand-placed operand in the assembler; not compared" % lab)
            continue
        n += 1
        chk.instance(rule)
        a, d = spec_r.get(lab, set()), spec_d.get(lab, set())
        # same positions and signedness; the decoder may look at more bits of an unsigned operand than the assembler
        # can set (JINT_S: 24-bit field, assembler limits slots to 16 bits), never at fewer
        da = dict(((s_, g), w) for s_, w, g in a)
        dd = dict(((s_, g), w) for s_, w, g in d)
        if set(da) == set(dd) and all((dd[k] == da[k]) if k[1] else (dd[k] >= da[k]) for k in da):
            chk.ok(rule, "%s: %s" % (lab, sorted(a)))
        else:
            def show(sp):
                return ", ".join("bits %s..%s %s" % (s_, (s_ or 0) + (w or 0) - 1, "signed" if g else "unsigned") for s_, w, g in sorted(sp, key=str))
            chk.violation(rule, "asm.c", dec.name, lab, dec.loc,
                          "instruction type %s: the assembler encodes operands as [%s] but the disassembler decodes [%s]; a "
                          "disassembled function does not assemble back to the same code" % (lab, show(a), show(d)))
    chk.floor(rule, 10, n)


def _intenc_rule(chk, prog):
    """Variable-length integers: the writer picks the one-byte form for values up to a threshold and the reader must
    take a lead byte as a one-byte value for exactly the same range - otherwise the boundary value changes meaning."""
    rule = "C09-INTENC"
    chk.rule(rule, "the one-byte range of each variable-length integer encoding is the same in the writer and in the reader")
    tu = prog.tus["marsh.c"]
    n = 0
    for w, r in (("pushint", "readint"), ("push64", "read64")):
        wf, rf = tu.funcs.get(w), tu.funcs.get(r)
        if wf is None or rf is None:
            raise AnalysisBroken("%s / %s not found" % (w, r))
        chk.analysed(wf)
        chk.analysed(rf)

        def first_upper(fn, on_param):
            for x in sorted((q for q in fn.nodes if q.k == "if"), key=lambda q: (q.ln, q.id)):
                for y in x.kids[0].walk():
                    if y.k == "bin" and y.op in ("<", "<=") and strip_casts(y.kids[1]).v is not None:
                        l = strip_casts(y.kids[0])
                        if on_param and is_ref(l) and l.name in [p["n"] for p in fn.params]:
                            return strip_casts(y.kids[1]).v - (1 if y.op == "<" else 0), y
                        if not on_param and l.k == "un" and l.op == "*":
                            return strip_casts(y.kids[1]).v - (1 if y.op == "<" else 0), y
            return None, None
        wv, wn = first_upper(wf, True)
        rv, rn = first_upper(rf, False)
        if wv is None or rv is None:
            raise AnalysisBroken("%s/%s: one-byte threshold not recognised" % (w, r))
        n += 1
        chk.instance(rule)
        if wv == rv:
            chk.ok(rule, "%s writes one byte for values <= %d and %s reads one byte for lead bytes <= %d" % (w, wv, r, rv))
        else:
            chk.violation(rule, "marsh.c", r, "%s/%s" % (w, r), rn.loc,
                          "%s writes values up to %d as a single byte but %s treats lead bytes up to %d as single-byte values: "
                          "the value(s) in between are read back as something else" % (w, wv, r, rv))
    # the two-byte form of pushint: 6 + 8 payload bits in two's complement.  Every value the writer sends that way must
    # lie in the range those bits can hold, or the reader's sign extension gives it another value.
    wf = tu.funcs["pushint"]
    pn = wf.params[1]["n"] if len(wf.params) > 1 else "x"

    def cval(e):
        e = strip_casts(e)
        if e is None:
            return None
        if e.v is not None and e.k in ("int", "lit", "num"):
            return e.v
        if e.v is not None and not e.kids:
            return e.v
        if e.k == "un" and e.op == "-":
            v = cval(e.kids[0])
            return None if v is None else -v
        if e.k == "bin" and e.op in ("<<", "+", "-", "*"):
            a, b = cval(e.kids[0]), cval(e.kids[1])
            if a is None or b is None:
                return None
            return {"<<": a << b, "+": a + b, "-": a - b, "*": a * b}[e.op]
        if e.k == "paren" and e.kids:
            return cval(e.kids[0])
        return None
    masks = [strip_casts(y.kids[1]).v for x in wf.nodes if x.k == "bin" and x.op == "|" for y in x.walk()
             if y.k == "bin" and y.op == "&" and any(z.k == "bin" and z.op == ">>" for z in y.kids[0].walk()) and strip_casts(y.kids[1]).v is not None]
    two = None
    for x in sorted((q for q in wf.nodes if q.k == "if"), key=lambda q: (q.ln, q.id)):
        atoms = [y for y in x.kids[0].walk() if y.k == "bin" and y.op in ("<", "<=", ">", ">=") and is_ref(strip_casts(y.kids[0])) and strip_casts(y.kids[0]).name == pn]
        hi = [y for y in atoms if y.op in ("<", "<=")]
        lo = [y for y in atoms if y.op in (">", ">=")]
        if hi and lo and cval(lo[0].kids[1]) is not None and cval(lo[0].kids[1]) < 0:
            two = (hi[0], lo[0])
    if not masks or two is None:
        raise AnalysisBroken("pushint: two-byte form not recognised")
    bits = bin(masks[0]).count("1") + 8
    hi, lo = two
    hv = cval(hi.kids[1]) - (1 if hi.op == "<" else 0)
    lv = cval(lo.kids[1]) + (1 if lo.op == ">" else 0)
    n += 1
    chk.instance(rule)
    if hv <= (1 << (bits - 1)) - 1 and lv >= -(1 << (bits - 1)):
        chk.ok(rule, "pushint sends %d..%d in the two-byte form, which holds %d bits" % (lv, hv, bits))
    else:
        chk.violation(rule, "marsh.c", "pushint", "two-byte-range", hi.loc,
                      "pushint writes values %d..%d in its two-byte form, but that form carries %d payload bits (mask %#x plus one byte), "
                      "i.e. %d..%d: a value outside comes back from readint's sign extension as a different number - and this codec "
                      "also writes every length prefix" % (lv, hv, bits, masks[0], -(1 << (bits - 1)), (1 << (bits - 1)) - 1))
    chk.floor(rule, 3, n)


def _signext_rule(chk, prog):
    """readint's two-byte form carries 6 + 8 payload bits in two's complement (C09-INTENC bounds what the writer sends
    that way).  The reader widens the payload with `v |= <test> ? <mask> : 0`: the test must be true for exactly the
    payloads whose top payload bit is set and the mask must be exactly the bits above the payload - decided by
    evaluating the test for every one of the 2^14 payloads."""
    rule = "C09-SIGNEXT"
    chk.rule(rule, "readint's sign extension of the two-byte form sets exactly the bits above the payload, for exactly the payloads whose top bit is set (all 2^14 evaluated)")
    from rules.c05 import eval_pred
    tu = prog.tus["marsh.c"]
    fn = tu.funcs.get("readint")
    if fn is None:
        raise AnalysisBroken("readint not found")
    chk.analysed(fn)

    def unparen(e):
        e = strip_casts(e)
        while e is not None and e.k == "paren" and e.kids:
            e = strip_casts(e.kids[0])
        return e

    def ev(e, var, val):
        e = unparen(e)
        if e is None:
            return None
        if e.k == "bin":
            a, b = ev(e.kids[0], var, val), ev(e.kids[1], var, val)
            if a is None or b is None:
                return None
            try:
                return {"==": int(a == b), "!=": int(a != b), "<": int(a < b), "<=": int(a <= b), ">": int(a > b), ">=": int(a >= b),
                        "+": a + b, "-": a - b, "&": a & b, "|": a | b, "^": a ^ b, "<<": (a << b) & 0xFFFFFFFF, ">>": a >> b,
                        "&&": int(bool(a and b)), "||": int(bool(a or b))}[e.op]
            except (KeyError, ValueError):
                return None
        if e.k == "un" and e.op == "!":
            a = ev(e.kids[0], var, val)
            return None if a is None else int(not a)
        return eval_pred(e, var, val)
    n = 0
    for x in fn.nodes:
        if x.k != "asg" or x.op != "|=" or not is_ref(x.kids[0]):
            continue
        rhs = unparen(x.kids[1])
        if rhs is None or rhs.k != "cond" or len(rhs.kids) != 3:
            continue
        var = x.kids[0].name
        decl = [d for d in fn.nodes if d.k == "vardecl" and d.name == var and d.kids]
        if not decl:
            continue
        masks = [strip_casts(y.kids[1]).v for y in decl[0].kids[0].walk() if y.k == "bin" and y.op == "&" and strip_casts(y.kids[1]).v is not None]
        shifts = [strip_casts(y.kids[1]).v for y in decl[0].kids[0].walk() if y.k == "bin" and y.op == "<<" and strip_casts(y.kids[1]).v is not None]
        if len(masks) != 1 or len(shifts) != 1:
            raise AnalysisBroken("readint: payload of `%s` not recognised" % var)
        bits = bin(masks[0]).count("1") + shifts[0]
        n += 1
        chk.instance(rule)
        want_mask = (0xFFFFFFFF << bits) & 0xFFFFFFFF
        yes, no = ev(rhs.kids[1], var, 0), ev(rhs.kids[2], var, 0)
        wrong = None
        for v in range(1 << bits):
            t = ev(rhs.kids[0], var, v)
            if t is None:
                raise AnalysisBroken("readint: sign test `%s` not evaluable" % rhs.kids[0].text())
            neg = bool(v >> (bits - 1))
            if bool(t) != neg:
                wrong = v
                break
        if yes is None or no is None:
            raise AnalysisBroken("readint: sign extension arms not constant")
        if wrong is not None:
            sv = wrong - (1 << bits) if wrong >> (bits - 1) else wrong
            chk.violation(rule, "marsh.c", "readint", "sign-test", x.loc,
                          "readint's sign test `%s` is %s for the %d-bit payload %#x, which stands for %d: that value comes back from "
                          "unmarshal as %d (this reader also decodes every length, reference index and funcdef field)" % (
                              rhs.kids[0].text(), "false" if wrong >> (bits - 1) else "true", bits, wrong, sv,
                              wrong if wrong >> (bits - 1) else (wrong | want_mask) - (1 << 32)))
        elif yes != want_mask or no != 0:
            chk.violation(rule, "marsh.c", "readint", "sign-mask", x.loc,
                          "readint extends the sign of a %d-bit payload with mask %#x / %#x; the bits above the payload are %#x" % (bits, yes, no, want_mask))
        else:
            chk.ok(rule, "readint: `%s` is true for exactly the payloads with bit %d set (%d evaluated), mask %#x" % (rhs.kids[0].text(), bits - 1, 1 << bits, yes))
    chk.floor(rule, 1, n)


def _fiberargs_rule(chk, prog):
    """A suspended fiber's stack has one more live region than its frames: data[stackstart .. stacktop), the values
    already pushed for a call the top frame has not made yet (a fiber stopped by a breakpoint on the call instruction).
    The writer sends stackstart and stacktop; unless both sides also transfer the values in between, the copy makes
    that call with nils."""
    rule = "C09-FIBERARGS"
    chk.rule(rule, "marshal_one_fiber and unmarshal_one_fiber both transfer the stack values between stackstart and stacktop")
    tu = prog.tus["marsh.c"]
    for name, xfer in (("marshal_one_fiber", "marshal_one"), ("unmarshal_one_fiber", "unmarshal_one")):
        fn = tu.funcs.get(name)
        if fn is None:
            raise AnalysisBroken("%s not found" % name)
        chk.analysed(fn)
        chk.instance(rule)
        found = None
        for x in fn.nodes:
            if x.k != "for":
                continue
            head = [k for k in x.kids[:-1]]
            txt = " ".join(k.text() for k in head if k is not None)
            if "stackstart" in txt and "stacktop" in txt and "JANET_FRAME_SIZE" not in txt and " - " not in txt \
                    and any(c.k == "call" and c.callee == xfer for c in x.kids[-1].walk()):
                found = x
        if found is not None:
            chk.ok(rule, "%s: `%s` transfers the pending call arguments" % (name, found.text()[:60].replace("\n", " ")))
        else:
            chk.violation(rule, "marsh.c", name, "pending-args", fn.loc,
                          "%s has no loop from stackstart to stacktop that passes the stack values to %s: the arguments a suspended "
                          "fiber has already pushed for its next call are not part of the image and the copy calls with nil" % (name, xfer))
    chk.floor(rule, 2)


def _lookup_rule(chk, prog):
    """Back-references are positions in the order objects were numbered.  The writer numbers an object kind either always
    or never, so in the reader each arm of unmarshal_one must append to st->lookup on all of its successful paths or on
    none: an arm that appends on some paths only shifts every later reference in the image."""
    rule = "C09-LOOKUP"
    chk.rule(rule, "each arm of unmarshal_one appends to the reference table on all of its successful paths or on none")
    tu = prog.tus["marsh.c"]
    fn = tu.funcs.get("unmarshal_one")
    if fn is None:
        raise AnalysisBroken("unmarshal_one not found")
    chk.analysed(fn)
    sws = [x for x in fn.nodes if x.k == "switch"]
    if not sws:
        raise AnalysisBroken("unmarshal_one: lead-byte switch not found")
    sw = max(sws, key=lambda x: len(list(x.walk())))
    cm = case_map(sw)
    pushers = set()
    for f in tu.funcs.values():
        if any(x.in_macro("janet_v_push") and x.k == "mem" and x.field == "lookup" for x in f.nodes):
            pushers.add(f.name)

    def transfer(st, x):
        if x.k == "mem" and x.field == "lookup" and x.in_macro("janet_v_push"):
            return st | {"push"}
        if x.k == "call" and x.callee in pushers and x.callee != fn.name:
            return st | {"push"}
        return st
    leadvar = strip_casts(sw.kids[0])
    leadname = leadvar.name if is_ref(leadvar) else None
    per = {}
    labels = sorted(set(l for ls in cm.values() for l in ls if l.startswith("LB_")))
    entry = {}
    for b in fn.blocks.values():
        if b.label is not None and b.label.k == "case":
            entry[case_name(b.label)] = b.id
    for lab in labels:
        if lab not in entry:
            continue

        def edge(st, blk, succ, cond, truth, lab=lab):
            c = flow.compare_of(cond, truth)
            if c is None or c[2] is None or leadname is None:
                return st
            l, op, r = strip_casts(c[0]), c[1], strip_casts(c[2])
            if is_ref(l, leadname) and is_ref(r) and r.name.startswith("LB_") and op in ("==", "!="):
                same = (r.name == lab)
                if (op == "==" and not same) or (op == "!=" and same):
                    return None
            return st
        IN, OUT, T = flow.forward_paths(fn, frozenset(), transfer, edge=edge, start=entry[lab])
        for b, S in IN.items():
            for x in fn.blocks[b].elems:
                if x.k == "return" and lab in cm.get(x.id, ()):
                    for ps in S:
                        per.setdefault(lab, {}).setdefault("push" in ps, x)
                S = T(S, x)
    n = 0
    for lab, d in sorted(per.items()):
        n += 1
        chk.instance(rule)
        if len(d) == 2:
            chk.violation(rule, "marsh.c", fn.name, lab, d[False].loc,
                          "arm %s of unmarshal_one returns at %s without appending the object to st->lookup, but appends it on "
                          "another path (%s): every later back-reference in such an image resolves to the wrong object" % (
                              lab, d[False].loc, d[True].loc))
        else:
            chk.ok(rule, "%s: %s" % (lab, "always appends" if True in d else "never appends"))
    chk.floor(rule, 10, n)


def run(chk):
    prog = Program.load("default")
    _order_rule(chk, prog)
    _derived_rule(chk, prog)
    _lead_rule(chk, prog)
    _fields_rule(chk, prog)
    _hooks_rule(chk, prog)
    _asm_rule(chk, prog)
    _asmops_rule(chk, prog)
    _intenc_rule(chk, prog)
    _signext_rule(chk, prog)
    _lookup_rule(chk, prog)
    _asmrange_rule(chk, prog)
    _framefresh_rule(chk, prog)
    _envlazy_rule(chk, prog)
    _flagorder_rule(chk, prog)
    _negzero_rule(chk, prog)
    _depthsym_rule(chk, prog)
    _writerpure_rule(chk, prog)
    _opmask_rule(chk, prog)
    _bitsetword_rule(chk, prog)
    _pegopmask_rule(chk, prog)
    _fiberargs_rule(chk, prog)
    _protopair_rule(chk, prog)


def _asmrange_rule(chk, prog):
    """An instruction field of w bits holding a signed operand can hold -2^(w-1) .. 2^(w-1) - 1; the disassembler and
    the interpreter decode the whole of that range.  The assembler's acceptance test must therefore use min = -max - 1:
    with a symmetric range the most negative immediate that disasm prints cannot be assembled again."""
    rule = "C09-ASMRANGE"
    chk.rule(rule, "the assembler accepts the full two's-complement range of a signed instruction field (min = -max - 1)")
    from jv.linear import linear
    fn = next((f for f in prog.all_funcs() if f.name == "doarg" and f.tu.name == "asm.c"), None)
    if fn is None:
        raise AnalysisBroken("asm.c: doarg not found")
    chk.analysed(fn)
    mins = [x for x in fn.nodes if x.k == "vardecl" and x.name == "min" and x.kids]
    maxs = [x for x in fn.nodes if x.k == "vardecl" and x.name == "max" and x.kids]
    if not mins or not maxs:
        raise AnalysisBroken("doarg: min / max not found")
    e = strip_casts(mins[0].kids[0])
    chk.instance(rule)
    signed_arm = e.kids[1] if e.k == "cond" and len(e.kids) == 3 else e
    lin = linear(signed_arm)
    if lin is not None and lin[0] == {"max": -1} and lin[1] == -1:
        chk.ok(rule, "doarg: signed minimum is -max - 1")
    else:
        chk.violation(rule, "asm.c", "doarg", "signed-min", mins[0].loc,
                      "doarg computes the smallest accepted signed operand as `%s`, not -max - 1: the most negative value the field can "
                      "hold (and that disasm prints, e.g. -128 for a one-byte immediate) is rejected as `too small`" % signed_arm.text()[:40])


def _framefresh_rule(chk, prog):
    """unmarshal_one_fiber rebuilds one stack frame per iteration of its frame loop.  Everything it stores into the frame
    header must have been produced for THIS frame: a local that is only conditionally set inside the loop (the closure
    environment, present only when the frame's flags say so) has to start each iteration from its neutral value, or a
    frame without environment inherits the environment of the frame handled before it."""
    rule = "C09-FRAMEFRESH"
    chk.rule(rule, "each value stored into a rebuilt stack-frame header is (re)initialised in the same iteration of the frame loop")
    fn = next((f for f in prog.all_funcs() if f.name == "unmarshal_one_fiber"), None)
    if fn is None:
        raise AnalysisBroken("unmarshal_one_fiber not found")
    chk.analysed(fn)
    n = 0
    for lp in fn.nodes:
        if lp.k not in ("while", "for", "do"):
            continue
        stores = [x for x in lp.walk() if x.k == "asg" and x.op == "=" and x.kids[0].k == "mem" and x.kids[0].rec == "JanetStackFrame"]
        if not stores:
            continue
        body = lp.kids[-1] if lp.k != "do" else lp.kids[0]
        top = list(body.kids) if body is not None and body.k == "compound" else [body]
        for st in stores:
            for v in [y for y in st.kids[1].walk() if y.k == "ref" and y.d.get("d") == "var"]:
                n += 1
                chk.instance(rule)
                fresh = False
                for stmt in top:
                    if stmt is None:
                        continue
                    if any(z is st for z in stmt.walk()):
                        break
                    # declared (with initialiser) or assigned unconditionally at the top level of the loop body
                    for z in ([stmt] if stmt.k in ("vardecl", "asg") else [k for k in stmt.kids if k is not None and k.k in ("vardecl", "asg")] if stmt.k in ("declstmt", "decl") else []):
                        if z.k == "vardecl" and z.name == v.name and z.kids:
                            fresh = True
                        if z.k == "asg" and z.op == "=" and z.kids[0].k == "ref" and z.kids[0].name == v.name:
                            fresh = True
                if fresh:
                    chk.ok(rule, "unmarshal_one_fiber: `%s` stored into the frame header is set afresh in each iteration" % v.name)
                else:
                    chk.violation(rule, "marsh.c", fn.name, "stale:%s" % v.name, st.loc,
                                  "`%s` stores `%s`, which is not initialised or unconditionally assigned at the top of the frame loop's body: "
                                  "when this frame does not set it, the value left over from the previously rebuilt frame goes into the header" % (
                                      st.text()[:40], v.name))
    chk.floor(rule, 4, n)


def _envlazy_rule(chk, prog):
    """An on-stack closure environment is stored with a negated offset and validated against its fiber's frames on
    first use.  It cannot be validated while the image is being read: when the fiber is reached first (fiber -> frame
    -> closure -> env -> reference back to the fiber) the fiber in the reference table has no frames yet, the check
    fails and an image that marshal produced from a good value is rejected."""
    rule = "C09-ENVLAZY"
    chk.rule(rule, "the reader does not validate an on-stack environment against its fiber while the image is still being read (janet_env_valid is not reachable from the unmarshal_one_* functions)")
    tu = prog.tus["marsh.c"]
    byname = {f.name: f for f in tu.funcs.values()}
    if not any(f.calls("janet_env_valid") for f in prog.all_funcs() if f.tu.name != "marsh.c"):
        raise AnalysisBroken("janet_env_valid has no callers outside marsh.c any more")
    n = 0
    for fn in tu.funcs.values():
        if not fn.name.startswith("unmarshal_one"):
            continue
        n += 1
        chk.instance(rule)
        chk.analysed(fn)
        # direct calls, and calls through file-local helpers that are not themselves part of the recursive reader
        work, seen, hit = [fn], set(), None
        while work and hit is None:
            g = work.pop()
            if g.name in seen:
                continue
            seen.add(g.name)
            for c in g.nodes:
                if c.k != "call" or not c.callee:
                    continue
                if c.callee == "janet_env_valid":
                    hit = c
                    break
                h = byname.get(c.callee)
                if h is not None and h.static and not h.name.startswith("unmarshal_one") and not h.name.startswith("marshal_one"):
                    work.append(h)
        if hit is None:
            chk.ok(rule, "%s: environments stay unvalidated until first use" % fn.name)
        else:
            chk.violation(rule, "marsh.c", fn.name, "eager-env-check", hit.loc,
                          "`%s` validates an environment against its fiber while the image is being read: if the fiber was reached "
                          "first it is in the reference table without frames, the check fails, and a value that marshals is rejected "
                          "when read back" % hit.text()[:60])
    chk.floor(rule, 4, n)


def _flagorder_rule(chk, prog):
    """janet_asm1 assembles def->flags from the optional keys of the input and derives other fields from them (the
    initial slot count reserves a slot for the rest argument when VARARG is set).  A field derived from a flag that is
    set further down is derived from a flag that is still clear."""
    rule = "C09-FLAGORDER"
    chk.rule(rule, "janet_asm1 reads a bit of def->flags only after every statement that can set that bit")
    fn = prog.need_func("janet_asm1", "asm.c")
    chk.analysed(fn)
    order = {id(x): i for i, x in enumerate(fn.nodes)}
    sets, reads = {}, []
    for x in fn.nodes:
        if x.k == "asg" and x.op in ("|=", "=") and x.kids[0].k == "mem" and x.kids[0].field == "flags" and x.kids[0].rec == "JanetFuncDef":
            for m in set(m for y in x.kids[1].walk() for m in y.macro_names() if m.startswith("JANET_FUNCDEF_FLAG_")):
                sets.setdefault(m, []).append(x)
        elif x.k == "bin" and x.op == "&" and any(y.k == "mem" and y.field == "flags" and y.rec == "JanetFuncDef" for y in x.kids[0].walk()) \
                and not (x.parent is not None and x.parent.k == "asg" and x.parent.kids[0] is x):
            for m in set(m for y in x.kids[1].walk() for m in y.macro_names() if m.startswith("JANET_FUNCDEF_FLAG_")):
                reads.append((m, x))
    if not reads:
        raise AnalysisBroken("janet_asm1 no longer derives anything from def->flags")
    for m, x in reads:
        chk.instance(rule)
        late = [w for w in sets.get(m, []) if order[id(w)] > order[id(x)]]
        if not late:
            chk.ok(rule, "janet_asm1: %s read at %s after it was assembled" % (m, x.loc))
        else:
            chk.violation(rule, "asm.c", "janet_asm1", "early-read:" + m, x.loc,
                          "`%s` reads %s before `%s` (%s) can set it: what is derived here (the initial slot count) misses the flag, "
                          "and a function that disasm produced is rejected or gets no slot for its rest argument" % (
                              x.text()[:50], m, late[0].text()[:50], late[0].loc))
    chk.floor(rule, 1, len(reads))


def _negzero_rule(chk, prog):
    """marshal writes a number that is a whole 32-bit value in the short integer form.  -0.0 passes the usual
    `is it an int32` test and its integer image is +0, so a function constant -0.0 came back as 0 and
    (/ x -0.0) computed +inf after a round trip.  The integer form is taken only where the sign bit was excluded."""
    rule = "C09-NEGZERO"
    chk.rule(rule, "marshal writes a number in the integer form only on paths that excluded -0.0 (sign bit tested, or the integer image is non-zero)")
    fn = prog.need_func("marshal_one", "marsh.c")
    chk.analysed(fn)
    sites = []
    for c in fn.calls("pushint"):
        a = c.args[1] if len(c.args) > 1 else None
        if a is not None and a.k == "cast" and any(y.k == "ref" and (y.t or "") == "double" for y in a.walk()):
            sites.append(c)
    if not sites:
        raise AnalysisBroken("marshal_one: the integer short form for numbers was not found")
    IN, T = flow.condition_facts(fn)
    res = {}
    for x, S in flow.states_at(fn, IN, T):
        if x in sites:
            def good(ps):
                for (op, l, r, toks, ln, rn) in ps:
                    if ln is not None and ("signbit" in ln.macro_names() or "signbit(" in l or "__builtin_signbit" in l) and op == "==" and (rn is None or rn.v == 0):
                        return True
                    if ln is not None and op == "!=" and rn is not None and rn.v == 0 and any(y.k == "ref" and (y.t or "") == "double" for y in ln.walk()):
                        return True
                return False
            res[id(x)] = bool(S) and all(good(ps) for ps in S)
    for c in sites:
        chk.instance(rule)
        if res.get(id(c)):
            chk.ok(rule, "marshal_one: `%s` only for a value that is not -0.0" % c.text()[:40])
        else:
            chk.violation(rule, "marsh.c", "marshal_one", "negative-zero", c.loc,
                          "`%s` is reached for -0.0 (it passes the int32 range test and its integer image is +0): the sign is lost, "
                          "a function constant -0.0 comes back as 0 and (/ x -0.0) gives inf instead of -inf after a round trip" % c.text()[:40])
    chk.floor(rule, 1, len(sites))


def _depthsym_rule(chk, prog):
    """Writer and reader guard their recursion with the same limit, counted in the low bits of `flags`.  If the reader
    spends more levels than the writer on the same edge of the value graph (function -> its definition, definition
    -> its constants ...), there are values the writer accepts and the reader refuses: a chain of 600 functions,
    each a constant of the next, marshalled fine and raised `stack overflow` when read back."""
    rule = "C09-DEPTHSYM"
    chk.rule(rule, "for every kind of nesting, marshal_X -> marshal_Y and unmarshal_X -> unmarshal_Y step the recursion depth by the same amount")
    tu = prog.tus["marsh.c"]

    def edges(prefix):
        out = {}
        for fn in tu.funcs.values():
            if not fn.name.startswith(prefix + "_one"):
                continue
            a = fn.name[len(prefix):]
            for c in fn.nodes:
                if c.k != "call" or not (c.callee or "").startswith(prefix + "_one"):
                    continue
                b = c.callee[len(prefix):]
                f = strip_casts(c.args[-1])
                if f.k == "ref" and f.name == "flags":
                    k = 0
                elif f.k == "bin" and f.op == "+" and strip_casts(f.kids[0]).k == "ref" and strip_casts(f.kids[1]).k == "int":
                    k = strip_casts(f.kids[1]).v
                else:
                    continue
                out.setdefault((a, b), {}).setdefault(k, []).append((fn, c))
        return out
    W, R = edges("marshal"), edges("unmarshal")
    n = 0
    for e in sorted(set(W) & set(R)):
        n += 1
        chk.instance(rule)
        chk.analysed(R[e][sorted(R[e])[0]][0][0])
        if set(W[e]) == set(R[e]):
            chk.ok(rule, "%s -> %s: both sides step by %s" % (e[0], e[1], sorted(W[e])))
        else:
            k = sorted(set(R[e]) - set(W[e]) or set(R[e]))[0]
            fn, c = R[e][k][0]
            chk.violation(rule, "marsh.c", fn.name, "step:%s->%s" % (e[0].lstrip("_"), e[1].lstrip("_")), c.loc,
                          "`%s` steps the depth by %s where the writer steps by %s on the same kind of nesting: values the writer "
                          "accepts at the recursion limit are refused by the reader (or the other way round)" % (c.text()[:60], sorted(R[e]), sorted(W[e])))
    chk.floor(rule, 5, n)


VALUE_RECORDS = ("JanetStackFrame", "JanetFiber", "JanetFuncDef", "JanetFuncEnv", "JanetFunction", "JanetTable", "JanetArray",
                 "JanetBuffer", "JanetKV", "JanetStructHead", "JanetTupleHead", "JanetStringHead", "JanetAbstractHead", "JanetSymbolMap")


def _writerpure_rule(chk, prog):
    """Marshalling is an observation: the value must be the same afterwards.  marshal_one_fiber used to record `this
    frame has an environment` in the LIVE frame's flags; when the fiber later dropped that environment (a tail call)
    the bit stayed, and the next image announced an environment it did not contain - unreadable."""
    rule = "C09-WRITERPURE"
    chk.rule(rule, "the marshal_* functions store only into the writer's own state, never into the values they serialise")
    tu = prog.tus["marsh.c"]
    n = 0
    for fn in tu.funcs.values():
        if not (fn.name.startswith("marshal_") or fn.name.startswith("janet_marshal")):
            continue
        n += 1
        chk.instance(rule)
        chk.analysed(fn)
        bad = None
        for x in fn.nodes:
            t = None
            if x.k == "asg":
                t = x.kids[0]
            elif x.k == "un" and x.op in ("post++", "pre++", "post--", "pre--"):
                t = x.kids[0]
            if t is not None and t.k == "mem" and t.rec in VALUE_RECORDS:
                base = strip_casts(t.kids[0])
                # a local struct built by the function itself is its own
                if base.k == "ref" and any(d.k == "vardecl" and d.name == base.name and "*" not in (d.t or "") for d in fn.nodes):
                    continue
                bad = x
                break
        if bad is None:
            chk.ok(rule, "%s: no store into a serialised value" % fn.name)
        else:
            chk.violation(rule, "marsh.c", fn.name, "store:%s.%s" % (bad.kids[0].rec, bad.kids[0].field), bad.loc,
                          "`%s` changes the value that is being marshalled: what was written into it survives the call and shows up in "
                          "later images or in the running program" % bad.text()[:60])
    chk.floor(rule, 8, n)


def _opmask_rule(chk, prog):
    """Bit 7 of an instruction word is the breakpoint flag; the opcode is the low 7 bits.  Code that classifies an
    instruction with `& 0xFF` sees a different opcode when a breakpoint is set: janet_verify rejected every function
    whose LAST instruction carries a breakpoint, so such a function marshalled but could not be read back."""
    rule = "C09-OPMASK"
    chk.rule(rule, "every place that classifies an instruction word by its opcode masks with 0x7F (the breakpoint bit is not part of the opcode)")
    n = 0
    for tun in ("bytecode.c", "asm.c", "debug.c", "marsh.c"):
        tu = prog.tus.get(tun)
        if tu is None:
            continue
        for fn in tu.funcs.values():
            for x in fn.nodes:
                if not (x.k == "bin" and x.op == "&"):
                    continue
                l, r = strip_casts(x.kids[0]), strip_casts(x.kids[1])
                if r.k != "int" or r.v not in (0x7F, 0xFF):
                    continue
                word = (l.k == "ref" and l.name in ("instr", "instruction")) or \
                    (l.k == "sub" and any(y.k == "mem" and y.field == "bytecode" for y in l.walk())) or \
                    (l.k == "un" and l.op == "*" and any(y.k == "ref" and y.name == "pc" for y in l.walk()))
                if not word:
                    continue
                # is the masked value used as an opcode: a switch subject, an index into janet_instructions, compared with JOP_*
                p = x.parent
                while p is not None and p.k in ("cast", "paren"):
                    p = p.parent
                as_op = False
                if p is not None and p.k == "switch":
                    as_op = True
                elif p is not None and p.k == "sub":
                    as_op = "janet_instructions" in p.text() or "janet_instruction" in p.text()
                elif p is not None and p.k == "bin" and p.op in ("==", "!=", ">=", "<"):
                    as_op = any(y.k == "ref" and (y.name or "").startswith("JOP_") for y in p.walk())
                elif p is not None and p.k == "vardecl" and p.name in ("opcode", "lastop", "op"):
                    as_op = True
                if not as_op:
                    continue
                n += 1
                chk.instance(rule)
                chk.analysed(fn)
                if r.v == 0x7F:
                    chk.ok(rule, "%s: `%s`" % (fn.name, x.text()[:40]))
                else:
                    chk.violation(rule, tun, fn.name, "mask-0xFF", x.loc,
                                  "`%s` takes the opcode together with the breakpoint bit: with a breakpoint on that instruction it "
                                  "is classified as a different opcode (janet_verify: a function with a breakpoint on its last "
                                  "instruction marshals but is rejected when read back)" % x.text()[:50])
    chk.floor(rule, 5, n)


def _bitsetword_rule(chk, prog):
    """A definition's closure bitset has one 32-bit word per 32 slots.  Code that filters slots through it must pick
    the word by the slot index (bitset[i >> 5]); a mask loaded once and shifted along is right for the first 32 slots
    and wrong - all zeros - from slot 32 on: captured variables in high slots are written as nil."""
    rule = "C09-BITSETWORD"
    chk.rule(rule, "every read of a closure bitset selects the word by the slot index (bitset[i >> 5]), never the first word alone")
    n = 0
    for fn in prog.all_funcs():
        bvars = set()
        for x in fn.nodes:
            if x.k in ("vardecl", "asg") and x.kids and strip_casts(x.kids[-1]).k == "mem" and strip_casts(x.kids[-1]).field == "closure_bitset":
                bvars.add(x.name if x.k == "vardecl" else (x.kids[0].name if x.kids[0].k == "ref" else None))
        bvars.discard(None)
        if not bvars:
            continue
        for x in fn.nodes:
            rd = None
            if x.k == "un" and x.op == "*" and strip_casts(x.kids[0]).k == "ref" and strip_casts(x.kids[0]).name in bvars:
                rd = ("deref", x)
            elif x.k == "sub" and strip_casts(x.kids[0]).k == "ref" and strip_casts(x.kids[0]).name in bvars:
                rd = ("sub", x)
            if rd is None:
                continue
            n += 1
            chk.instance(rule)
            chk.analysed(fn)
            idx_ok = rd[0] == "sub" and any(y.k == "bin" and ((y.op == ">>" and strip_casts(y.kids[1]).v == 5) or (y.op == "/" and strip_casts(y.kids[1]).v == 32))
                                            for y in x.kids[1].walk())
            if idx_ok:
                chk.ok(rule, "%s: `%s`" % (fn.name, x.text()[:40]))
            else:
                chk.violation(rule, fn.tu.name, fn.name, "first-word", x.loc,
                              "`%s` reads the closure bitset without selecting the word for the slot at hand: slots 32 and up are "
                              "filtered with the wrong bits, and a captured variable there is dropped from the copied environment" % x.text()[:40])
    chk.floor(rule, 2, n)


def _pegopmask_rule(chk, prog):
    """A PEG operand word may pack flags next to a number (the width of (int n) carries the signedness and endianness
    bits).  The matcher masks before it uses the number; the image verifier has to apply the same mask before it
    compares the number with its limit, or it rejects what the compiler emits: (unmarshal (marshal (peg/compile
    '(int 2)))) raised `invalid peg bytecode`."""
    rule = "C09-PEGOPMASK"
    chk.rule(rule, "where the PEG matcher masks an operand word before using it as a number, the image verifier compares the masked value, not the whole word")
    from jv.util import switch_cases, case_name, case_map
    full = Program.load("default", units=["peg.c"])
    tu = full.tus["peg.c"]
    m = next((f for f in tu.funcs.values() if f.name == "peg_rule"), None)
    v = next((f for f in tu.funcs.values() if f.name == "peg_unmarshal"), None)
    if m is None or v is None:
        raise AnalysisBroken("peg_rule / peg_unmarshal not found")
    chk.analysed(m)
    chk.analysed(v)

    def arms(fn):
        sw = [x for x in fn.nodes if x.k == "switch"]
        out = {}
        for s_ in sw:
            cm = case_map(s_)
            for nid, labs in cm.items():
                for lab in labs:
                    out.setdefault(lab, []).append(fn.nodes[nid])
        return out
    ma, va = arms(m), arms(v)
    n = 0
    for lab in sorted(set(ma) & set(va)):
        if not lab.startswith("RULE_"):
            continue
        # operands the matcher masks with a constant before use: rule[k] & C
        masked = {}
        for x in ma[lab]:
            for y in x.walk():
                if y.k == "bin" and y.op == "&" and strip_casts(y.kids[0]).k == "sub" and strip_casts(y.kids[1]).k == "int":
                    sb = strip_casts(y.kids[0])
                    if is_ref(strip_casts(sb.kids[0]), "rule") and strip_casts(sb.kids[1]).k == "int":
                        masked.setdefault(strip_casts(sb.kids[1]).v, set()).add(strip_casts(y.kids[1]).v)
        for k, masks in sorted(masked.items()):
            if len(masks) < 2:
                continue                    # a single mask is a plain truncation, not packed fields
            n += 1
            chk.instance(rule)
            whole = None
            for x in va[lab]:
                for y in x.walk():
                    if y.k == "bin" and y.op in (">", ">=", "<", "<=") and any(
                            strip_casts(kid).k == "sub" and is_ref(strip_casts(strip_casts(kid).kids[0]), "rule") and strip_casts(strip_casts(kid).kids[1]).v == k
                            for kid in y.kids):
                        whole = y
            if whole is None:
                chk.ok(rule, "%s: operand %d is compared only after masking" % (lab, k))
            else:
                chk.violation(rule, "peg.c", "peg_unmarshal", "%s:operand%d" % (lab, k), whole.loc,
                              "`%s` compares the whole operand word of %s, which the matcher takes apart with the masks %s: every "
                              "value of the flag bits makes the word exceed the limit and a grammar the compiler produced is refused "
                              "when its image is read back" % (whole.text()[:50], lab, sorted(hex(mm) for mm in masks)))
    chk.floor(rule, 1, n)


def _protopair_rule(chk, prog):
    """Tables travel under one of eight lead bytes: four kinds (plain, weak keys, weak values, weak both), each with and
    without a prototype.  The reader picks the constructor by testing `lead == X_PROTO || lead == X`: the two names of
    one test must be the same kind, or a table of one kind with a prototype is rebuilt as another kind - silently, the
    stream stays aligned."""
    rule = "C09-PROTOPAIR"
    chk.rule(rule, "in unmarshal_one every `lead == A || lead == B` test over table lead bytes names the with-prototype and without-prototype form of the same kind")
    fn = prog.tus["marsh.c"].funcs.get("unmarshal_one")
    if fn is None:
        raise AnalysisBroken("unmarshal_one not found")
    chk.analysed(fn)
    n = 0
    for x in fn.nodes:
        if x.k != "bin" or x.op != "||" or (x.parent is not None and x.parent.k == "bin" and x.parent.op == "||"):
            continue
        names = [y.name for y in x.walk() if y.k == "ref" and y.name.startswith("LB_TABLE")]
        if len(names) != 2:
            continue
        n += 1
        chk.instance(rule)
        a, b = sorted(names, key=len)
        if b == a + "_PROTO":
            chk.ok(rule, "%s / %s" % (a, b))
        else:
            chk.violation(rule, "marsh.c", "unmarshal_one", "%s|%s" % (a, b), x.loc,
                          "`%s` pairs %s with %s, which are not the two forms of one table kind: a table written under the lead byte that "
                          "this test should have named falls through to another constructor and comes back as a different kind of table "
                          "(a weak table with a prototype as an ordinary one)" % (x.text()[:70], a, b))
    chk.floor(rule, 3, n)
