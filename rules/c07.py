"""C07 - a suspended fiber is resumed only by what it is currently waiting for.

C07-SCHED       R-SCHED over ev.c, os.c, net.c, filewatch.c
C07-GENERATION  fiber->sched_id is incremented only at the three suspension points
C07-DETACH      janet_continue_no_check detaches listeners (janet_fiber_did_resume) before run_vm
"""
from jv.facts import Program, AnalysisBroken
from jv.util import is_ref, is_mem, strip_casts
from jv import flow
from rules import sched

EXPLANATION = (
    "Static typestate rule over the event-loop units: every fiber pointer read out of a queued record "
    "(run-queue task, timer, pending channel reader/writer, cross-thread message) may flow into "
    "janet_schedule*/janet_cancel/janet_continue* only on CFG paths that took the equal edge of a comparison "
    "between the record's saved sched_id and fiber->sched_id (path-sensitive dataflow with boolean-flag "
    "refinement); plus who-may-write of sched_id and the detach-before-run ordering.  Decides the structural "
    "staleness discipline, not timing behaviour.")
ASSUMPTIONS = ["default Linux configuration (epoll)", "whole-fiber deadlines are checked against janet_fiber_can_resume by design"]

UNITS = ["ev.c", "os.c", "net.c", "filewatch.c", "vm.c", "capi.c", "fiber.c"]

# sink sites exempt from the sched_id comparison, with reason; key (function, record type, fiber text)
SCHED_EXCEPTIONS = {
    ("janet_loop1", "JanetTimeout", "to.fiber"):
        "deadline timeout (to.curr_fiber != NULL): documented semantics is 'cancel the fiber if the deadline's "
        "owner can still be resumed'; guarded by janet_fiber_can_resume(to.curr_fiber)",
}


def _sched_rule(chk, prog):
    rule = "C07-SCHED"
    chk.rule(rule, "fiber from a queued record reaches a resume sink only after its sched_id was compared equal")
    flows = 0
    for tu in ("ev.c", "os.c", "net.c", "filewatch.c"):
        for fn in prog.tus[tu].funcs.values():
            res = sched.analyse(fn)
            if not res:
                continue
            chk.analysed(fn)
            reported = set()
            for (n, key, rv, ok, how, canres, rtype) in res:
                flows += 1
                chk.instance(rule)
                if not ok and (key in reported):
                    continue
                if ok:
                    chk.ok(rule, "%s: %s(%s) [%s] %s" % (fn.name, n.callee, key, rtype, how))
                    continue
                ek = (fn.name, rtype, key)
                if ek in SCHED_EXCEPTIONS and any(t.endswith("curr_fiber") for t in canres):
                    # the exception only covers the branch guarded by can_resume on the deadline's OWNER (curr_fiber, the body
                    # the deadline was set for) - testing the fiber to be cancelled instead says nothing about whether the
                    # deadline is still wanted
                    chk.exception(rule, "%s %s" % (fn.name, key), SCHED_EXCEPTIONS[ek])
                    chk.ok(rule, "%s: %s(%s) deadline idiom" % (fn.name, n.callee, key))
                    continue
                reported.add(key)
                chk.violation(rule, tu, fn.name, key, n.loc,
                              "%s(%s, ...) resumes a fiber taken from a queued %s without comparing the saved "
                              "sched_id with %s->sched_id on every path%s: a waiter that was cancelled and is now "
                              "waiting for something else would be woken by this event" % (
                                  n.callee, key, rtype, key, " (janet_fiber_can_resume alone does not tell)" if canres else ""))
    chk.floor(rule, 12)


def _generation_rule(chk, prog):
    rule = "C07-GENERATION"
    chk.rule(rule, "sched_id is modified only in janet_schedule_general, janet_signalv and janet_call")
    allowed = {"janet_schedule_general", "janet_signalv", "janet_call"}
    n = 0
    for fn in prog.all_funcs():
        for x in fn.nodes:
            tgt = None
            if x.k == "un" and x.op in ("pre++", "post++", "pre--", "post--"):
                tgt = x.kids[0]
            elif x.k == "asg":
                tgt = x.kids[0]
            if tgt is not None and is_mem(tgt, "sched_id", "JanetFiber"):
                n += 1
                chk.instance(rule)
                zero_init = x.k == "asg" and x.op == "=" and x.kids[1].v == 0
                if fn.name in allowed or zero_init:
                    chk.ok(rule, "%s: %s" % (fn.name, x.text()))
                else:
                    chk.violation(rule, fn.tu.name, fn.name, "sched_id", x.loc,
                                  "fiber generation counter modified outside the suspension points: %s" % x.text())
    chk.floor(rule, 3)
    # who-must-write: each suspension point invalidates the outstanding registrations.  janet_call and janet_signalv
    # are siblings (an await that is coerced to an error while C code re-entered the VM abandons its wait in either).
    for w in sorted(allowed):
        chk.instance(rule)
        fn = next((f for f in prog.all_funcs() if f.name == w), None)
        if fn is None:
            raise AnalysisBroken("generation writer %s not found" % w)
        incs = [x for x in fn.nodes if x.k == "un" and x.op in ("pre++", "post++") and is_mem(x.kids[0], "sched_id", "JanetFiber")]
        if incs:
            chk.ok(rule, "%s still invalidates outstanding registrations (%s)" % (w, incs[0].text()))
        else:
            chk.violation(rule, fn.tu.name, w, "bump-missing", fn.loc,
                          "%s no longer increments the fiber's sched_id: a wait abandoned there (await coerced to an error, "
                          "re-scheduling) keeps a matching generation, so its timer/channel/stream registration can still "
                          "resume the fiber out of whatever it waits for next" % w)


def _detach_rule(chk, prog):
    rule = "C07-DETACH"
    chk.rule(rule, "janet_continue_no_check calls janet_fiber_did_resume before it runs the fiber or continues its child chain, on every path")
    from jv import flow
    fn = prog.need_func("janet_continue_no_check", "vm.c")
    chk.analysed(fn)

    def transfer(st, n):
        if n.k == "call" and n.callee == "janet_fiber_did_resume":
            return frozenset(["d"])
        return st

    IN, OUT = flow.forward(fn, frozenset(), transfer, lambda a, b: a & b)
    cnt = 0
    for b, st in IN.items():
        for n in fn.blocks[b].elems:
            # continuing the child chain IS running this fiber: the child may suspend again and the function
            # returns from inside that block, so a detach placed below it is skipped on exactly that path
            if n.k == "call" and n.callee in ("run_vm", "janet_continue", "janet_continue_signal", "janet_continue_no_check"):
                cnt += 1
                chk.instance(rule)
                if "d" in st:
                    chk.ok(rule, "%s call at %s preceded by janet_fiber_did_resume" % (n.callee, n.loc))
                else:
                    chk.violation(rule, "vm.c", fn.name, n.callee, n.loc,
                                  "the fiber (or its child chain) is run by `%s` without janet_fiber_did_resume on some path: a stream "
                                  "listener of the previous wait would outlive it and a later event on the old stream resumes the fiber "
                                  "out of its new wait" % n.text()[:40])
            st = transfer(st, n)
    # janet_fiber_did_resume must end the async wait
    fdr = prog.need_func("janet_fiber_did_resume", "ev.c")
    if fdr.calls("janet_async_end"):
        chk.instance(rule)
        chk.ok(rule, "janet_fiber_did_resume calls janet_async_end")
    else:
        chk.violation(rule, "ev.c", fdr.name, "janet_async_end", fdr.loc, "janet_fiber_did_resume no longer ends the async wait")
    ae = prog.need_func("janet_async_end", "ev.c")
    cleared = set()
    for x in ae.nodes:
        if x.k == "asg" and x.op == "=" and x.kids[0].k == "mem" and strip_casts(x.kids[1]).v == 0:
            cleared.add(x.kids[0].field)
    for fld in ("ev_callback", "read_fiber", "write_fiber"):
        chk.instance(rule)
        if fld in cleared:
            chk.ok(rule, "janet_async_end clears %s" % fld)
        else:
            chk.violation(rule, "ev.c", ae.name, fld, ae.loc, "janet_async_end does not clear %s" % fld)
    chk.floor(rule, 6)


def _enqueue_rule(chk, prog):
    rule = "C07-GENERATION"
    from jv import flow
    fn = prog.need_func("janet_schedule_general", "ev.c")
    chk.analysed(fn)
    incs = [x for x in fn.nodes if x.k == "un" and x.op in ("pre++", "post++") and is_mem(x.kids[0], "sched_id", "JanetFiber")]
    if not incs:
        raise AnalysisBroken("janet_schedule_general: sched_id increment not found")

    def transfer(st, n):
        if n in incs:
            return frozenset(["bumped"])
        if n.k == "call" and n.callee in ("janet_q_push", "janet_q_push_head") and any(is_mem(x, "spawn", "JanetVM") for x in n.walk()):
            return frozenset()
        return st
    IN, OUT = flow.forward(fn, frozenset(), transfer, lambda a, b: a | b)
    st = IN.get(fn.exit)
    chk.instance(rule)
    if st:
        chk.violation(rule, "ev.c", fn.name, "bump-without-enqueue", incs[0].loc,
                      "janet_schedule_general advances the fiber's generation on a path that returns without enqueuing the task: "
                      "a task or timeout already queued for the fiber becomes stale and its wake-up is discarded")
    else:
        chk.ok(rule, "every path that advances sched_id enqueues the task that carries it")


def _timeout_rule(chk, prog):
    rule = "C07-TIMEOUT"
    chk.rule(rule, "after a timeout is armed for the current wait nothing can raise before the fiber suspends")
    from jv import flow
    from jv.summaries import Summaries
    full = Program.load("default")
    S_ = Summaries(full)
    n = 0
    for fn in full.all_funcs():
        arms = fn.calls("janet_addtimeout", "janet_addtimeout_nil")
        if not arms:
            continue
        chk.analysed(fn)

        GETTER_OF = {"JANET_BUFFER": "janet_getbuffer", "JANET_STRING": "janet_getstring", "JANET_ARRAY": "janet_getarray",
                     "JANET_TABLE": "janet_gettable", "JANET_FIBER": "janet_getfiber", "JANET_FUNCTION": "janet_getfunction"}

        def transfer(st, x):
            if x in arms:
                return st | frozenset([("armed",)])
            return st

        def edge(st, blk, succ, cond, truth):
            # janet_checktype(argv[k], JANET_T) known true: the matching getter on argv[k] cannot raise
            if cond is None or not truth:
                return st
            for x in cond.walk():
                names = x.macro_names()
                if "janet_checktype" in names:
                    subs = [y for y in cond.walk() if y.k == "sub"]
                    enums = [y.name for y in cond.walk() if y.k == "ref" and y.d.get("d") == "enum" and y.name in GETTER_OF]
                    if subs and enums and subs[0].kids[1].v is not None:
                        return st | frozenset([("typed", subs[0].kids[0].text(), subs[0].kids[1].v, GETTER_OF[enums[0]])])
            return st
        IN, OUT, T = flow.forward_paths(fn, frozenset(), transfer, edge)
        bad = []
        for b, S in IN.items():
            for x in fn.blocks[b].elems:
                if x.k == "call" and x not in arms and not full.is_noreturn(x.callee or "") and S_.call_in(fn, x, S_.may_panic):
                    for s2 in S:
                        if ("armed",) not in s2:
                            continue
                        if len(x.args) >= 2 and x.args[1].v is not None and \
                                ("typed", x.args[0].text(), x.args[1].v, x.callee) in s2:
                            continue
                        bad.append(x)
                        break
                S = T(S, x)
        n += 1
        chk.instance(rule)
        if bad:
            chk.violation(rule, fn.tu.name, fn.name, bad[0].callee or "call", bad[0].loc,
                          "%s arms a timeout and can then raise in %s before suspending: the timeout stays queued with the fiber's "
                          "current generation and cancels its next, unrelated wait" % (fn.name, bad[0].text()[:40]))
        else:
            chk.ok(rule, "%s: nothing can raise between arming the timeout and suspending" % fn.name)

    # the call that ends the function after arming is itself a small function that registers the wait and suspends
    # (janet_ev_read -> janet_ev_read_generic -> janet_async_start -> janet_await): nothing on that way may raise either
    awaiters = set()
    for fn in full.all_funcs():
        arms = fn.calls("janet_addtimeout", "janet_addtimeout_nil")
        if not arms:
            continue
        first = min(a.ln for a in arms)
        for c in fn.calls():
            if c.callee and c.ln > first and full.is_noreturn(c.callee) and not c.callee.startswith("janet_panic"):
                awaiters.add(c.callee)
    byname = {}
    for f_ in full.all_funcs():
        byname.setdefault(f_.name, f_)
    todo = list(awaiters)
    while todo:
        f = byname.get(todo.pop())
        if f is None:
            continue
        for c in f.calls():
            if c.callee and full.is_noreturn(c.callee) and c.callee not in awaiters and not c.callee.startswith("janet_panic") \
                    and c.callee not in ("janet_signalv", "abort", "exit", "janet_await"):
                awaiters.add(c.callee)
                todo.append(c.callee)
    # the registration helper the awaiters share is part of the same hand-over
    for nm in list(awaiters):
        f = byname.get(nm)
        if f is not None:
            for c in f.calls():
                if c.callee and "async_start" in c.callee:
                    awaiters.add(c.callee)
    for nm in sorted(awaiters):
        f = byname.get(nm)
        if f is None:
            continue
        chk.analysed(f)
        chk.instance(rule)
        # direct raises only: the registration goes through event-callback pointers (INIT), which the may-raise summary
        # cannot bound, so the clause is limited to what these few functions do themselves
        bad = [c for c in f.calls() if (c.callee or "").startswith("janet_panic") or c.callee == "janet_signalv"]
        if bad:
            chk.violation(rule, f.tu.name, f.name, "awaiter:%s" % (bad[0].callee or "pointer"), bad[0].loc,
                          "%s is what a stream operation calls to register and suspend after it has armed its timeout, and `%s` in it can "
                          "raise: the timeout then stays armed with the fiber's current generation and fires into the fiber's next wait" % (
                              f.name, bad[0].text()[:50]))
        else:
            chk.ok(rule, "%s: registers and suspends without a raising call" % f.name)
    if n < 6:
        raise AnalysisBroken("only %d functions arming timeouts found" % n)

def run(chk):
    prog = Program.load("default", units=UNITS)
    _sched_rule(chk, prog)
    _generation_rule(chk, prog)
    _enqueue_rule(chk, prog)
    _detach_rule(chk, prog)
    _timeout_rule(chk, prog)
    _timernow_rule(chk, prog)
    _cbgrow_rule(chk, prog)
    _rootflag_rule(chk, prog)
    _loopraise_rule(chk, prog)
    _timerarm_rule(chk, prog)
    _coercedetach_rule(chk, prog)
    _cancelsticks_rule(chk, prog)
    from rules import c07_boot
    c07_boot.run(chk)
    from rules.c14 import _castrange_rule
    _castrange_rule(chk, prog.tus["ev.c"], rule="C07-TIMECAST",
                    desc="a duration is converted to the timer queue's integer timestamp only after NaN and out-of-range values were excluded "
                         "(otherwise the deadline lands in the past)",
                    floor=1, only=("ts_delta",), need_nan=True)


def _timernow_rule(chk, prog):
    """A timer must not fire before its duration has passed since it was registered.  The expiry pass compares `when`
    with the clock, so `when` has to be built from the clock read at registration: a base taken earlier (a time cached
    when the loop last came back from polling) makes every timer registered by a long-running task, or late in a pass,
    fire early by the time already spent."""
    rule = "C07-TIMERNOW"
    chk.rule(rule, "every timer's `when` is ts_delta(ts_now(), duration): the base is the clock read at the registration itself")
    n = 0
    for fn in prog.tus["ev.c"].funcs.values():
        for x in fn.nodes:
            if not (x.k == "asg" and x.op == "=" and x.kids[0].k == "mem" and x.kids[0].field == "when" and x.kids[0].rec == "JanetTimeout"):
                continue
            rhs = strip_casts(x.kids[1])
            if rhs.k == "mem" and rhs.field == "when":
                continue        # copying an existing entry
            n += 1
            chk.instance(rule)
            chk.analysed(fn)
            base = strip_casts(rhs.args[0]) if rhs.k == "call" and rhs.callee == "ts_delta" and rhs.args else None
            if base is not None and base.k == "call" and base.callee == "ts_now":
                chk.ok(rule, "%s: `%s`" % (fn.name, x.text()[:50]))
            else:
                chk.violation(rule, "ev.c", fn.name, "timer-base", x.loc,
                              "`%s` does not measure the timer from ts_now() read at this registration: a base that is older than the "
                              "registration lets the timer fire before its duration has passed" % x.text()[:70])
    chk.floor(rule, 4, n)


def _cbgrow_rule(chk, prog):
    """An event callback runs with its fiber attached to the stream and, possibly, a timeout armed - from the loop, or
    (the INIT step) from inside the awaiting function after both were set up.  It reports failure with janet_cancel +
    janet_async_end, which go through the scheduler and invalidate the registration and the timer.  Growing a buffer
    by a caller-chosen amount raises `buffer overflow` when count + n passes INT32_MAX - reachable with an ordinary
    argument, (ev/read s 0x7fffffff @"x" 0.3) - so the callback has to test for that itself first."""
    rule = "C07-CBGROW"
    chk.rule(rule, "an event callback grows a buffer by a requested amount only after comparing the buffer's count with INT32_MAX minus that amount (a raise would leave the listener and the timeout behind)")
    n = 0
    for fn in prog.all_funcs():
        ps = fn.params
        if not (len(ps) == 2 and "JanetAsyncEvent" in ps[1]["t"] and "JanetFiber" in ps[0]["t"]):
            continue
        grows = [c for c in fn.calls("janet_buffer_extra", "janet_buffer_ensure", "janet_buffer_setcount")
                 if len(c.args) >= 2 and strip_casts(c.args[1]).k != "int"]
        if not grows:
            continue
        chk.analysed(fn)
        IN, T = flow.condition_facts(fn)
        res = {}
        for x, S in flow.states_at(fn, IN, T):
            if x in grows:
                amt = set(r.name for r in x.args[1].walk() if r.k == "ref")
                def guarded(ps_):
                    for (op, l, r, toks, ln, rn) in ps_:
                        if ln is None or rn is None:
                            continue
                        both = list(ln.walk()) + list(rn.walk())
                        if any(y.k == "mem" and y.field == "count" and y.rec == "JanetBuffer" for y in both) and \
                                any("INT32_MAX" in y.macro_names() or y.v == 2 ** 31 - 1 for y in both) and (amt & set(toks)):
                            return True
                    return False
                res[id(x)] = bool(S) and all(guarded(ps_) for ps_ in S)
        for c in grows:
            n += 1
            chk.instance(rule)
            if res.get(id(c)):
                chk.ok(rule, "%s: `%s` after the overflow test" % (fn.name, c.text()[:50]))
            else:
                chk.violation(rule, fn.tu.name, fn.name, "grow:" + strip_casts(c.args[1]).text().replace(" ", ""), c.loc,
                              "`%s` raises `buffer overflow` when the buffer's count plus the requested amount passes INT32_MAX; inside "
                              "this callback the fiber is already attached to the stream and its timeout armed, and a raise undoes "
                              "neither: the stale timeout fires into the fiber's next wait, or its next stream operation aborts the "
                              "process (`double async on fiber`)" % c.text()[:50])
    chk.floor(rule, 1, n)


def _rootflag_rule(chk, prog):
    """A fiber handed to the scheduler belongs to the event loop from that moment on (janet_schedule_general sets a
    flag on it), whether it has run yet or not: its queue entry stays valid, so a plain `resume` of it would run it
    nested in the caller and the loop would later continue it a second time.  The resume path must refuse on the very
    flag the scheduler sets - not on one that is set only later (when the task first parks)."""
    rule = "C07-ROOTFLAG"
    chk.rule(rule, "janet_check_can_resume refuses a fiber on the flag that janet_schedule_general sets when it takes the fiber over")
    sg = next((f for f in prog.tus["ev.c"].funcs.values() if f.name == "janet_schedule_general"), None)
    cr = next((f for f in prog.all_funcs() if f.name == "janet_check_can_resume"), None)
    if sg is None or cr is None:
        raise AnalysisBroken("janet_schedule_general / janet_check_can_resume not found")
    chk.analysed(sg)
    chk.analysed(cr)
    owned = set()
    for x in sg.nodes:
        if x.k == "asg" and x.op == "|=" and x.kids[0].k == "mem" and x.kids[0].field == "flags" and \
                not any(y.k in ("if",) for y in [x.parent] if y is not None):
            owned |= set(m for y in x.kids[1].walk() for m in y.macro_names() if m.startswith("JANET_FIBER_"))
    owned -= {"JANET_FIBER_EV_FLAG_CANCELED"}
    if not owned:
        raise AnalysisBroken("janet_schedule_general: the ownership flag was not found")
    tested = set()
    for x in cr.nodes:
        if x.k == "if" and any(c.k == "return" for c in x.kids[1].walk()):
            tested |= set(m for y in x.kids[0].walk() for m in y.macro_names() if m.startswith("JANET_FIBER_"))
    chk.instance(rule)
    if owned & tested:
        chk.ok(rule, "janet_check_can_resume refuses on %s, which janet_schedule_general sets" % sorted(owned & tested))
    else:
        chk.violation(rule, cr.tu.name, "janet_check_can_resume", "ownership-flag", cr.loc,
                      "janet_schedule_general marks a fiber it takes over with %s, but janet_check_can_resume refuses on %s: a task that "
                      "was scheduled and has not parked yet can be resumed by hand, runs nested in the caller, and is continued again "
                      "by the loop from the middle of its wait" % (sorted(owned), sorted(tested) or "nothing"))
    chk.floor(rule, 1)


RAISERS = ("janet_panic", "janet_panicv", "janet_panicf", "janet_panics", "janet_signalv")


def _loopraise_rule(chk, prog):
    """Between two tasks the event loop runs on no fiber: there is nothing to deliver an error to, so a raise unwinds
    out of janet_loop (the program ends with `top level signal` and status 0 while other tasks still wait) or, in a
    worker thread, into the handler of janet_go_thread_subr - and a raise from inside that handler comes back to the
    same handler for ever.  The loop therefore reports problems (stack trace, status) itself and calls nothing that
    raises by its own decision; the channel operations it uses are the status-returning *_with_lock forms."""
    rule = "C07-LOOPRAISE"
    chk.rule(rule, "janet_loop1, and the failure handler of janet_go_thread_subr, call no function that itself raises (a body with a direct janet_panic* / janet_signalv call)")
    byname = {}
    for f in prog.all_funcs():
        byname.setdefault(f.name, f)

    def raises(name):
        g = byname.get(name)
        return g is not None and any(c.k == "call" and c.callee in RAISERS for c in g.nodes)
    n = 0
    lp = prog.need_func("janet_loop1", "ev.c")
    chk.analysed(lp)
    for c in lp.nodes:
        if c.k == "call" and c.callee and c.callee in byname:
            n += 1
            chk.instance(rule)
            if raises(c.callee) or c.callee in RAISERS:
                chk.violation(rule, "ev.c", "janet_loop1", c.callee, c.loc,
                              "janet_loop1 calls %s, which raises when it fails (e.g. a supervisor channel that was closed): no fiber is running "
                              "at this point, so the error unwinds out of the event loop - the main thread stops with tasks still waiting, a "
                              "worker thread re-enters its failure handler without end" % c.callee)
            else:
                chk.ok(rule, "janet_loop1: %s does not raise by itself" % c.callee)
    sub = prog.need_func("janet_go_thread_subr", "ev.c")
    chk.analysed(sub)
    # the variable that receives janet_try's result, and the `if` that branches on it
    tv = set(x.name for x in sub.nodes if x.k == "vardecl" and x.kids and any("janet_try" in y.macro_names() or (y.k == "call" and y.callee in ("janet_try_init", "setjmp", "_setjmp")) for y in x.kids[0].walk()))
    tries = [x for x in sub.nodes if x.k == "if" and len(x.kids) > 2 and any(y.k == "ref" and y.name in tv for y in x.kids[0].walk())]
    if not tries:
        raise AnalysisBroken("janet_go_thread_subr: the branch on the result of janet_try was not recognised")
    c0, t0 = flow.strip_not(tries[0].kids[0], True)
    # `if (!signal) {body} else {handler}`  or  `if (signal) {handler} else {body}`
    handler = tries[0].kids[2] if not t0 or (c0.k == "bin" and c0.op == "==") else tries[0].kids[1]
    for c in handler.walk():
        if c.k == "call" and c.callee and (c.callee in byname or c.callee in RAISERS):
            n += 1
            chk.instance(rule)
            if raises(c.callee) or c.callee in RAISERS:
                chk.violation(rule, "ev.c", "janet_go_thread_subr", c.callee, c.loc,
                              "the failure handler of janet_go_thread_subr calls %s, which can raise: janet_restore has not run yet, so the "
                              "raise lands in this handler again and the thread spins for ever" % c.callee)
            else:
                chk.ok(rule, "janet_go_thread_subr handler: %s does not raise by itself" % c.callee)
    chk.floor(rule, 10, n)


def _timerarm_rule(chk, prog):
    """The epoll loop sleeps in epoll_wait(-1) and relies on the timerfd to wake it for the next deadline.  The
    deadline is an absolute time computed from a user-supplied duration and can be zero or negative; an all-zero
    itimerspec DISARMS the timer and a negative one is refused, and then nothing wakes the loop."""
    rule = "C07-TIMERARM"
    chk.rule(rule, "the absolute deadline written into the timerfd's it_value is forced positive first (zero disarms, negative is refused)")
    n = 0
    for fn in prog.tus["ev.c"].funcs.values():
        sets = fn.calls("timerfd_settime")
        if not sets or fn.name != "janet_loop1_impl":
            continue
        n += 1
        chk.instance(rule)
        chk.analysed(fn)
        pn = fn.params[1]["n"]
        writes = [x for x in fn.nodes if x.k == "asg" and x.op == "=" and x.kids[0].k == "mem" and x.kids[0].field in ("tv_sec", "tv_nsec")
                  and any(is_ref(y) and y.name == pn for y in x.kids[1].walk())]
        if not writes:
            raise AnalysisBroken("janet_loop1_impl: it_value is not computed from the timeout parameter")
        ok = True
        for w in writes:
            # simple structural form: an earlier `if (timeout < K) timeout = C` with C > 0 in the same block chain
            clamp = [x for x in fn.nodes if x.k == "if" and x.ln <= w.ln and
                     any(y.k == "bin" and y.op in ("<", "<=") and is_ref(strip_casts(y.kids[0])) and strip_casts(y.kids[0]).name == pn
                         and strip_casts(y.kids[1]).v is not None for y in x.kids[0].walk()) and
                     any(y.k == "asg" and y.op == "=" and is_ref(y.kids[0]) and y.kids[0].name == pn and (strip_casts(y.kids[1]).v or 0) > 0
                         for y in x.kids[1].walk())]
            good = False
            for cl in clamp:
                cmpn = next(y for y in cl.kids[0].walk() if y.k == "bin" and y.op in ("<", "<="))
                k = strip_casts(cmpn.kids[1]).v - (0 if cmpn.op == "<=" else 1)     # values <= k are replaced
                if k >= 0:
                    good = True
            ok = ok and good
        if ok:
            chk.ok(rule, "janet_loop1_impl (epoll): `%s` is clamped to a positive value before it becomes it_value" % pn)
        else:
            chk.violation(rule, "ev.c", fn.name, "it_value", writes[0].loc,
                          "the timerfd is armed with the absolute deadline `%s` as it is: (ev/sleep -1e6) gives a deadline at or below zero, "
                          "timerfd_settime then disarms the timer (all-zero value) or fails (negative), and epoll_wait(-1) never returns" % pn)
    if n == 0:
        chk.note("%s: no timerfd in this configuration (vacuous)" % rule)
    chk.floor(rule, 0, n)


def _coercedetach_rule(chk, prog):
    """An await that cannot suspend (it happens inside a janet_call, or reaches janet_signalv while errors are being
    coerced) is turned into an error.  The wait it was setting up is thereby abandoned, and both of its traces have to
    go: the timeout (the task's generation is bumped, so the timer finds a stale id) and the registration with the
    stream (janet_async_end) - otherwise the next byte on that stream resumes the task out of whatever it waits for by
    then, with the bytes as that wait's result."""
    rule = "C07-COERCEDETACH"
    chk.rule(rule, "wherever an event signal is coerced to an error (the generation bump under `== JANET_SIGNAL_EVENT`), the same branch ends the async operation of that fiber")
    n = 0
    for fn in prog.all_funcs():
        for x in fn.nodes:
            if x.k != "if" or not any(y.k == "ref" and y.name == "JANET_SIGNAL_EVENT" for y in x.kids[0].walk()):
                continue
            bumps = [y for y in x.kids[1].walk() if y.k == "un" and y.op in ("++", "post++", "pre++") and any(z.k == "mem" and z.field == "sched_id" for z in y.walk())]
            bumps += [y for y in x.kids[1].walk() if y.k == "asg" and y.op == "+=" and y.kids[0].k == "mem" and y.kids[0].field == "sched_id"]
            if not bumps:
                continue
            n += 1
            chk.instance(rule)
            chk.analysed(fn)
            ends = [c for c in x.kids[1].walk() if c.k == "call" and c.callee in ("janet_async_end", "janet_fiber_did_resume")]
            # the invalidation must not depend on how far the abandoned wait had got (a timer-only wait has no stream
            # callback yet): apart from the signal test the condition may only ask whether there is a task at all
            extra = []
            for alt in flow._atoms(x.kids[0], True):
                for (a, t) in alt:
                    names = set(y.name for y in a.walk() if y.k == "ref") | set(y.field for y in a.walk() if y.k == "mem")
                    if "JANET_SIGNAL_EVENT" in names:
                        continue
                    if names - {"janet_vm", "root_fiber", "NULL"} and not (names <= {"janet_vm", "root_fiber"}):
                        extra.append(a)
            if extra:
                chk.violation(rule, fn.tu.name, fn.name, "cond:" + extra[0].text()[:24].replace(" ", ""), bumps[0].loc,
                              "%s forgets an abandoned await only when `%s` also holds: a wait that had registered nothing but a timer "
                              "(ev/sleep inside a function that C called back) keeps its timer armed under the task's generation, and the timer "
                              "later completes the task's next, unrelated wait" % (fn.name, extra[0].text()[:50]))
            elif ends:
                chk.ok(rule, "%s: the coerced await is detached from its stream" % fn.name)
            else:
                chk.violation(rule, fn.tu.name, fn.name, "sched_id++", bumps[0].loc,
                              "%s turns an await into an error and bumps the task's generation (%s) but leaves the fiber registered with the "
                              "stream it had attached to: a later event on that stream resumes the task out of an unrelated wait" % (fn.name, bumps[0].loc))
    # every place that coerces (it builds the "... coerced from <signal> to error" message) has such a branch
    for fn in prog.all_funcs():
        if not any(x.k == "str" and "coerced from" in (x.v if isinstance(x.v, str) else x.text()) for x in fn.nodes) and \
                not any(c.k == "call" and c.callee == "janet_formatc" and "coerced from" in c.text() for c in fn.nodes):
            continue
        n += 1
        chk.instance(rule)
        chk.analysed(fn)
        has = any(x.k == "if" and any(y.k == "ref" and y.name == "JANET_SIGNAL_EVENT" for y in x.kids[0].walk()) and
                  any(c.k == "call" and c.callee in ("janet_async_end", "janet_fiber_did_resume") for c in x.kids[1].walk()) and
                  any(z.k == "mem" and z.field == "sched_id" for z in x.kids[1].walk()) for x in fn.nodes)
        if has:
            chk.ok(rule, "%s: coercion site forgets the abandoned await" % fn.name)
        else:
            chk.violation(rule, fn.tu.name, fn.name, "coercion-site", fn.loc,
                          "%s coerces signals to errors but has no branch that, for an await, bumps the task's generation and ends its async "
                          "operation: an ev/sleep or ev/read refused inside a function that C called back keeps its timer or its stream "
                          "registration and later completes an unrelated wait of the task" % fn.name)
    chk.floor(rule, 3, n)


def _cancelsticks_rule(chk, prog):
    """Cancelling a task queues its resumption with the error and marks the fiber CANCELED until the loop has delivered
    it.  In that window the fiber is still attached to whatever it waited for; if that source fires (its stream is
    closed in the same turn) the resulting schedule would bump the generation, the queued cancellation would be
    skipped as stale, and the task would receive the source's result instead of the cancellation.  So a schedule for
    a fiber whose cancellation is pending is dropped - the test comes before anything is queued."""
    rule = "C07-CANCELSTICKS"
    chk.rule(rule, "janet_schedule_general queues nothing for a fiber whose cancellation is still pending (the CANCELED flag is tested before the generation is bumped)")
    fn = prog.need_func("janet_schedule_general", "ev.c")
    chk.analysed(fn)
    chk.instance(rule)
    pushes = [c for c in fn.nodes if c.k == "call" and c.callee in ("janet_q_push", "janet_q_push_head")]
    if not pushes:
        raise AnalysisBroken("janet_schedule_general no longer pushes to the run queue")
    IN, T = flow.condition_facts(fn)
    bad = None
    for x, S in flow.states_at(fn, IN, T):
        if x in pushes:
            for ps in S:
                if not any("JANET_FIBER_EV_FLAG_CANCELED" in " ".join(toks) or (ln is not None and any("JANET_FIBER_EV_FLAG_CANCELED" in y.macro_names() for y in ln.walk()))
                           for (op, l, r, toks, ln, rn) in ps):
                    bad = x
    if bad is None:
        chk.ok(rule, "janet_schedule_general: every push is behind the test of the CANCELED flag")
    else:
        chk.violation(rule, "ev.c", fn.name, "push", bad.loc,
                      "janet_schedule_general reaches `%s` without having tested JANET_FIBER_EV_FLAG_CANCELED: an event that fires between a cancel "
                      "and its delivery (the stream is closed in the same turn) reschedules the fiber, makes the queued cancellation stale "
                      "and the task gets the event's result instead of the cancellation" % bad.text()[:40])
    chk.floor(rule, 1)
