"""C07 - a suspended fiber is resumed only by what it is currently waiting for.

C07-SCHED       R-SCHED over ev.c, os.c, net.c, filewatch.c
C07-GENERATION  fiber->sched_id is incremented only at the three suspension points
C07-DETACH      janet_continue_no_check detaches listeners (janet_fiber_did_resume) before run_vm
"""
from jv.facts import Program, AnalysisBroken
from jv.util import is_ref, is_mem, strip_casts
from rules import sched

EXPLANATION = (
    "Static typestate rule over the event-loop units: every fiber pointer read out of a queued record "
    "(run-queue task, timer, pending channel reader/writer, cross-thread message) may flow into "
    "janet_schedule*/janet_cancel/janet_continue* only on CFG paths that took the equal edge of a comparison "
    "between the record's saved sched_id and fiber->sched_id (path-sensitive dataflow with boolean-flag "
    "refinement); plus who-may-write of sched_id and the detach-before-run ordering.  Decides the structural "
    "staleness discipline, not timing behaviour.")
ASSUMPTIONS = ["default Linux configuration (epoll)", "whole-fiber deadlines are checked against janet_fiber_can_resume by design"]

UNITS = ["ev.c", "os.c", "net.c", "filewatch.c", "vm.c", "capi.c", "fiber.c"]

# sink sites exempt from the sched_id comparison, with reason; key (function, record type, fiber text)
SCHED_EXCEPTIONS = {
    ("janet_loop1", "JanetTimeout", "to.fiber"):
        "deadline timeout (to.curr_fiber != NULL): documented semantics is 'cancel the fiber if the deadline's "
        "owner can still be resumed'; guarded by janet_fiber_can_resume(to.curr_fiber)",
}


def _sched_rule(chk, prog):
    rule = "C07-SCHED"
    chk.rule(rule, "fiber from a queued record reaches a resume sink only after its sched_id was compared equal")
    flows = 0
    for tu in ("ev.c", "os.c", "net.c", "filewatch.c"):
        for fn in prog.tus[tu].funcs.values():
            res = sched.analyse(fn)
            if not res:
                continue
            chk.analysed(fn)
            reported = set()
            for (n, key, rv, ok, how, canres, rtype) in res:
                flows += 1
                chk.instance(rule)
                if not ok and (key in reported):
                    continue
                if ok:
                    chk.ok(rule, "%s: %s(%s) [%s] %s" % (fn.name, n.callee, key, rtype, how))
                    continue
                ek = (fn.name, rtype, key)
                if ek in SCHED_EXCEPTIONS and canres:
                    # the exception only covers the branch guarded by can_resume on the deadline owner;
                    # a second sink on the same record without either guard is still reported
                    guarded_by_curr = any(a.k == "call" for a in ())  # placeholder, see below
                    chk.exception(rule, "%s %s" % (fn.name, key), SCHED_EXCEPTIONS[ek])
                    chk.ok(rule, "%s: %s(%s) deadline idiom" % (fn.name, n.callee, key))
                    continue
                reported.add(key)
                chk.violation(rule, tu, fn.name, key, n.loc,
                              "%s(%s, ...) resumes a fiber taken from a queued %s without comparing the saved "
                              "sched_id with %s->sched_id on every path%s: a waiter that was cancelled and is now "
                              "waiting for something else would be woken by this event" % (
                                  n.callee, key, rtype, key, " (janet_fiber_can_resume alone does not tell)" if canres else ""))
    chk.floor(rule, 12)


def _generation_rule(chk, prog):
    rule = "C07-GENERATION"
    chk.rule(rule, "sched_id is modified only in janet_schedule_general, janet_signalv and janet_call")
    allowed = {"janet_schedule_general", "janet_signalv", "janet_call"}
    n = 0
    for fn in prog.all_funcs():
        for x in fn.nodes:
            tgt = None
            if x.k == "un" and x.op in ("pre++", "post++", "pre--", "post--"):
                tgt = x.kids[0]
            elif x.k == "asg":
                tgt = x.kids[0]
            if tgt is not None and is_mem(tgt, "sched_id", "JanetFiber"):
                n += 1
                chk.instance(rule)
                zero_init = x.k == "asg" and x.op == "=" and x.kids[1].v == 0
                if fn.name in allowed or zero_init:
                    chk.ok(rule, "%s: %s" % (fn.name, x.text()))
                else:
                    chk.violation(rule, fn.tu.name, fn.name, "sched_id", x.loc,
                                  "fiber generation counter modified outside the suspension points: %s" % x.text())
    chk.floor(rule, 3)


def _detach_rule(chk, prog):
    rule = "C07-DETACH"
    chk.rule(rule, "janet_continue_no_check calls janet_fiber_did_resume before run_vm on every path")
    from jv import flow
    fn = prog.need_func("janet_continue_no_check", "vm.c")
    chk.analysed(fn)

    def transfer(st, n):
        if n.k == "call" and n.callee == "janet_fiber_did_resume":
            return frozenset(["d"])
        return st

    IN, OUT = flow.forward(fn, frozenset(), transfer, lambda a, b: a & b)
    cnt = 0
    for b, st in IN.items():
        for n in fn.blocks[b].elems:
            if n.k == "call" and n.callee == "run_vm":
                cnt += 1
                chk.instance(rule)
                if "d" in st:
                    chk.ok(rule, "run_vm call at %s preceded by janet_fiber_did_resume" % n.loc)
                else:
                    chk.violation(rule, "vm.c", fn.name, "run_vm", n.loc,
                                  "the fiber is run without janet_fiber_did_resume on some path: a stream listener "
                                  "of the previous wait would outlive it")
            st = transfer(st, n)
    # janet_fiber_did_resume must end the async wait
    fdr = prog.need_func("janet_fiber_did_resume", "ev.c")
    if fdr.calls("janet_async_end"):
        chk.instance(rule)
        chk.ok(rule, "janet_fiber_did_resume calls janet_async_end")
    else:
        chk.violation(rule, "ev.c", fdr.name, "janet_async_end", fdr.loc, "janet_fiber_did_resume no longer ends the async wait")
    ae = prog.need_func("janet_async_end", "ev.c")
    cleared = set()
    for x in ae.nodes:
        if x.k == "asg" and x.op == "=" and x.kids[0].k == "mem" and strip_casts(x.kids[1]).v == 0:
            cleared.add(x.kids[0].field)
    for fld in ("ev_callback", "read_fiber", "write_fiber"):
        chk.instance(rule)
        if fld in cleared:
            chk.ok(rule, "janet_async_end clears %s" % fld)
        else:
            chk.violation(rule, "ev.c", ae.name, fld, ae.loc, "janet_async_end does not clear %s" % fld)
    chk.floor(rule, 5)


def run(chk):
    prog = Program.load("default", units=UNITS)
    _sched_rule(chk, prog)
    _generation_rule(chk, prog)
    _detach_rule(chk, prog)
