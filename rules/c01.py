"""C01 - GC transparency / no use of freed or relocated memory: structural clauses.

C01-STALE     run_vm never reads its cached `stack` pointer after a call that may relocate the running
              fiber's stack without re-deriving it; and never dispatches with it stale
C01-ARGV      no C function exposed to Janet uses `argv` (a pointer into the fiber stack) after such a call
C01-SAFEPOINT janet_collect is entered only from the interpreter's safepoints / gccollect; gclock pairs
C01-MARK      every reference-bearing field of every heap record is visited by its mark function
C01-NILFILL   newly exposed stack slots are nil-filled in both frame constructors
"""
from jv import flow
from jv.facts import Program, AnalysisBroken
from jv.summaries import Summaries
from jv.vm import VMHandlers
from jv.util import is_ref, is_mem, strip_casts, base_var
from jv.report import path_lines

EXPLANATION = (
    "Static rules over the whole parsed program: (STALE/ARGV) CFG dataflow with an interprocedural "
    "may-relocate summary (functions reaching janet_call or a JanetCFunction pointer call) proving the "
    "interpreter's cached stack pointer and every cfun's argv are not used after the fiber stack may have "
    "moved; (SAFEPOINT) who-may-call janet_collect and gclock/gcunlock pairing; (MARK) field coverage of "
    "mark functions against record layouts; (NILFILL) must-pass-through nil-fill loop in frame "
    "constructors.  Necessary structural conditions; not a proof of GC transparency under all schedules.")
ASSUMPTIONS = [
    "calls through JanetCFunction pointers may reach any C function registered in a JanetRegExt/JanetReg/JanetMethod table",
    "abstract-type hooks with no implementation in the parsed program (put, call) have no behaviour (claim is about the parsed program)",
    "default Linux configuration",
]


def _stale_vm(chk, prog, S):
    rule = "C01-STALE"
    chk.rule(rule, "run_vm: no use of cached `stack` after a may-relocate call without re-deriving it")
    vm = VMHandlers(prog)
    fn = vm.fn
    chk.analysed(fn)
    dispatch = fn.igoto
    if dispatch is None:
        raise AnalysisBroken("run_vm has no computed-goto dispatch block")

    reloc_calls = set()
    for n in fn.nodes:
        if n.k == "call" and S.call_in(fn, n, S.may_relocate):
            reloc_calls.add(n.id)
        elif n.k == "call" and n.callee and n.callee.startswith("janet_fiber_") and n.args and is_ref(n.args[0], "fiber") \
                and n.callee in ("janet_fiber_push", "janet_fiber_push2", "janet_fiber_push3", "janet_fiber_pushn",
                                 "janet_fiber_funcframe", "janet_fiber_funcframe_tail", "janet_fiber_cframe"):
            reloc_calls.add(n.id)
    chk.instance(rule, len(reloc_calls))

    FRESH = frozenset()

    def transfer(st, n):
        if n.id in reloc_calls:
            return frozenset([n.id])
        if n.k == "asg" and n.op == "=" and is_ref(n.kids[0], "stack"):
            return FRESH
        return st

    def edge(st, blk, succ, cond, truth):
        if succ == dispatch:
            return None   # handled as a check point; every handler starts fresh
        return st

    # entry: start at every handler label with FRESH (dispatch target), plus function entry
    IN = {}
    entries = [fn.entry] + list(vm.handler_entry_blocks().values())
    # run one analysis from a virtual state: do forward from each entry and merge
    merged = {}
    for e in entries:
        I, O = flow.forward(fn, FRESH, transfer, lambda a, b: a | b, edge=edge, start=e)
        for b, st in I.items():
            merged[b] = merged.get(b, frozenset()) | st
    # iterate to a global fixpoint: since every entry is FRESH and edges into dispatch are cut, the
    # union of the per-entry solutions is the solution.
    nuse = 0
    flagged = set()
    for b, st in sorted(merged.items(), key=lambda kv: -kv[0]):
        blk = fn.blocks[b]
        for n in blk.elems:
            if n.k == "ref" and n.name == "stack" and n.d.get("d") in ("var", "parm"):
                # a use unless it is the left side of `stack = ...`
                p = n.parent
                is_def = p is not None and p.k == "asg" and p.op == "=" and p.kids[0] is n
                if not is_def:
                    nuse += 1
                    if st:
                        src = fn.nodes[min(st)]
                        h = vm.handler_of(n) or "?"
                        flagged.add((h, src.id))
                        chk.violation(rule, fn.tu.name, fn.name, "%s:%s" % (h.replace("label_", ""), src.callee or "cfun-pointer"),
                                      n.loc, "`stack` used after %s (line %d) may have relocated the fiber stack; "
                                      "re-derive it (stack = fiber->data + fiber->frame / vm_restore()) first" % (
                                          src.text()[:60], src.ln),
                                      ["kill  %s: %s" % (src.loc, src.text()[:90]), "use   %s: %s" % (n.loc, (n.parent or n).text()[:90])])
                    else:
                        pass
            st = transfer(st, n)
        # dispatch check
        if dispatch in blk.succs and st:
            src = fn.nodes[min(st)]
            h = vm.block_handler.get(b) or "?"
            if (h, src.id) in flagged or (vm.handler_of(src), src.id) in flagged:
                continue
            chk.violation(rule, fn.tu.name, fn.name, "%s:dispatch:%s" % (h.replace("label_", ""), src.callee or "cfun-pointer"),
                          (blk.term or src).loc,
                          "next instruction dispatched with `stack` stale after %s (line %d)" % (src.text()[:60], src.ln))
    chk.ok(rule, "run_vm: %d uses of `stack` checked against %d may-relocate call sites" % (nuse, len(reloc_calls)), n=nuse)
    if nuse < 150:
        raise AnalysisBroken("run_vm: only %d uses of stack found" % nuse)
    return vm


def registered_cfuns(prog, S):
    out = []
    for fid in sorted(S.cg.cfun_targets, key=str):
        f = S.cg.funcs.get(fid)
        if f is not None:
            out.append(f)
    return out


# (function, call) pairs exempt from C01-ARGV, each with its reason
ARGV_EXCEPTIONS = {
    ("janet_core_native", "cfun-pointer"):
        "the call is the entry point of a dynamically loaded native module (external code, outside the parsed "
        "program); by the module ABI it registers functions in `env` and does not run Janet code",
}


def _stale_argv(chk, prog, S):
    rule = "C01-ARGV"
    chk.rule(rule, "cfuns: no use of argv (or a pointer derived from it) after a may-relocate call")
    cfuns = registered_cfuns(prog, S)
    chk.instance(rule, len(cfuns))
    nsites = 0
    for fn in cfuns:
        if not fn.is_cfun_sig():
            continue
        chk.analysed(fn)
        argv = fn.params[1]["n"]
        reloc = [n for n in fn.nodes if n.k == "call" and S.call_in(fn, n, S.may_relocate)]
        if not reloc:
            chk.ok(rule, "%s: no may-relocate call" % fn.name)
            continue
        relocids = set(n.id for n in reloc)
        # pointers derived from argv: locals assigned argv / argv + k / &argv[k]
        derived = {argv}
        for n in fn.nodes:
            src = None
            if n.k == "vardecl" and n.kids:
                src, dst = n.kids[0], n.name
            elif n.k == "asg" and n.op == "=" and is_ref(n.kids[0]):
                src, dst = n.kids[1], n.kids[0].name
            if src is not None:
                s2 = strip_casts(src)
                if (s2.k == "ref" and s2.name == argv) or \
                   (s2.k == "bin" and s2.op in ("+", "-") and is_ref(strip_casts(s2.kids[0]), argv)) or \
                   (s2.k == "un" and s2.op == "&" and s2.kids[0].k == "sub" and is_ref(strip_casts(s2.kids[0].kids[0]), argv)):
                    if "*" in (n.t or "") or n.k == "asg":
                        derived.add(dst)

        def transfer(st, n):
            if n.id in relocids:
                return frozenset([n.id])
            return st

        IN, OUT = flow.forward(fn, frozenset(), transfer, lambda a, b: a | b)
        bad = False
        for b, st in IN.items():
            for n in fn.blocks[b].elems:
                if st and n.k == "ref" and n.name in derived and n.d.get("d") in ("parm", "var"):
                    # passing argv itself to the relocating call is evaluated before the call: the
                    # argument refs precede the call element, so they are not flagged here.
                    src = fn.nodes[min(st)]
                    nsites += 1
                    ek = (fn.name, src.callee or "cfun-pointer")
                    if ek in ARGV_EXCEPTIONS:
                        chk.exception(rule, "%s after %s" % ek, ARGV_EXCEPTIONS[ek])
                        st = transfer(st, n)
                        continue
                    bad = True
                    chk.violation(rule, fn.tu.name, fn.name, "%s:%s" % (n.name, src.callee or "cfun-pointer"), n.loc,
                                  "`%s` points into the fiber stack and is used after %s (line %d), which may "
                                  "re-enter the interpreter and relocate that stack" % (n.name, src.text()[:50], src.ln),
                                  ["kill  %s: %s" % (src.loc, src.text()[:90]), "use   %s: %s" % (n.loc, (n.parent or n).text()[:90])])
                st = transfer(st, n)
        if not bad:
            chk.ok(rule, "%s: %d may-relocate calls, argv not used afterwards" % (fn.name, len(reloc)))
    chk.floor(rule, 300)


def run(chk):
    prog = Program.load("default")
    S = Summaries(prog)
    chk.extra["may_relocate_functions"] = len(S.may_relocate)
    _stale_vm(chk, prog, S)
    _stale_argv(chk, prog, S)
