"""C01 - GC transparency / no use of freed or relocated memory: structural clauses.

C01-STALE     run_vm never reads its cached `stack` pointer after a call that may relocate the running
              fiber's stack without re-deriving it; and never dispatches with it stale
C01-ARGV      no C function exposed to Janet uses `argv` (a pointer into the fiber stack) after such a call
C01-SAFEPOINT janet_collect is entered only from the interpreter's safepoints / gccollect; gclock pairs
C01-MARK      every reference-bearing field of every heap record is visited by its mark function
C01-NILFILL   newly exposed stack slots are nil-filled in both frame constructors
"""
from jv import flow
from jv.facts import Program, AnalysisBroken
from jv.summaries import Summaries
from jv.vm import VMHandlers
from jv.util import is_ref, is_mem, strip_casts, base_var
from jv.report import path_lines

EXPLANATION = (
    "Static rules over the whole parsed program: (STALE/ARGV) CFG dataflow with an interprocedural "
    "may-relocate summary (functions reaching janet_call or a JanetCFunction pointer call) proving the "
    "interpreter's cached stack pointer and every cfun's argv are not used after the fiber stack may have "
    "moved; (SAFEPOINT) who-may-call janet_collect and gclock/gcunlock pairing; (MARK) field coverage of "
    "mark functions against record layouts; (NILFILL) must-pass-through nil-fill loop in frame "
    "constructors.  Necessary structural conditions; not a proof of GC transparency under all schedules.")
ASSUMPTIONS = [
    "calls through JanetCFunction pointers may reach any C function registered in a JanetRegExt/JanetReg/JanetMethod table",
    "abstract-type hooks with no implementation in the parsed program (put, call) have no behaviour (claim is about the parsed program)",
    "default Linux configuration",
]


def _stale_vm(chk, prog, S):
    rule = "C01-STALE"
    chk.rule(rule, "run_vm: no use of cached `stack` after a may-relocate call without re-deriving it")
    vm = VMHandlers(prog)
    fn = vm.fn
    chk.analysed(fn)
    dispatch = fn.igoto
    if dispatch is None:
        raise AnalysisBroken("run_vm has no computed-goto dispatch block")

    reloc_calls = set()
    for n in fn.nodes:
        if n.k == "call" and S.call_in(fn, n, S.may_relocate):
            reloc_calls.add(n.id)
        elif n.k == "call" and n.callee and n.callee.startswith("janet_fiber_") and n.args and is_ref(n.args[0], "fiber") \
                and n.callee in ("janet_fiber_push", "janet_fiber_push2", "janet_fiber_push3", "janet_fiber_pushn",
                                 "janet_fiber_funcframe", "janet_fiber_funcframe_tail", "janet_fiber_cframe"):
            reloc_calls.add(n.id)
    chk.instance(rule, len(reloc_calls))

    FRESH = frozenset()

    def transfer(st, n):
        if n.id in reloc_calls:
            return frozenset([n.id])
        if n.k == "asg" and n.op == "=" and is_ref(n.kids[0], "stack"):
            return FRESH
        return st

    def edge(st, blk, succ, cond, truth):
        if succ == dispatch:
            return None   # handled as a check point; every handler starts fresh
        return st

    # entry: start at every handler label with FRESH (dispatch target), plus function entry
    IN = {}
    entries = [fn.entry] + list(vm.handler_entry_blocks().values())
    # run one analysis from a virtual state: do forward from each entry and merge
    merged = {}
    for e in entries:
        I, O = flow.forward(fn, FRESH, transfer, lambda a, b: a | b, edge=edge, start=e)
        for b, st in I.items():
            merged[b] = merged.get(b, frozenset()) | st
    # iterate to a global fixpoint: since every entry is FRESH and edges into dispatch are cut, the
    # union of the per-entry solutions is the solution.
    nuse = 0
    flagged = set()
    for b, st in sorted(merged.items(), key=lambda kv: -kv[0]):
        blk = fn.blocks[b]
        for n in blk.elems:
            if n.k == "ref" and n.name == "stack" and n.d.get("d") in ("var", "parm"):
                # a use unless it is the left side of `stack = ...`
                p = n.parent
                is_def = p is not None and p.k == "asg" and p.op == "=" and p.kids[0] is n
                if not is_def:
                    nuse += 1
                    if st:
                        src = fn.nodes[min(st)]
                        h = vm.handler_of(n) or "?"
                        flagged.add((h, src.id))
                        chk.violation(rule, fn.tu.name, fn.name, "%s:%s" % (h.replace("label_", ""), src.callee or "cfun-pointer"),
                                      n.loc, "`stack` used after %s (line %d) may have relocated the fiber stack; "
                                      "re-derive it (stack = fiber->data + fiber->frame / vm_restore()) first" % (
                                          src.text()[:60], src.ln),
                                      ["kill  %s: %s" % (src.loc, src.text()[:90]), "use   %s: %s" % (n.loc, (n.parent or n).text()[:90])])
                    else:
                        pass
            st = transfer(st, n)
        # dispatch check
        if dispatch in blk.succs and st:
            src = fn.nodes[min(st)]
            h = vm.block_handler.get(b) or "?"
            if (h, src.id) in flagged or (vm.handler_of(src), src.id) in flagged:
                continue
            chk.violation(rule, fn.tu.name, fn.name, "%s:dispatch:%s" % (h.replace("label_", ""), src.callee or "cfun-pointer"),
                          (blk.term or src).loc,
                          "next instruction dispatched with `stack` stale after %s (line %d)" % (src.text()[:60], src.ln))
    chk.ok(rule, "run_vm: %d uses of `stack` checked against %d may-relocate call sites" % (nuse, len(reloc_calls)), n=nuse)
    if nuse < 150:
        raise AnalysisBroken("run_vm: only %d uses of stack found" % nuse)
    return vm


def registered_cfuns(prog, S):
    out = []
    for fid in sorted(S.cg.cfun_targets, key=str):
        f = S.cg.funcs.get(fid)
        if f is not None:
            out.append(f)
    return out


# (function, call) pairs exempt from C01-ARGV, each with its reason
ARGV_EXCEPTIONS = {
    ("janet_core_native", "cfun-pointer"):
        "the call is the entry point of a dynamically loaded native module (external code, outside the parsed "
        "program); by the module ABI it registers functions in `env` and does not run Janet code",
}


def _stale_argv(chk, prog, S):
    rule = "C01-ARGV"
    chk.rule(rule, "cfuns: no use of argv (or a pointer derived from it) after a may-relocate call")
    cfuns = registered_cfuns(prog, S)
    chk.instance(rule, len(cfuns))
    nsites = 0
    for fn in cfuns:
        if not fn.is_cfun_sig():
            continue
        chk.analysed(fn)
        argv = fn.params[1]["n"]
        reloc = [n for n in fn.nodes if n.k == "call" and S.call_in(fn, n, S.may_relocate)]
        if not reloc:
            chk.ok(rule, "%s: no may-relocate call" % fn.name)
            continue
        relocids = set(n.id for n in reloc)
        # pointers derived from argv: locals assigned argv / argv + k / &argv[k]
        derived = {argv}
        for n in fn.nodes:
            src = None
            if n.k == "vardecl" and n.kids:
                src, dst = n.kids[0], n.name
            elif n.k == "asg" and n.op == "=" and is_ref(n.kids[0]):
                src, dst = n.kids[1], n.kids[0].name
            if src is not None:
                s2 = strip_casts(src)
                if (s2.k == "ref" and s2.name == argv) or \
                   (s2.k == "bin" and s2.op in ("+", "-") and is_ref(strip_casts(s2.kids[0]), argv)) or \
                   (s2.k == "un" and s2.op == "&" and s2.kids[0].k == "sub" and is_ref(strip_casts(s2.kids[0].kids[0]), argv)):
                    if "*" in (n.t or "") or n.k == "asg":
                        derived.add(dst)

        def transfer(st, n):
            if n.id in relocids:
                return frozenset([n.id])
            return st

        IN, OUT = flow.forward(fn, frozenset(), transfer, lambda a, b: a | b)
        bad = False
        for b, st in IN.items():
            for n in fn.blocks[b].elems:
                if st and n.k == "ref" and n.name in derived and n.d.get("d") in ("parm", "var"):
                    # passing argv itself to the relocating call is evaluated before the call: the
                    # argument refs precede the call element, so they are not flagged here.
                    src = fn.nodes[min(st)]
                    nsites += 1
                    ek = (fn.name, src.callee or "cfun-pointer")
                    if ek in ARGV_EXCEPTIONS:
                        chk.exception(rule, "%s after %s" % ek, ARGV_EXCEPTIONS[ek])
                        st = transfer(st, n)
                        continue
                    bad = True
                    chk.violation(rule, fn.tu.name, fn.name, "%s:%s" % (n.name, src.callee or "cfun-pointer"), n.loc,
                                  "`%s` points into the fiber stack and is used after %s (line %d), which may "
                                  "re-enter the interpreter and relocate that stack" % (n.name, src.text()[:50], src.ln),
                                  ["kill  %s: %s" % (src.loc, src.text()[:90]), "use   %s: %s" % (n.loc, (n.parent or n).text()[:90])])
                st = transfer(st, n)
        if not bad:
            chk.ok(rule, "%s: %d may-relocate calls, argv not used afterwards" % (fn.name, len(reloc)))
    chk.floor(rule, 300)


def run(chk):
    prog = Program.load("default")
    S = Summaries(prog)
    chk.extra["may_relocate_functions"] = len(S.may_relocate)
    _stale_vm(chk, prog, S)
    _stale_argv(chk, prog, S)


# ------------------------------------------------------------------------------------------------
GC_RECORDS = ("JanetFiber", "JanetFunction", "JanetFuncDef", "JanetFuncEnv", "JanetArray", "JanetTable", "JanetBuffer",
              "JanetStream", "JanetChannel", "JanetTupleHead", "JanetStructHead", "JanetStringHead", "JanetAbstractHead")
REF_TYPEDEFS = ("Janet", "JanetString", "JanetSymbol", "JanetKeyword", "JanetTuple", "JanetStruct", "JanetAbstract")


def ref_bearing(f):
    """does a record field (dict n,t,ct) possibly hold a reference to collectable memory?"""
    t = f["t"].replace("const ", "").replace("volatile ", "").strip()
    base = t.replace("*", "").replace("[]", "").strip()
    if base in REF_TYPEDEFS:
        return True
    if base in ("JanetKV",) and "*" in t:
        return True
    if base in GC_RECORDS and ("*" in t or "[" in t):
        return True
    return False


# record -> (mark function, {field: reason it need not be read there})
MARK_TABLE = {
    "JanetFiber": ("janet_mark_fiber", {}),
    "JanetStackFrame": ("janet_mark_fiber", {}),
    "JanetFunction": ("janet_mark_function", {}),
    "JanetFuncDef": ("janet_mark_funcdef", {}),
    "JanetArray": ("janet_mark_array", {}),
    "JanetTable": ("janet_mark_table", {}),
    "JanetSymbolMap": ("janet_mark_funcdef", {}),
    "JanetTask": ("janet_ev_mark", {}),
    "JanetTimeout": ("janet_ev_mark", {}),
}
# reference-bearing JanetVM fields that are not marked by the collector, with reason
VM_EXCEPTIONS = {
    "fiber": "the running fiber is root_fiber or reachable from it through child links (marked via root_fiber)",
    "return_reg": "points at a Janet in a JanetTryState on the C stack, not at collectable memory",
    "roots": "the root array itself; its elements are marked one by one",
    "cache": "the symbol cache is weak by design: dead symbols remove themselves (janet_symbol_deinit)",
    "streams": "poll back end only: weak index from pollfd position to stream; janet_stream_close_impl (also run by the stream's "
               "gc hook before the object is freed) swaps the entry out, so no dead stream stays listed",
}


def _mark_rule(chk, prog):
    rule = "C01-MARK"
    chk.rule(rule, "every reference-bearing field of every heap record / VM root / abstract payload is visited by its mark function")
    gc = prog.tus["gc.c"]
    for rec, (mname, exc) in sorted(MARK_TABLE.items()):
        r = prog.records.get(rec)
        if r is None:
            raise AnalysisBroken("record %s not found" % rec)
        fn = prog.func(mname, "gc.c") or prog.func(mname, "ev.c")
        if fn is None:
            raise AnalysisBroken("mark function %s not found" % mname)
        chk.analysed(fn)
        read = set(n.field for n in fn.nodes if n.k == "mem" and n.rec == rec)
        for f in r["fields"]:
            if not ref_bearing(f):
                continue
            chk.instance(rule)
            if f["n"] in exc:
                chk.exception(rule, "%s.%s" % (rec, f["n"]), exc[f["n"]])
                chk.ok(rule, "%s.%s (exception)" % (rec, f["n"]))
            elif f["n"] in read:
                chk.ok(rule, "%s.%s visited by %s" % (rec, f["n"], mname))
            else:
                chk.violation(rule, fn.tu.name, mname, "%s.%s" % (rec, f["n"]), fn.loc,
                              "%s does not visit %s.%s (%s): an object reachable only through it is freed while in use" % (
                                  mname, rec, f["n"], f["t"]))
    # JanetFuncEnv: both arms of the union
    fe = prog.need_func("janet_mark_funcenv", "gc.c")
    arms = set(n.field for n in fe.nodes if n.k == "mem" and n.field in ("fiber", "values"))
    for arm in ("fiber", "values"):
        chk.instance(rule)
        if arm in arms:
            chk.ok(rule, "JanetFuncEnv.as.%s visited" % arm)
        else:
            chk.violation(rule, "gc.c", "janet_mark_funcenv", "JanetFuncEnv.as.%s" % arm, fe.loc, "janet_mark_funcenv does not visit as.%s" % arm)
    # JanetVM roots
    col = prog.need_func("janet_collect", "gc.c")
    evm = prog.need_func("janet_ev_mark", "ev.c")
    marked = set(n.field for f in (col, evm) for n in f.nodes if n.k == "mem" and n.rec == "JanetVM")
    vm = prog.records["JanetVM"]
    for f in vm["fields"]:
        t = f["t"].replace("const ", "").strip()
        isref = ref_bearing(f) or t in ("JanetTimeout *",) or (t == "JanetQueue" and f["n"] == "spawn")
        if not isref:
            continue
        chk.instance(rule)
        name = f["n"]
        if name in VM_EXCEPTIONS:
            chk.exception(rule, "JanetVM.%s" % name, VM_EXCEPTIONS[name])
            chk.ok(rule, "JanetVM.%s (exception)" % name)
            continue
        if name in marked:
            chk.ok(rule, "JanetVM.%s marked by janet_collect / janet_ev_mark" % name)
            continue
        # rooted where assigned?
        assigns = []
        for fn in prog.all_funcs():
            for n in fn.nodes:
                if n.k == "asg" and n.op == "=" and is_mem(n.kids[0], name, "JanetVM") and strip_casts(n.kids[1]).v != 0:
                    assigns.append((fn, n))
        unrooted = [(fn, n) for fn, n in assigns if not fn.calls("janet_gcroot")]
        if assigns and not unrooted:
            chk.ok(rule, "JanetVM.%s rooted with janet_gcroot wherever it is assigned" % name)
        else:
            fn, n = (unrooted or assigns or [(col, col.body)])[0]
            chk.violation(rule, fn.tu.name, fn.name, "JanetVM.%s" % name, n.loc,
                          "janet_vm.%s holds a collectable object but is neither marked by janet_collect nor rooted where it is "
                          "assigned (`%s`): the next collection frees it while the VM still uses it" % (name, n.text()[:60]))
    # tables embedded in the VM record hold Janet values too: each is marked, or rooted where filled, or a weak index
    # that the sweep purges before it frees anything
    sweep = prog.need_func("janet_sweep", "gc.c")
    swept = set(n.field for n in sweep.nodes if n.k == "mem" and n.rec == "JanetVM")
    for f in vm["fields"]:
        if f["t"].replace("const ", "").strip() != "JanetTable":
            continue
        chk.instance(rule)
        name = f["n"]
        fillers = [fn for fn in prog.all_funcs() if any(c.k == "call" and c.callee in ("janet_table_put",) and c.args and
                                                         any(is_mem(y, name, "JanetVM") for y in c.args[0].walk()) for c in fn.nodes)]
        if name in marked:
            chk.ok(rule, "JanetVM.%s (table) marked by janet_collect / janet_ev_mark" % name)
        elif name in swept:
            chk.ok(rule, "JanetVM.%s (table) is a weak index: janet_sweep purges it" % name)
        elif fillers and all(fn.calls("janet_gcroot") for fn in fillers):
            chk.ok(rule, "JanetVM.%s (table) entries are rooted where they are inserted" % name)
        else:
            fn = (fillers or [col])[0]
            chk.violation(rule, fn.tu.name, fn.name, "JanetVM.%s" % name, fn.loc,
                          "the table janet_vm.%s holds collectable values but is neither marked, nor are its entries rooted when they "
                          "are inserted, nor does janet_sweep remove the entries whose objects it is about to free: whoever reads the "
                          "table later ((ev/all-tasks)) gets pointers to freed objects" % name)
    # abstract payloads
    from rules.c03 import abstract_types
    payload = {}
    for fn in prog.all_funcs():
        for c in fn.calls("janet_abstract", "janet_abstract_threaded", "janet_unmarshal_abstract", "janet_unmarshal_abstract_threaded",
                          "janet_abstract_begin"):
            ty = None
            for x in c.args[0].walk():
                if x.k == "ref" and x.d.get("d") == "gvar":
                    ty = x.name
            sz = c.args[-1]
            recname = None
            if sz.k == "sizeof":
                at = sz.d.get("argt")
                if at is not None:
                    recname = fn.tu.types[at].replace("struct ", "")
            if ty and recname in prog.records:
                payload[ty] = recname
    for tu, name, vals in abstract_types(prog):
        recname = payload.get(name)
        if recname is None:
            continue
        rec = prog.records[recname]
        refs = [f for f in rec["fields"] if ref_bearing(f)]
        if not refs:
            continue
        mv = vals.get("gcmark")
        mname = mv.name if mv is not None and mv.k == "ref" else None
        for f in refs:
            chk.instance(rule)
            if mname is None:
                chk.violation(rule, tu.name, name, "%s.%s" % (recname, f["n"]), tu.file,
                              "abstract type %s has no gcmark but its payload %s.%s (%s) references collectable memory" % (
                                  name, recname, f["n"], f["t"]))
                continue
            mfn = prog.func(mname, tu)
            # fields read in the mark hook or in a static helper it calls in the same unit
            fns = [mfn] + [prog.func(c.callee, tu) for c in mfn.calls() if c.callee and prog.func(c.callee, tu) is not None
                           and prog.func(c.callee, tu).tu is tu]
            read = set(n.field for g in fns if g is not None for n in g.nodes if n.k == "mem" and n.rec == recname)
            if f["n"] in read:
                chk.ok(rule, "%s: %s.%s visited by %s" % (name, recname, f["n"], mname))
            else:
                chk.violation(rule, tu.name, mname, "%s.%s" % (recname, f["n"]), mfn.loc,
                              "%s does not visit %s.%s (%s)" % (mname, recname, f["n"], f["t"]))
    chk.floor(rule, 30)


def _safepoint_rule(chk, prog, S):
    rule = "C01-SAFEPOINT"
    chk.rule(rule, "janet_collect is called only from the interpreter's safepoint and gccollect; janet_gclock/janet_gcunlock are paired")
    for fn in prog.all_funcs():
        for c in fn.calls("janet_collect"):
            chk.instance(rule)
            if fn.name == "run_vm" and c.in_macro("maybe_collect"):
                chk.ok(rule, "run_vm safepoint (maybe_collect)")
            elif fn.name == "janet_core_gccollect":
                chk.ok(rule, "gccollect function")
            else:
                chk.violation(rule, fn.tu.name, fn.name, "janet_collect", c.loc,
                              "janet_collect is called from %s: C code there may hold unrooted objects in locals" % fn.name)
        locks = fn.calls("janet_gclock")
        if locks and fn.name != "janet_gclock":
            chk.analysed(fn)

            def transfer(st, n):
                if n.k == "call" and n.callee and prog.is_noreturn(n.callee):
                    return None
                if n.k == "call" and n.callee == "janet_gclock":
                    return frozenset(["locked"])
                if n.k == "call" and n.callee == "janet_gcunlock":
                    return frozenset()
                return st
            IN, OUT = flow.forward(fn, frozenset(), transfer, lambda a, b: a | b)
            st = IN.get(fn.exit)
            chk.instance(rule)
            if st:
                chk.violation(rule, fn.tu.name, fn.name, "gclock", locks[0].loc,
                              "%s can return with the collector still locked (janet_gcunlock missing on some path): no collection ever runs again" % fn.name)
            else:
                chk.ok(rule, "%s: janet_gclock released on every returning path" % fn.name)
    # janet_call runs the interpreter under the lock
    jc = prog.need_func("janet_call", "vm.c")
    chk.instance(rule)
    lk = [c.ln for c in jc.calls("janet_gclock")]
    rv = [c.ln for c in jc.calls("run_vm")]
    if lk and rv and min(lk) < min(rv):
        chk.ok(rule, "janet_call locks the collector before re-entering the interpreter")
    else:
        chk.violation(rule, "vm.c", "janet_call", "lock-before-run", jc.loc,
                      "janet_call re-enters run_vm without suspending collection: its C callers hold unrooted values")
    chk.floor(rule, 6)


def _nilfill_rule(chk, prog):
    rule = "C01-NILFILL"
    chk.rule(rule, "frame constructors nil-fill every newly exposed slot range before it becomes part of a frame")
    for fname in ("janet_fiber_funcframe", "janet_fiber_funcframe_tail"):
        fn = prog.need_func(fname, "fiber.c")
        chk.analysed(fn)
        # nil-fill loops: for (i = LO; i < HI; ...) fiber->data[i] = nil
        loops = []
        for n in fn.nodes:
            if n.k == "for" and n.kids[1] is not None and n.kids[1].k == "bin" and n.kids[1].op == "<":
                body = n.kids[3]
                stores = [x for x in body.walk() if x.k == "asg"]
                if len(stores) == 1 and stores[0].kids[0].k == "sub" and is_mem(strip_casts(stores[0].kids[0].kids[0]), "data", "JanetFiber") \
                        and ("janet_wrap_nil" in strip_casts(stores[0].kids[1]).macro_names()
                             or (strip_casts(stores[0].kids[1]).k == "call" and strip_casts(stores[0].kids[1]).callee == "janet_wrap_nil")):
                    lo = n.kids[0]
                    lo_txt = ""
                    for x in lo.walk():
                        if x.k == "asg":
                            lo_txt = x.kids[1].text()
                    loops.append((n, lo_txt, strip_casts(n.kids[1].kids[1]).text()))
        loop_ids = {l[0].id: l for l in loops}

        def transfer(st, n):
            # a `for` statement node is not a CFG element; use its condition expression
            for fid, (node, lo, hi) in loop_ids.items():
                if n is node.kids[1]:
                    return st | frozenset([("nil", lo, hi)])
            return st
        IN, OUT = flow.forward(fn, frozenset(), transfer, lambda a, b: a & b)
        # (1) the success return has passed a fill up to the new frame top
        for b, st in IN.items():
            for n in fn.blocks[b].elems:
                if n.k == "return" and n.kids and n.kids[0].v == 0:
                    chk.instance(rule)
                    tops = [f for f in st if f[0] == "nil" and ("nextstacktop" in f[2] or "nextframetop" in f[2])]
                    if tops:
                        chk.ok(rule, "%s: locals up to %s nil-filled before the frame is entered" % (fname, tops[0][2]))
                    else:
                        chk.violation(rule, "fiber.c", fname, "locals", n.loc,
                                      "%s returns success without having nil-filled the slots up to the new frame top: the "
                                      "collector and the function see stale values in unset locals" % fname)
                # (2) a store beyond the pushed arguments is preceded by a fill starting at the old stack top
                if n.k == "asg" and n.kids[0].k == "sub" and is_mem(strip_casts(n.kids[0].kids[0]), "data", "JanetFiber"):
                    idx = strip_casts(n.kids[0].kids[1])
                    if idx.k == "ref" and idx.name == "tuplehead":
                        # only on the arm where tuplehead >= top (no pushed argument occupies it)
                        guard = None
                        for a in n.ancestors():
                            if a.k == "if" and any(is_ref(x, "tuplehead") for x in a.kids[0].walk()) and a.kids[0].k == "bin" and a.kids[0].op == ">=":
                                inthen = any(y is n for y in a.kids[1].walk())
                                guard = inthen
                                break
                        if guard:
                            chk.instance(rule)
                            fills = [f for f in st if f[0] == "nil" and "stacktop" in f[1]]
                            if fills:
                                chk.ok(rule, "%s: gap below the varargs slot nil-filled from %s" % (fname, fills[0][1]))
                            else:
                                chk.violation(rule, "fiber.c", fname, "vararg-gap", n.loc,
                                              "%s stores the varargs tuple at `tuplehead` above the pushed arguments without nil-filling the "
                                              "slots in between: missing optional parameters keep stale values" % fname)
                st = transfer(st, n)
    chk.floor(rule, 4)


def _drain_rule(chk, prog):
    rule = "C01-DRAIN"
    chk.rule(rule, "janet_collect drains values deferred by the marker's depth guard: pop before mark, until none are left")
    fn = prog.need_func("janet_collect", "gc.c")
    chk.analysed(fn)
    loops = [n for n in fn.nodes if n.k in ("while", "for", "do") and any(c.k == "call" and c.callee == "janet_mark" for c in n.walk())]
    # the drain loop is the one that is not the plain scan of the first orig_rootcount roots
    drain = None
    for lp in loops:
        cond = lp.kids[0] if lp.k == "while" else (lp.kids[1] if lp.k == "for" else lp.kids[1])
        body = lp.kids[1] if lp.k == "while" else (lp.kids[3] if lp.k == "for" else lp.kids[0])
        touches_count = any(x.k == "mem" and x.field == "root_count" and x.rec == "JanetVM" for x in lp.walk())
        if touches_count:
            drain = (lp, cond, body)
    chk.instance(rule)
    if drain is None:
        chk.violation(rule, "gc.c", "janet_collect", "drain-loop", fn.loc,
                      "janet_collect has no loop that empties the roots deferred by the recursion guard of janet_mark: deeply "
                      "nested live data is not marked")
        return
    lp, cond, body = drain
    if cond is not None and any(x.k == "mem" and x.field == "root_count" and x.rec == "JanetVM" for x in cond.walk()):
        chk.ok(rule, "drain loop re-reads janet_vm.root_count in its condition")
    else:
        chk.violation(rule, "gc.c", "janet_collect", "drain-condition", lp.loc,
                      "the drain loop does not re-test janet_vm.root_count: values deferred while draining are dropped unmarked")
    # pop before mark
    chk.instance(rule)
    dec = [x for x in body.walk() if (x.k == "un" and x.op in ("pre--", "post--") and is_mem(x.kids[0], "root_count", "JanetVM"))
           or (x.k == "asg" and x.op in ("-=", "=") and is_mem(x.kids[0], "root_count", "JanetVM"))]
    marks = [x for x in body.walk() if x.k == "call" and x.callee == "janet_mark"]
    if not dec or not marks:
        chk.violation(rule, "gc.c", "janet_collect", "pop-before-mark", lp.loc, "the drain loop does not pop an entry and mark it")
        return
    # CFG order: decrement element precedes the mark call on every path inside the body
    def transfer(st, n):
        if n in dec:
            return frozenset(["popped"])
        return st
    IN, OUT = flow.forward(fn, frozenset(), transfer, lambda a, b: a & b)
    ok = True
    ids = set(x.id for x in body.walk())
    for b, st in IN.items():
        for n in fn.blocks[b].elems:
            if n in marks and n.id in ids and "popped" not in st:
                ok = False
            st = transfer(st, n)
            if n is cond:
                st = frozenset()      # a new iteration starts
    if ok:
        chk.ok(rule, "each deferred value is removed from the root list before it is marked")
    else:
        chk.violation(rule, "gc.c", "janet_collect", "pop-before-mark", marks[0].loc,
                      "a deferred value is marked while it is still the last entry of the root list: a value deferred during that "
                      "marking is pushed behind it and then discarded by the decrement")


_run_prev = run


ROOT_ENUMERATORS = ("janet_ev_mark",)


def _markguard_rule(chk, prog):
    """The event loop's queues (spawned tasks, timers) hold raw fiber pointers that the loop dereferences later;
    janet_ev_mark is what keeps those fibers alive.  Every queued element must therefore be marked - a mark that
    is skipped depending on the element's own contents (its generation, a flag) lets the collector free a fiber
    the queue still points to.  Allowed guards: loop bounds over the queue's indices and a NULL test of the very
    pointer being marked."""
    rule = "C01-MARKGUARD"
    chk.rule(rule, "root enumerators mark every queued element: no mark is conditional on the element's own contents")
    n = 0
    for name in ROOT_ENUMERATORS:
        fn = next((f for f in prog.all_funcs() if f.name == name), None)
        if fn is None:
            raise AnalysisBroken("root enumerator %s not found" % name)
        chk.analysed(fn)
        IN, T = flow.condition_facts(fn)
        marks = [x for x in fn.nodes if x.k == "call" and x.callee in ("janet_mark", "janet_mark_table", "janet_mark_abstract")]
        for x, S in flow.states_at(fn, IN, T):
            if x not in marks:
                continue
            n += 1
            chk.instance(rule)
            target = None
            for a in x.args[0].walk():
                if a.k in ("mem", "sub", "ref") and (a.t or "").rstrip().endswith("*") and "(" not in (a.t or ""):
                    target = a.text().replace(" ", "")
                    break
            bad = None
            for ps in S:
                for (op, l, r, toks, ln, rn) in ps:
                    elementish = False
                    for side in (ln, rn):
                        if side is None:
                            continue
                        for y in side.walk():
                            if y.k == "sub" or (y.k == "ref" and "*" in (y.t or "") and y.d.get("d") in ("var", "parm")):
                                elementish = True
                    if not elementish:
                        continue
                    nulltest = (rn is None or rn.v == 0) and op in ("!=", "==") and target is not None and l.replace(" ", "") == target
                    if not nulltest:
                        bad = "%s %s %s" % (l, op, r or "0")
            if bad:
                chk.violation(rule, fn.tu.name, fn.name, x.args[0].text()[:50].replace(" ", ""), x.loc,
                              "`%s` is reached only when `%s` holds - a condition on the queued element itself: an element that fails it "
                              "stays in the queue unmarked, its fiber can be freed and the event loop later dereferences it" % (x.text()[:60], bad))
            else:
                chk.ok(rule, "%s: %s for every queued element" % (fn.name, x.text()[:50]))
    chk.floor(rule, 6, n)


def _stale_fiberptr(chk, prog):
    """Inside the fiber implementation itself (frame constructors, push helpers, unmarshalling) code also holds raw
    pointers into fiber->data.  janet_fiber_setcapacity / janet_fiber_grow reallocate that array, so a pointer computed
    before such a call is dangling after it; it must be recomputed from fiber->data before its next use."""
    rule = "C01-FIBERPTR"
    chk.rule(rule, "a local pointer into fiber->data is not used after a call that can reallocate the fiber's stack without being recomputed")
    RELOC = ("janet_fiber_setcapacity", "janet_fiber_grow", "janet_fiber_refresh_memory")
    n = 0
    for fn in prog.all_funcs():
        if fn.name == "run_vm":
            continue      # covered by the handler-wise STALE rule
        ptrs = set()
        for x in fn.nodes:
            tgt = rhs = None
            if x.k == "vardecl" and x.kids:
                tgt, rhs = x.name, x.kids[0]
            elif x.k == "asg" and x.op == "=" and is_ref(x.kids[0]):
                tgt, rhs = x.kids[0].name, x.kids[1]
            if tgt and rhs is not None and "*" in ((x.t if x.k == "vardecl" else x.kids[0].t) or "") and \
                    any(y.k == "mem" and y.field == "data" and y.rec == "JanetFiber" for y in rhs.walk()):
                ptrs.add(tgt)
        relocs = [c for c in fn.nodes if c.k == "call" and c.callee in RELOC]
        if not ptrs or not relocs:
            continue
        chk.analysed(fn)

        def transfer(st, x):
            tgt = rhs = None
            if x.k == "vardecl" and x.kids:
                tgt, rhs = x.name, x.kids[0]
            elif x.k == "asg" and x.op == "=" and is_ref(x.kids[0]):
                tgt, rhs = x.kids[0].name, x.kids[1]
            if tgt in ptrs:
                return st - {tgt}          # (re)computed
            if x.k == "call" and x.callee in RELOC:
                return st | frozenset(ptrs)
            return st
        IN, OUT = flow.forward(fn, frozenset(), transfer, lambda a, b: a | b)
        bad = {}
        for x, st in flow.states_at(fn, IN, transfer):
            if x.k == "ref" and x.name in st and x.name in ptrs:
                p_ = x.parent
                if p_ is not None and ((p_.k == "asg" and p_.op == "=" and p_.kids[0] is x) or p_.k == "vardecl"):
                    continue
                bad.setdefault(x.name, x)
        for v in sorted(ptrs):
            n += 1
            chk.instance(rule)
            if v in bad:
                chk.violation(rule, fn.tu.name, fn.name, v, bad[v].loc,
                              "`%s` points into fiber->data and is used at %s after a call that can reallocate the stack (%s) without "
                              "being recomputed: the access goes to the old, freed block" % (v, bad[v].loc, ", ".join(sorted(set(c.callee for c in relocs)))))
            else:
                chk.ok(rule, "%s: `%s` is recomputed before any use that follows a possible reallocation" % (fn.name, v))
    chk.floor(rule, 2, n)


def run(chk):   # noqa
    prog = Program.load("default")
    S = Summaries(prog)
    chk.extra["may_relocate_functions"] = len(S.may_relocate)
    _stale_vm(chk, prog, S)
    _stale_argv(chk, prog, S)
    _mark_rule(chk, prog)
    _safepoint_rule(chk, prog, S)
    _nilfill_rule(chk, prog)
    _drain_rule(chk, prog)
    _markguard_rule(chk, prog)
    _stale_fiberptr(chk, prog)
    _markbit_rule(chk, prog)
    _viewpin_rule(chk, prog, S)
    _threadedmark_rule(chk, prog)
    _ringmark_rule(chk, prog)
    _stackarg_rule(chk, prog, S)
    _cbstate_rule(chk, prog)
    _markpath_rule(chk, prog)
    _markexit_rule(chk, prog)
    _stacklocal_rule(chk, prog, S)
    _rootcount_rule(chk, prog)
    _compilerlock_rule(chk, prog)
    _segmentmark_rule(chk, prog)


def _threadedmark_rule(chk, prog):
    """Threaded abstracts are on no block list: the sweep never clears their mark bit, and `visited in this cycle` is
    the `true` stored for them in janet_vm.threaded_abstracts.  If reaching that store depends on the mark bit, the
    bit set in collection N hides the object from collection N+1: its table entry stays false, the sweep drops this
    thread's reference and the finalizer runs on an object the program still holds."""
    rule = "C01-THREADEDMARK"
    chk.rule(rule, "marking a threaded abstract (the store into janet_vm.threaded_abstracts) is reached without consulting or setting the mark bit, which no sweep resets for such objects")
    fn = prog.need_func("janet_mark_abstract", "gc.c")
    chk.analysed(fn)
    puts = [c for c in fn.calls("janet_table_put") if "threaded_abstracts" in c.text()]
    if not puts:
        raise AnalysisBroken("janet_mark_abstract: the store into janet_vm.threaded_abstracts was not found")
    order = {id(x): i for i, x in enumerate(fn.nodes)}
    IN, T = flow.condition_facts(fn)
    for x, S in flow.states_at(fn, IN, T):
        if x not in puts:
            continue
        chk.instance(rule)
        bad = None
        for ps in S:
            for (op, l, r, toks, ln, rn) in ps:
                for e in (ln, rn):
                    if e is not None and any("janet_gc_reachable" in y.macro_names() or "JANET_MEM_REACHABLE" in y.macro_names() for y in e.walk()):
                        bad = e
        # a mark-bit store that precedes the table update on the way in is the same mistake seen from the other side
        pre = [y for y in fn.nodes if "janet_gc_mark" in y.macro_names() and y.k == "asg" and order[id(y)] < order[id(x)]]
        if bad is None and not pre:
            chk.ok(rule, "janet_mark_abstract: threaded abstracts are recorded in the table before the mark bit is looked at")
        else:
            chk.violation(rule, "gc.c", "janet_mark_abstract", "threaded-abstracts-store", x.loc,
                          "the store into janet_vm.threaded_abstracts is reached only %s: threaded abstracts are on no block list, the "
                          "sweep never clears that bit, and from the second collection on a reachable ev/thread-chan or ev/lock is "
                          "left `false` in the table and finalized" %
                          ("past a test of the mark bit (`%s`)" % bad.text()[:60] if bad is not None else "after the mark bit has been set"))
    chk.floor(rule, 1, len(puts))
    # the same independence for every reader of the bit: `was this abstract visited` may be asked of the mark bit only
    # once threaded abstracts have been excluded (for them the answer is in the table)
    gc = prog.tus["gc.c"]
    k = 0
    for g in gc.funcs.values():
        sites = [x for x in g.nodes if "janet_gc_reachable" in x.macro_names() and x.k == "bin" and x.op == "&" and "JanetAbstractHead" in x.text()]
        if not sites:
            continue
        chk.analysed(g)
        IN2, T2 = flow.condition_facts(g)
        res = {}
        for x, S in flow.states_at(g, IN2, T2):
            for sx in sites:
                if x is sx:
                    res[id(sx)] = bool(S) and all(any(op == "!=" and rn is not None and
                                                      ("JANET_MEMORY_THREADED_ABSTRACT" in rr or any(y.k == "ref" and y.name == "JANET_MEMORY_THREADED_ABSTRACT" for y in rn.walk()))
                                                      for (op, l, rr, toks, ln, rn) in ps) for ps in S)
        for sx in sites:
            if id(sx) not in res:
                continue
            k += 1
            chk.instance(rule)
            if res[id(sx)]:
                chk.ok(rule, "%s: the mark bit of an abstract is read only after threaded abstracts were excluded" % g.name)
            else:
                chk.violation(rule, "gc.c", g.name, "markbit-of-threaded", sx.loc,
                              "%s reads the mark bit of an abstract that may be a threaded abstract: no sweep maintains that bit for "
                              "them, so the answer is stale - a weak array or weak table drops a thread channel the program still "
                              "holds (or keeps a dead one)" % g.name)
    if k < 2:
        raise AnalysisBroken("only %d mark-bit reads of abstract heads found in gc.c" % k)


def _ringmark_rule(chk, prog):
    """The event loop's queues are rings.  A function that visits every item (mark callbacks, the channel marshaller)
    has to cover [head, tail) when head <= tail and both [head, capacity) and [0, tail) once the ring has wrapped.  A
    walk that starts at head with any other bound, or that lacks the [0, tail) part, skips live items: unmarked fibers
    parked in a channel are freed while they wait."""
    rule = "C01-RINGMARK"
    chk.rule(rule, "a function that walks a ring queue from its head covers all three segments: head..tail, head..capacity and 0..tail")
    n = 0
    for fn in prog.tus["ev.c"].funcs.values():
        walks = {}
        for x in fn.nodes:
            if x.k != "for" or x.kids[0] is None or x.kids[1] is None:
                continue
            inits = [y for y in x.kids[0].walk() if (y.k == "asg" and y.op == "=") or (y.k == "vardecl" and y.kids)]
            cond = strip_casts(x.kids[1])
            if not inits or cond.k != "bin" or cond.op not in ("<", "!="):
                continue
            start = strip_casts(inits[0].kids[1] if inits[0].k == "asg" else inits[0].kids[0])
            end = strip_casts(cond.kids[1])
            def qf(e):
                return (e.kids[0].text(), e.field) if e.k == "mem" and e.rec == "JanetQueue" else None
            s_, e_ = qf(start), qf(end)
            if s_ and s_[1] == "head":
                # a walk that wraps its own index (i = (i + 1) % capacity, or a reset to 0 inside) covers the ring in one loop
                iv = inits[0].kids[0].name if inits[0].k == "asg" and inits[0].kids[0].k == "ref" else inits[0].name
                modular = any((y.k == "bin" and y.op == "%") or y.k == "cond" or
                              (y.k == "asg" and y.kids[0].k == "ref" and y.kids[0].name == iv and strip_casts(y.kids[1]).k == "int" and strip_casts(y.kids[1]).v == 0)
                              for k in x.kids[2:] if k is not None for y in k.walk())
                if modular:
                    for seg in (("head", "tail"), ("head", "capacity"), ("0", "tail")):
                        walks.setdefault(s_[0], []).append(seg + (x,))
                    continue
                walks.setdefault(s_[0], []).append(("head", e_[1] if e_ and e_[0] == s_[0] else "?" + end.text(), x))
            elif start.k == "int" and start.v == 0 and e_ and e_[1] == "tail":
                walks.setdefault(e_[0], []).append(("0", "tail", x))
        for q, ws in sorted(walks.items()):
            if not any(a == "head" for a, b, x in ws):
                continue
            n += 1
            chk.instance(rule)
            chk.analysed(fn)
            have = set((a, b) for a, b, x in ws)
            missing = [("head", "tail"), ("head", "capacity"), ("0", "tail")]
            missing = [m for m in missing if m not in have]
            odd = [(a, b, x) for a, b, x in ws if b.startswith("?")]
            if not missing and not odd:
                chk.ok(rule, "%s: %s walked as head..tail | head..capacity + 0..tail" % (fn.name, q))
            else:
                x = (odd or ws)[0][2]
                chk.violation(rule, "ev.c", fn.name, "ring:" + q.replace(" ", ""), x.loc,
                              "%s walks the ring %s from its head but %s: items stored in the wrapped part of the ring are skipped (an "
                              "unmarked fiber parked in a channel is freed while it waits)" %
                              (fn.name, q, "; ".join(["bounds the walk by `%s`" % b[1:] for a, b, x in odd] +
                                                     ["has no %s..%s segment" % m for m in missing])))
    chk.floor(rule, 2, n)      # four today; a walk rewritten with a countdown loop is no longer one of these


def _markbit_rule(chk, prog):
    """Some mark functions mark a pointer field only when a bit of a flag word says the field holds a collectable
    object (the parser's generated error string).  Whoever clears that bit without replacing the pointer turns a live
    object into an unmarked one: the next collection frees it while the field still points at it."""
    rule = "C01-MARKBIT"
    chk.rule(rule, "a flag bit that makes a mark function mark a pointer field is cleared only by code that also replaces that pointer")
    from rules.c03 import abstract_types
    marknames = set()
    for tu, name, vals in abstract_types(prog):
        mv = vals.get("gcmark")
        if mv is not None and mv.k == "ref":
            marknames.add(mv.name)
    guards = {}      # (rec, flagfield, mask) -> (pointer field, mark function)
    wholeword = []
    for fn in prog.all_funcs():
        if not (fn.name in marknames or (fn.tu.name == "gc.c" and fn.name.startswith("janet_mark"))):
            continue
        marks = [x for x in fn.nodes if x.k == "call" and x.callee in ("janet_mark", "janet_mark_table", "janet_mark_abstract", "janet_mark_many")]
        if not marks:
            continue
        chk.analysed(fn)
        IN, T = flow.condition_facts(fn)
        for x, S in flow.states_at(fn, IN, T):
            if x not in marks:
                continue
            ptrs = [y for y in x.args[0].walk() if y.k == "mem" and y.rec]
            for ps in S:
                for (op, l, r, toks, ln, rn) in ps:
                    if ln is not None and op == "==" and rn is not None and (rn.v or 0) != 0 and strip_casts(ln).k == "mem" and strip_casts(ln).rec:
                        # the whole flag word is compared with one bit's value
                        a = strip_casts(ln)
                        for pf in ptrs:
                            if pf.rec == a.rec and pf.field != a.field:
                                wholeword.append((fn, x, a, rn.v, pf))
                    if ln is None or op != "!=" or not (rn is None or rn.v == 0):
                        continue
                    b = strip_casts(ln)
                    if b.k != "bin" or b.op != "&":
                        continue
                    for a, m in ((b.kids[0], b.kids[1]), (b.kids[1], b.kids[0])):
                        a, m = strip_casts(a), strip_casts(m)
                        if a.k == "mem" and a.rec and m.v is not None:
                            for pf in ptrs:
                                if pf.rec == a.rec and pf.field != a.field:
                                    guards[(a.rec, a.field, m.v)] = (pf.field, fn.name)
    seen_ww = set()
    for (fn, x, a, val, pf) in wholeword:
        if (fn.name, a.field) in seen_ww:
            continue
        # other bits of the same word are set somewhere: then "word == bit" is false although the bit is set
        others = [y for g in prog.all_funcs() for y in g.nodes if y.k == "asg" and y.op in ("|=", "=") and y.kids[0].k == "mem"
                  and y.kids[0].rec == a.rec and y.kids[0].field == a.field and strip_casts(y.kids[1]).v is not None
                  and (strip_casts(y.kids[1]).v & ~val) != 0]
        if others:
            seen_ww.add((fn.name, a.field))
            chk.instance(rule)
            chk.violation(rule, fn.tu.name, fn.name, "%s.%s==%s" % (a.rec, a.field, val), x.loc,
                          "%s marks %s.%s only when the whole flag word %s equals %#x, but other bits are set in that word elsewhere "
                          "(`%s` at %s): once both are set the object the field points to is not marked and the next collection frees it "
                          "while the field still refers to it" % (fn.name, pf.rec, pf.field, a.field, val, others[0].text()[:40], others[0].loc))
    if not guards and not seen_ww:
        raise AnalysisBroken("no flag-guarded mark found (the parser's generated-error bit was confirmed by hand)")
    for (rec, ff, mask), (pf, mfn) in sorted(guards.items()):
        for fn in prog.all_funcs():
            stores = [x for x in fn.nodes if x.k == "asg" and x.kids[0].k == "mem" and x.kids[0].rec == rec and x.kids[0].field == ff]
            if not stores:
                continue
            replaces = any(x.k == "asg" and x.kids[0].k == "mem" and x.kids[0].rec == rec and x.kids[0].field == pf for x in fn.nodes)
            for st in stores:
                chk.instance(rule)
                rhs = strip_casts(st.kids[1])
                clearing = False
                if st.op == "|=":
                    clearing = False
                elif st.op == "&=":
                    clearing = rhs.v is None or (~rhs.v & mask) != 0
                elif st.op == "=":
                    if rhs.k == "mem" and rhs.rec == rec and rhs.field == ff:
                        clearing = False      # copies the bit together with (checked below) the pointer
                        if not replaces:
                            clearing = True
                    else:
                        clearing = rhs.v is None or (rhs.v & mask) != mask
                else:
                    clearing = True
                if not clearing:
                    chk.ok(rule, "%s: `%s` keeps bit 0x%x of %s.%s" % (fn.name, st.text()[:40], mask, rec, ff))
                elif replaces:
                    chk.ok(rule, "%s: `%s` may clear bit 0x%x and the function also replaces %s.%s" % (fn.name, st.text()[:40], mask, rec, pf))
                else:
                    chk.violation(rule, fn.tu.name, fn.name, "%s.%s:0x%x" % (rec, ff, mask), st.loc,
                                  "`%s` can clear bit 0x%x of %s.%s, the bit under which %s marks %s.%s, and %s does not replace that "
                                  "pointer: an object it still points at is no longer marked and the next collection frees it" % (
                                      st.text()[:50], mask, rec, ff, mfn, rec, pf, fn.name))
    chk.floor(rule, 1 if seen_ww else 4)


VIEW_SOURCES = ("janet_getbytes", "janet_optbytes")
# argument decoders that can re-enter the interpreter only through the `length` method of an abstract operand;
# the operand of a byte view is a string / symbol / keyword / buffer
VIEW_DECODERS = ("janet_getslice", "janet_gethalfrange", "janet_getstartrange", "janet_getendrange", "janet_length", "janet_lengthv")


def _viewpin_rule(chk, prog, S):
    """janet_getbytes hands a C function a raw pointer into its argument; when the argument is a buffer that memory
    belongs to a mutable object.  A C function that keeps such a view while it calls back into Janet code (a
    substitution function, a function inside a PEG) lets that code resize the buffer: the view then points at freed
    memory.  Such a function has to pin the bytes: work on a private immutable copy of a buffer argument, or re-validate
    the buffer's storage right after every call-back and refuse to continue if it moved."""
    rule = "C01-VIEWPIN"
    chk.rule(rule, "a C function that keeps a byte view of an argument across a call back into Janet copies buffer arguments first or re-validates the buffer after each call-back")
    n = 0
    for fn in prog.all_funcs():
        ps = [p_.get("t", "") for p_ in fn.params]
        if not (len(ps) == 2 and "Janet *" in ps[1] and "int32_t" in ps[0]):
            continue
        T, seen, frontier = [fn], {fn.name}, [fn]
        for _ in range(2):
            nxt = []
            for f in frontier:
                for c in f.calls():
                    g = fn.tu.funcs.get(c.callee) if c.callee else None
                    if g is not None and g.name not in seen:
                        seen.add(g.name)
                        T.append(g)
                        nxt.append(g)
            frontier = nxt
        views = [(f, c) for f in T for c in f.calls() if c.callee in VIEW_SOURCES]
        if not views:
            continue
        reenters = [(f, c) for f in T for c in f.calls()
                    if c.callee not in VIEW_DECODERS and c.callee not in VIEW_SOURCES and S.call_in(f, c, S.may_relocate)
                    and not (c.callee and fn.tu.funcs.get(c.callee) in T)]
        if not reenters:
            continue
        chk.analysed(fn)
        # (a) private copy of buffer arguments: argv[i] = <string copy> under a test for JANET_BUFFER
        copies = False
        for f in T:
            for x in f.nodes:
                if x.k == "asg" and x.op == "=" and x.kids[0].k == "sub" and any(c.k == "call" and c.callee in ("janet_stringv", "janet_string") for c in x.kids[1].walk()):
                    for a in x.ancestors():
                        if a.k == "if" and any((y.k == "ref" and y.name == "JANET_BUFFER") or "JANET_BUFFER" in y.text() for y in a.kids[0].walk()):
                            copies = True
        # (b) a re-validation helper: compares a JanetBuffer's data pointer and raises
        checkers = set()
        for f in fn.tu.funcs.values():
            cmp_ = any(x.k == "bin" and x.op in ("!=", "==") and any(y.k == "mem" and y.field == "data" and y.rec == "JanetBuffer" for y in x.walk()) for x in f.nodes)
            raises = any(prog.is_noreturn(c.callee or "") for c in f.calls())
            if cmp_ and raises:
                checkers.add(f.name)
        for (f, c) in reenters:
            n += 1
            chk.instance(rule)
            if copies:
                chk.ok(rule, "%s: buffer arguments are replaced by private string copies before `%s`" % (fn.name, c.text()[:40]))
                continue
            # must-pass-through: after the call-back the next call on every path is a re-validation
            def transfer(st, x, c=c):
                if x is c:
                    return frozenset(["dirty"])
                if x.k == "call" and x.callee in checkers:
                    return frozenset()
                return st
            IN, OUT = flow.forward(f, frozenset(), transfer, lambda a, b: a | b)
            bad = None
            for x, st in flow.states_at(f, IN, transfer):
                if "dirty" in st and x is not c and x.k == "call" and x.callee not in checkers and not prog.is_noreturn(x.callee or ""):
                    bad = bad or x
            ex = IN.get(f.exit)
            if bad is None and ex and "dirty" in ex:
                bad = c
            if bad is None:
                chk.ok(rule, "%s: `%s` is followed by a re-validation of the subject buffer on every path" % (f.name, c.text()[:40]))
            else:
                chk.violation(rule, fn.tu.name, fn.name, "%s:%s" % (f.name, c.callee or "pointer-call"), c.loc,
                              "%s keeps a byte view taken with %s while `%s` (in %s) can run Janet code; that code can resize a buffer "
                              "argument, and the next use of the view (%s) reads freed memory. No private copy of buffer arguments and no "
                              "re-validation after the call-back was found" % (
                                  fn.name, views[0][1].callee, c.text()[:50], f.name, bad.loc))
    chk.floor(rule, 6, n)


def _stackarg_rule(chk, prog, S):
    """A helper that is handed a pointer into the running fiber's stack (fiber->data + offset) is in the position of a
    C function with its argv: any call that can re-enter the interpreter on this fiber may reallocate the stack, and the
    pointer must not be used afterwards.  vm_do_trace printed its arguments with janet_eprintf one by one - with
    (dyn :err) bound to a function every print runs Janet code on the same fiber."""
    rule = "C01-STACKARG"
    chk.rule(rule, "a function that receives a pointer into the running fiber's stack as an argument does not use it after a call that can relocate that stack")
    targets = {}
    for fn in prog.all_funcs():
        for c in fn.nodes:
            if c.k != "call" or not c.callee:
                continue
            for i, a in enumerate(c.args):
                if any(y.k == "mem" and y.field == "data" and y.rec == "JanetFiber" for y in a.walk()) and \
                        any(y.k == "bin" and y.op == "+" for y in a.walk()):
                    g = prog.func(c.callee, fn.tu) or next((f for f in prog.all_funcs() if f.name == c.callee), None)
                    if g is not None and i < len(g.params) and "*" in g.params[i]["t"]:
                        targets.setdefault((g.tu.name, g.name), (g, set()))[1].add(g.params[i]["n"])
    n = 0
    for (_, _), (g, params) in sorted(targets.items()):
        if g.is_cfun_sig() or g.name in ("run_vm",):
            continue                    # argv of cfunctions: C01-ARGV
        relocs = [c for c in g.nodes if c.k == "call" and S.call_in(g, c, S.may_relocate)]
        for pn in sorted(params):
            n += 1
            chk.instance(rule)
            chk.analysed(g)
            if not relocs:
                chk.ok(rule, "%s: `%s` - no call in the function can relocate the stack" % (g.name, pn))
                continue

            def transfer(st, x, pn=pn):
                if x.k == "asg" and x.op == "=" and is_ref(x.kids[0]) and x.kids[0].name == pn:
                    return frozenset()
                if x.k == "call" and x in relocs:
                    return frozenset(["stale"])
                return st
            IN, OUT = flow.forward(g, frozenset(), transfer, lambda a, b: a | b)
            bad = None
            for x, st in flow.states_at(g, IN, transfer):
                if "stale" in st and x.k == "ref" and x.name == pn and bad is None:
                    p_ = x.parent
                    if p_ is not None and p_.k == "asg" and p_.op == "=" and p_.kids[0] is x:
                        continue
                    bad = x
            if bad is None:
                chk.ok(rule, "%s: `%s` is not used after a relocating call" % (g.name, pn))
            else:
                chk.violation(rule, g.tu.name, g.name, pn, bad.loc,
                              "`%s` points into the running fiber's stack (callers pass fiber->data + offset) and is used at %s after `%s`, "
                              "which can run Janet code on the same fiber and reallocate that stack" % (pn, bad.loc, relocs[0].text()[:40]))
    chk.floor(rule, 3, n)


def _cbstate_rule(chk, prog):
    """The state of a pending stream operation is a malloc'ed struct that only the fiber's ev_state points at; the
    collector reaches what it refers to through the callback's MARK event and through nothing else.  ev/read without a
    buffer argument creates its buffer and stores it in that state only: if the MARK arm does not mark it, a
    collection during the wait frees the buffer the read is about to fill."""
    rule = "C01-CBSTATE"
    chk.rule(rule, "every collectable object an event callback's state struct refers to is marked by that callback (its MARK arm)")
    from rules.c03 import abstract_types
    abstract_payloads = set()
    for tu, name, vals in abstract_types(prog):
        abstract_payloads.add(name)
    n = 0
    for fn in prog.all_funcs():
        ps = fn.params
        if not (len(ps) == 2 and "JanetAsyncEvent" in ps[1]["t"] and "JanetFiber" in ps[0]["t"]):
            continue
        T = svar = None
        for x in fn.nodes:
            if x.k == "vardecl" and x.kids and any(y.k == "mem" and y.field == "ev_state" for y in x.kids[0].walk()):
                t = (x.t or "")
                if t.count("*") == 1:
                    T, svar = t.replace("*", "").replace("struct ", "").strip(), x.name
        rec = prog.records.get(T) if T else None
        if rec is None:
            continue
        # the state may itself be a collected object (an abstract) that the callback marks as a whole
        if any(c.k == "call" and (c.callee or "").startswith("janet_mark") and
               any(y.k == "ref" and y.name == svar for y in c.walk()) and not any(y.k == "mem" and y.rec == T for y in c.walk())
               for c in fn.nodes):
            continue
        marked = set()
        for c in fn.nodes:
            if c.k == "call" and (c.callee or "").startswith("janet_mark"):
                for y in c.walk():
                    if y.k == "mem" and y.rec == T:
                        marked.add(y.field)
        for f in rec["fields"]:
            if not ref_bearing(f):
                continue
            n += 1
            chk.instance(rule)
            chk.analysed(fn)
            if f["n"] in marked:
                chk.ok(rule, "%s: state->%s is marked" % (fn.name, f["n"]))
            else:
                chk.violation(rule, fn.tu.name, fn.name, "%s.%s" % (T, f["n"]), fn.loc,
                              "%s never marks `%s` of its state (%s): the state struct is plain malloc memory, so during the wait "
                              "nothing else keeps that object alive - a collection frees it and the operation goes on using it" % (
                                  fn.name, f["n"], f["t"]))
    chk.floor(rule, 2, n)


def _markpath_rule(chk, prog):
    """C01-MARK asks that a mark function mentions every reference-bearing field of its record.  Mentioning is not
    enough when the function can leave early: an exit taken after some of the fields were visited and before the
    others skips those for this object for good (its mark bit is already set, so no later visit comes back)."""
    rule = "C01-MARKPATH"
    chk.rule(rule, "a mark function that has started visiting the reference-bearing fields of its record reaches no return before it has visited all of them")
    n = 0
    for rec, (mname, exc) in sorted(MARK_TABLE.items()):
        r = prog.records.get(rec)
        fn = prog.func(mname, "gc.c") or prog.func(mname, "ev.c")
        if r is None or fn is None:
            continue
        refs = set(f["n"] for f in r["fields"] if ref_bearing(f) and f["n"] not in exc)
        if rec == "JanetStackFrame":
            continue        # visited inside the frame loop of janet_mark_fiber; the fiber's own fields carry the clause
        every = set(x.field for x in fn.nodes if x.k == "mem" and x.rec == rec and x.field in refs)
        if len(every) < 2:
            continue
        n += 1
        chk.instance(rule)
        chk.analysed(fn)

        subject = fn.params[0]["n"] if fn.params else None

        def transfer(st, x, rec=rec, refs=refs, subject=subject):
            for y in x.walk():
                if y.k == "mem" and y.rec == rec and y.field in refs:
                    st = st | {y.field}
            if x.k == "asg" and x.op == "=" and is_ref(x.kids[0]) and x.kids[0].name == subject:
                return frozenset()      # manual tail recursion: the function goes on with another object
            return st
        IN, OUT, T = flow.forward_paths(fn, frozenset(), transfer, cap=64)
        bad = None
        for b, kind in flow.exits(fn):
            if kind != "return" or b.id not in OUT:
                continue
            # only an explicit `return` counts: falling off the end after loops that ran zero times or a branch on the
            # kind of object is the function's normal way out
            if not any(x.k == "return" for e in b.elems for x in [e]) and not (b.term is not None and b.term.k == "return"):
                continue
            for ps in OUT[b.id]:
                if ps and (every - ps):
                    bad = (b, sorted(every - ps), sorted(ps))
        if bad:
            b, missing, seen = bad
            last = b.elems[-1] if b.elems else fn
            chk.violation(rule, fn.tu.name, fn.name, "%s:%s" % (rec, ",".join(missing)), last.loc,
                          "%s can return (near %s) after visiting %s of a %s but before visiting %s: the object's mark bit is set, "
                          "so what those fields refer to is never visited for it and is freed while the object still points at it" % (
                              fn.name, last.loc, ", ".join(seen), rec, ", ".join(missing)))
        else:
            chk.ok(rule, "%s: every return after the first field visit has passed all of {%s}" % (fn.name, ",".join(sorted(every))))
    chk.floor(rule, 4, n)


def _markexit_rule(chk, prog):
    """Setting an object's mark bit tells every later visit "already done".  A mark function of gc.c that returns
    (explicit `return`) with the bit set before it has visited a single child, although it has child visits further
    down, has declared the object done with none of its children visited (a shortcut for "empty" objects that forgets
    the prototype link is the typical case)."""
    rule = "C01-MARKEXIT"
    chk.rule(rule, "a mark function of gc.c with child visits does not return between setting the object's mark bit and its first child visit")
    tu = prog.tus["gc.c"]
    n = 0
    for fn in sorted(tu.funcs.values(), key=lambda f: f.name):
        if not fn.name.startswith("janet_mark_"):
            continue
        sets = [x for x in fn.nodes if x.k == "asg" and x.op == "|=" and x.in_macro("janet_gc_mark")]
        if not sets:
            continue
        subject = fn.params[0]["n"] if fn.params else None

        def is_visit(x, subject=subject):
            if x.k == "call" and x.callee and (x.callee.startswith("janet_mark") or x.callee in ("janet_gc_mark_abstract",)):
                return True
            if x.k == "call" and x.callee is None:
                return True         # the abstract type's own gcmark hook
            if x.k == "asg" and x.op == "=" and is_ref(x.kids[0]) and x.kids[0].name == subject:
                return True         # manual tail recursion into the child
            return False
        if not any(is_visit(x) for x in fn.nodes):
            continue
        n += 1
        chk.instance(rule)
        chk.analysed(fn)
        setids = set(x.id for x in sets)

        def transfer(st, x, setids=setids, is_visit=is_visit):
            if x.id in setids:
                return frozenset(["marked"])
            if is_visit(x):
                return frozenset(["visited"]) if st else st
            return st
        IN, OUT, T = flow.forward_paths(fn, frozenset(), transfer, cap=64)
        bad = None
        for b, kind in flow.exits(fn):
            if kind != "return" or b.id not in OUT:
                continue
            if not any(e.k == "return" for e in b.elems) and not (b.term is not None and b.term.k == "return"):
                continue
            if any("marked" in ps for ps in OUT[b.id]):
                bad = b
        if bad is not None:
            last = bad.elems[-1] if bad.elems else fn
            chk.violation(rule, "gc.c", fn.name, "return-after-mark", last.loc,
                          "%s can return (near %s) right after setting the object's mark bit, before any child is visited, although "
                          "it visits children further down: for such an object nothing it refers to (prototype, elements, environment) "
                          "is ever marked, and the sweep frees it while the object still points at it" % (fn.name, last.loc))
        else:
            chk.ok(rule, "%s: no explicit return between the mark bit and the first child visit" % fn.name)
    chk.floor(rule, 5, n)


def _stacklocal_rule(chk, prog, S):
    """Outside run_vm (C01-STALE) and the cfunction argv (C01-ARGV), code that walks a fiber's frames keeps local
    pointers into fiber->data.  Such a pointer is dead after any call that can re-enter the interpreter (janet_eprintf
    with :err bound to a function, janet_call) - the code that runs can grow that stack - until it is derived again.
    (Growth through the fiber API on the same fiber variable is C01-FIBERPTR.)"""
    rule = "C01-STACKLOCAL"
    chk.rule(rule, "a local pointer derived from fiber->data is not used after a call that can reallocate a fiber stack without being derived again")
    grow = set()
    cg = S.cg if hasattr(S, "cg") else None

    def derived(e):
        return any(y.k == "mem" and y.field == "data" and y.rec == "JanetFiber" for y in e.walk())
    n = 0
    for fn in prog.all_funcs():
        if fn.name in ("run_vm", "janet_fiber_setcapacity"):
            continue
        locs = {}
        for x in fn.nodes:
            if x.k == "vardecl" and x.kids and "*" in (x.t or "") and derived(x.kids[0]):
                locs.setdefault(x.name, x)
            if x.k == "asg" and x.op == "=" and is_ref(x.kids[0]) and derived(x.kids[1]) and "*" in (x.kids[0].t or "*"):
                locs.setdefault(x.kids[0].name, x)
        if not locs:
            continue
        relocs = [c for c in fn.nodes if c.k == "call" and S.call_in(fn, c, S.may_relocate)]
        for v, site in sorted(locs.items()):
            n += 1
            chk.instance(rule)
            chk.analysed(fn)
            if not relocs:
                chk.ok(rule, "%s: `%s` - no call in the function can move a fiber stack" % (fn.name, v))
                continue

            def transfer(st, x, v=v):
                if x.k == "vardecl" and x.name == v:
                    return frozenset()
                if x.k == "asg" and x.op == "=" and is_ref(x.kids[0]) and x.kids[0].name == v:
                    return frozenset()
                if x.k == "call" and x in relocs:
                    return frozenset([x.id])
                return st
            IN, OUT = flow.forward(fn, frozenset(), transfer, lambda a, b: a | b)
            bad = None
            for x, st in flow.states_at(fn, IN, transfer):
                if st and x.k == "ref" and x.name == v and bad is None:
                    p_ = x.parent
                    if p_ is not None and p_.k == "asg" and p_.op == "=" and p_.kids[0] is x:
                        continue
                    bad = (x, st)
            if bad is None:
                chk.ok(rule, "%s: `%s` is derived again before every use that follows a stack-moving call" % (fn.name, v))
            else:
                x, st = bad
                call = next((c for c in relocs if c.id in st), relocs[0])
                chk.violation(rule, fn.tu.name, fn.name, v, x.loc,
                              "`%s` points into a fiber's stack (%s at %s) and is used at %s after `%s`, which can reallocate that "
                              "stack: the use reads or writes freed memory" % (v, site.text()[:50], site.loc, x.loc, call.text()[:50]))
    chk.floor(rule, 8, n)


def _rootcount_rule(chk, prog):
    """Explicit roots are counted: janet_gcroot appends one entry per call and janet_gcunroot removes one - the same
    value may be rooted by several owners (one handler function installed for two signals), and each gives back only
    its own registration.  janet_gcunrootall is the function that removes them all.  So the removal branch of
    janet_gcunroot ends the search."""
    rule = "C01-ROOTCOUNT"
    chk.rule(rule, "janet_gcunroot removes exactly one registration: the branch that removes an entry returns (or breaks) at once")
    fn = prog.need_func("janet_gcunroot", "gc.c")
    chk.analysed(fn)
    chk.instance(rule)
    removes = [x for x in fn.nodes if (x.k == "un" and x.op in ("--", "pre--", "post--") and any(y.k == "mem" and y.field == "root_count" for y in x.walk()))
               or (x.k == "asg" and x.op == "-=" and x.kids[0].k == "mem" and x.kids[0].field == "root_count")]
    if not removes:
        raise AnalysisBroken("janet_gcunroot: the decrement of root_count was not found")
    bad = None
    for r in removes:
        q = r.parent
        while q is not None and q.k not in ("if", "compound"):
            q = q.parent
        # the enclosing statement list must end the search
        blk = r.parent
        while blk is not None and blk.k != "compound":
            blk = blk.parent
        ends = blk is not None and any(y.k in ("return", "break", "goto") for y in blk.kids)
        loop = blk
        inloop = False
        while loop is not None:
            if loop.k in ("for", "while", "do"):
                inloop = True
            loop = loop.parent
        if inloop and not ends:
            bad = r
    if bad is None:
        chk.ok(rule, "janet_gcunroot stops after the first registration it removes")
    else:
        chk.violation(rule, "gc.c", "janet_gcunroot", "remove-all", bad.loc,
                      "janet_gcunroot removes an entry inside its search loop and goes on searching: one unroot drops every registration of "
                      "the value, so an object rooted by two owners (one function installed as the handler of two signals) loses the "
                      "second owner's root as well and is freed while that owner still uses it")
    chk.floor(rule, 1)


def _compilerlock_rule(chk, prog):
    """The compiler keeps its half-built state in C memory only: scratch-allocated vectors and finished inner function
    definitions hanging off scopes.  A collection frees all scratch memory and cannot see those definitions.  Where the
    compiler re-enters the interpreter (macro expansion, the :missing-symbol hook) the collector is therefore locked -
    rooting the callee's fiber is not a substitute."""
    rule = "C01-COMPILERLOCK"
    chk.rule(rule, "every call from compile.c / specials.c that re-enters the interpreter (janet_continue, janet_call, janet_pcall) runs between janet_gclock and janet_gcunlock")
    n = 0
    for fn in prog.all_funcs():
        if fn.tu.name not in ("compile.c", "specials.c"):
            continue
        calls = [c for c in fn.nodes if c.k == "call" and c.callee in ("janet_continue", "janet_call", "janet_pcall", "janet_continue_signal")]
        if not calls:
            continue
        chk.analysed(fn)

        def transfer(st, x):
            if x.k == "call" and x.callee == "janet_gclock":
                return frozenset(["locked"])
            if x.k == "call" and x.callee == "janet_gcunlock":
                return frozenset()
            return st
        IN, OUT = flow.forward(fn, frozenset(), transfer, lambda a, b: a & b)
        for x, st in flow.states_at(fn, IN, transfer):
            if x in calls:
                n += 1
                chk.instance(rule)
                if "locked" in st:
                    chk.ok(rule, "%s: %s runs with the collector locked" % (fn.name, x.callee))
                else:
                    chk.violation(rule, fn.tu.name, fn.name, x.callee, x.loc,
                                  "%s calls %s, which runs Janet code, without holding the collector lock: a collection there frees the "
                                  "compiler's scratch vectors and the inner function definitions only its scopes point to" % (fn.name, x.callee))
    chk.floor(rule, 2, n)


def _segmentmark_rule(chk, prog):
    """A ring that has wrapped is marked in two passes - head .. capacity and 0 .. tail.  Both passes walk the same
    kind of element, so they have to mark the same members of it; a member left out of the second pass is marked only
    while the ring happens not to be wrapped."""
    rule = "C01-SEGMENTMARK"
    chk.rule(rule, "the two passes over a wrapped ring in janet_ev_mark mark the same members of each element")
    fn = prog.need_func("janet_ev_mark", "ev.c")
    chk.analysed(fn)
    n = 0
    for x in fn.nodes:
        if x.k != "if" or len(x.kids) < 3 or x.kids[2] is None:
            continue
        loops = [y for y in x.kids[2].walk() if y.k == "for"]
        if len(loops) != 2:
            continue

        def members(lp):
            return set(z.field for c in lp.walk() if c.k == "call" and (c.callee or "").startswith("janet_mark") for z in c.walk() if z.k == "mem" and z.rec not in ("JanetVM", "JanetQueue"))
        a, b = members(loops[0]), members(loops[1])
        if not a and not b:
            continue
        n += 1
        chk.instance(rule)
        if a == b:
            chk.ok(rule, "both passes mark {%s}" % ",".join(sorted(a)))
        else:
            chk.violation(rule, "ev.c", "janet_ev_mark", "members:" + ",".join(sorted(a ^ b)), loops[1].loc,
                          "the two passes over the wrapped ring mark different members (%s against %s): `%s` of an element in the other segment "
                          "is not kept alive - a value handed to a parked taker lives only in its run-queue task and is freed by a collection "
                          "that finds the ring wrapped" % (sorted(a), sorted(b), ", ".join(sorted(a ^ b))))
    chk.floor(rule, 1, n)
