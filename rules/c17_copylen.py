"""C17-COPYLEN: a byte/element count handed to memcpy / memmove / memset that is computed by SUBTRACTION is never
negative on any path.

The library functions compute copy lengths as differences of user-controlled positions (end - start, count - at - n,
textlen - result - patlen).  size_t turns a negative difference into a copy of almost the whole address space, so
"raise an error - never corrupt memory - for out-of-range arguments" needs every such difference to be >= 0 where
it is used.  The rule collects, per path, linear facts `e >= 0` from branch conditions, from assignments (v = e gives
v - e == 0) and from the contracts of the range decoders (janet_gethalfrange: 0 <= r <= length; janet_getslice:
0 <= start <= end; kmp_next: r >= 0 implies r + patlen <= textlen), and accepts a length L if L is a sum of at most
three such facts plus a non-negative rest.  This is local linear reasoning over the CFG; nothing is executed.
"""
import itertools

from jv import flow
from jv.facts import AnalysisBroken
from jv.linear import linear, inequality
from jv.util import is_ref, strip_casts

RULE = "C17-COPYLEN"
SINKS = {"memcpy": 2, "memmove": 2, "memset": 2, "safe_memcpy": 2}
UNITS = ("string.c", "buffer.c", "array.c", "tuple.c", "capi.c", "pp.c", "corelib.c")
NONNEG_FIELDS = ("len", "count", "length", "capacity", "textlen", "patlen")

# contracts of the decoders, each re-checked structurally by _check_contracts()
HALFRANGE = ("janet_gethalfrange",)


def _norm(coefs, const):
    return (tuple(sorted((k, v) for k, v in coefs.items() if v != 0)), const)


def _sub(a, b):
    """a - b for (coefs, const)"""
    out = dict(a[0])
    for k, v in b[0].items():
        out[k] = out.get(k, 0) - v
    return ({k: v for k, v in out.items() if v != 0}, a[1] - b[1])


def _atom_nonneg(name):
    base = name.split("->")[-1].split(".")[-1]
    return base in NONNEG_FIELDS or name == "argc"


def _strip_scale(e):
    """(size_t)(X) * sizeof(T), sizeof(T) * X, X -> X"""
    e = strip_casts(e)
    while e.k == "bin" and e.op == "*":
        a, b = strip_casts(e.kids[0]), strip_casts(e.kids[1])
        if a.k == "sizeof" or (a.v is not None and a.v > 0):
            e = b
        elif b.k == "sizeof" or (b.v is not None and b.v > 0):
            e = a
        else:
            break
    return e


def _has_minus(e):
    return any(x.k == "bin" and x.op == "-" for x in e.walk()) or any(x.k == "un" and x.op == "-" for x in e.walk())


class Analysis(object):
    def __init__(self, prog, fn):
        self.prog = prog
        self.fn = fn
        self.locals_with_minus = set()
        # locals whose some definition involves a subtraction
        for x in fn.nodes:
            tgt = rhs = None
            if x.k == "vardecl" and x.kids:
                tgt, rhs = x.name, x.kids[0]
            elif x.k == "asg" and is_ref(x.kids[0]):
                tgt, rhs = x.kids[0].name, x.kids[1]
                if x.op in ("-=",):
                    self.locals_with_minus.add(tgt)
            if tgt and rhs is not None and _has_minus(rhs) and strip_casts(rhs).v is None:
                self.locals_with_minus.add(tgt)

    def key(self, n):
        n = strip_casts(n)
        return n.text() if n.k in ("ref", "mem") else None

    def transfer(self, st, x):
        if x.k == "call" and x.callee in ("janet_arity", "janet_fixarity") and len(x.args) >= 2 and x.args[1].v is not None \
                and is_ref(strip_casts(x.args[0])):
            return st | {("ge",) + _norm({strip_casts(x.args[0]).name: 1}, -x.args[1].v)}
        tgt = rhs = None
        op = "="
        if x.k == "vardecl":
            tgt, rhs = x.name, (x.kids[0] if x.kids else None)
        elif x.k == "asg" and self.key(x.kids[0]):
            tgt, rhs, op = self.key(x.kids[0]), x.kids[1], x.op
        elif x.k == "un" and x.op in ("pre++", "post++", "pre--", "post--") and self.key(x.kids[0]):
            tgt, rhs, op = self.key(x.kids[0]), None, "++"
        if tgt is None:
            return st
        def mentions(f):
            if f[0] in ("pend", "sgn") and f[1] == tgt:
                return True
            coefs = f[1] if f[0] == "ge" else f[2]
            return any(k == tgt or k.startswith(tgt + ".") or k.startswith(tgt + "->") for k, _ in coefs)
        st = frozenset(f for f in st if not mentions(f))
        if rhs is None or op != "=":
            return st
        r = strip_casts(rhs)
        add = set()
        if r.k == "call" and r.callee in HALFRANGE and len(r.args) >= 3:
            ln = linear(r.args[2])
            if ln is not None:
                add.add(("ge",) + _norm({tgt: 1}, 0))
                add.add(("ge",) + _norm(*_sub(ln, ({tgt: 1}, 0))))
        elif r.k == "call" and r.callee == "janet_getslice":
            add.add(("ge",) + _norm({tgt + ".start": 1}, 0))
            add.add(("ge",) + _norm({tgt + ".end": 1, tgt + ".start": -1}, 0))
        elif r.k == "call" and r.callee == "kmp_next" and r.args:
            a = strip_casts(r.args[0])
            if a.k == "un" and a.op == "&":
                base = strip_casts(a.kids[0]).text()
                add.add(("pend", tgt) + _norm({base + ".textlen": 1, tgt: -1, base + ".patlen": -1}, 0))
        elif r.k == "cond":
            pass
        elif _strip_scale(r) is not r and linear(_strip_scale(r)) is not None:
            # v = k * E with k > 0: v has the sign of E
            add.add(("sgn", tgt) + _norm(*linear(_strip_scale(r))))
        else:
            ln = linear(r)
            if ln is not None and tgt not in ln[0]:
                d = _sub(({tgt: 1}, 0), ln)
                add.add(("ge",) + _norm(*d))
                add.add(("ge",) + _norm({k: -v for k, v in d[0].items()}, -d[1]))
        return st | frozenset(add)

    def side_safe(self, side, st):
        """can this side of a comparison be read as a mathematical (non-wrapping) value?  32-bit sums of two variable
        terms of the same sign may wrap; so may v + c without an upper bound on v and v - c without a lower bound"""
        sc = strip_casts(side)
        ln = linear(side)
        if ln is None or sc.k != "bin" or (sc.t or "") not in ("int", "int32_t", "unsigned int", "uint32_t"):
            return True
        pos = [k for k, v in ln[0].items() if v > 0]
        neg = [k for k, v in ln[0].items() if v < 0]
        if len(pos) >= 2 or len(neg) >= 2:
            return False
        if len(ln[0]) == 1 and ln[1] != 0:
            (v, cf), = ln[0].items()
            facts = [(dict(f[1]), f[2]) for f in st if f[0] == "ge"]
            if (cf > 0) == (ln[1] > 0):
                # v + c: needs an upper bound  K - v >= 0
                return any(set(f[0]) == {v} and f[0][v] < 0 for f in facts) or _atom_nonneg(v) and False
            # v - c: needs a lower bound  v + K >= 0
            return any(set(f[0]) == {v} and f[0][v] > 0 for f in facts)
        return True

    def edge(self, st, blk, succ, cond, truth):
        c = flow.compare_of(cond, truth)
        if c is None:
            return st
        l, op, r = c
        if r is None:
            return st
        # a comparison evaluated in 32-bit arithmetic says nothing about the mathematical values if a side can wrap:
        # two variable terms of the same sign added in an int/int32_t expression (at + n > count with n unbounded)
        for side in (l, r):
            if not self.side_safe(side, st):
                return st
        add = []
        if op == "==":
            for o in ("<=", ">="):
                q = inequality(l, o, r)
                if q:
                    add.append(q)
        elif op in ("<", "<=", ">", ">="):
            q = inequality(l, op, r)
            if q:
                add.append(q)
        out = set(st)
        for (coefs, const, strict) in add:
            # coefs.x + const < 0 (strict) or <= 0  ==>  -(coefs.x) - const - (1 if strict) >= 0   (integers)
            neg = {k: -v for k, v in coefs.items()}
            out.add(("ge",) + _norm(neg, -const - (1 if strict else 0)))
        # kmp_next contract materialises where the result is known non-negative
        for f in list(out):
            if f[0] == "pend":
                v = f[1]
                if any(g[0] == "ge" and g[1] == ((v, 1),) and g[2] >= 0 for g in out):
                    out.add(("ge", f[2], f[3]))
        return frozenset(out)

    def proves(self, ps, L):
        """is linear form L (coefs, const) >= 0 under the facts of one path?"""
        facts = [(dict(f[1]), f[2]) for f in ps if f[0] == "ge"]
        # a scaled local (v = k * E, k > 0) is non-negative iff E is
        if len(L[0]) == 1 and L[1] == 0:
            (v, cf), = L[0].items()
            if cf > 0:
                for f in ps:
                    if f[0] == "sgn" and f[1] == v:
                        return self.proves(ps, (dict(f[2]), f[3]))

        def rest_ok(r):
            return r[1] >= 0 and all(v >= 0 and _atom_nonneg(k) for k, v in r[0].items())
        if rest_ok(L):
            return True
        rel = set(L[0])
        cands = [f for f in facts if set(f[0]) & rel]
        # one more hop: facts that mention variables of the first-hop facts
        rel2 = set(rel)
        for f in cands:
            rel2 |= set(f[0])
        cands = [f for f in facts if set(f[0]) & rel2][:24]
        for k in (1, 2, 3):
            for combo in itertools.combinations(cands, k):
                r = L
                for f in combo:
                    r = _sub(r, f)
                if rest_ok(r):
                    return True
        return False


def _check_contracts(chk, prog):
    """the contracts used above must be visible in the decoders' own code"""
    capi = prog.tus["capi.c"]
    fn = capi.funcs.get("janet_gethalfrange")
    chk.instance(RULE)
    if fn is None:
        raise AnalysisBroken("janet_gethalfrange not found")
    lenp = fn.params[2]["n"]
    rej = [x for x in fn.nodes if x.k == "bin" and x.op == "||"
           and any(y.k == "bin" and y.op == "<" and strip_casts(y.kids[1]).v == 0 for y in x.walk())
           and any(y.k == "bin" and y.op == ">" and is_ref(strip_casts(y.kids[1]), lenp) for y in x.walk())]
    if rej:
        chk.ok(RULE, "contract janet_gethalfrange: rejects r < 0 || r > %s" % lenp)
    else:
        chk.violation(RULE, "capi.c", "janet_gethalfrange", "contract", fn.loc,
                      "janet_gethalfrange no longer rejects `r < 0 || r > %s`; the copy-length proofs rely on 0 <= r <= %s" % (lenp, lenp))
    fn = capi.funcs.get("janet_getslice")
    chk.instance(RULE)
    if fn is None:
        raise AnalysisBroken("janet_getslice not found")
    clamp = [x for x in fn.nodes if x.k == "asg" and x.op == "=" and x.kids[0].k == "mem" and x.kids[0].field == "end"
             and strip_casts(x.kids[1]).k == "mem" and strip_casts(x.kids[1]).field == "start"]
    if clamp:
        chk.ok(RULE, "contract janet_getslice: end is clamped up to start")
    else:
        chk.violation(RULE, "capi.c", "janet_getslice", "contract", fn.loc,
                      "janet_getslice no longer clamps range.end to range.start; the copy-length proofs rely on start <= end")


def run(chk, prog):
    chk.rule(RULE, "a copy length computed by subtraction is proved non-negative on every path that reaches memcpy/memmove/memset")
    _check_contracts(chk, prog)
    chk.assumptions.append("C17-COPYLEN: kmp_next(&k) returns -1 or a match position r with r + k.patlen <= k.textlen (the search loop's "
                           "bound; taken as a contract, not re-derived)")
    n = 0
    for tu_name in UNITS:
        tu = prog.tus.get(tu_name)
        if tu is None:
            continue
        for fn in tu.funcs.values():
            sites = [c for c in fn.nodes if c.k == "call" and c.callee in SINKS and len(c.args) > SINKS[c.callee]]
            if not sites:
                continue
            A = Analysis(prog, fn)
            todo = []
            for c in sites:
                L = _strip_scale(c.args[SINKS[c.callee]])
                involved = _has_minus(L) or any(is_ref(y) and y.name in A.locals_with_minus for y in L.walk())
                if involved and L.v is None:
                    todo.append((c, L))
            if not todo:
                continue
            chk.analysed(fn)
            IN, OUT, T = flow.forward_paths(fn, frozenset(), A.transfer, edge=A.edge, cap=256)
            for x, S in flow.states_at(fn, IN, T):
                for (c, L) in todo:
                    if x is not c:
                        continue
                    n += 1
                    chk.instance(RULE)
                    ln = linear(L)
                    if ln is None:
                        # a product of two variables (element size * count): sign follows from the factors, out of scope here
                        n -= 1
                        chk.rules[RULE]["instances"] -= 1
                        chk.note("C17-COPYLEN: %s: length `%s` is not linear, not analysed" % (fn.name, L.text()))
                        continue
                    bad = [ps for ps in S if not A.proves(ps, ln)]
                    if bad:
                        chk.violation(RULE, fn.tu.name, fn.name, "%s:%s" % (c.callee, L.text().replace(" ", "")[:40]), c.loc,
                                      "the length `%s` of this %s is a difference that is not shown to be >= 0 on every path: converted "
                                      "to size_t a negative value copies (nearly) the whole address space" % (L.text(), c.callee))
                    else:
                        chk.ok(RULE, "%s: %s(..., %s) >= 0 on every path" % (fn.name, c.callee, L.text()))
    chk.floor(RULE, 6, n)


ADDRULE = "C17-ADDWRAP"
USER_GETTERS = ("janet_getinteger", "janet_getnat", "janet_optinteger", "janet_optnat", "janet_gethalfrange", "janet_getargindex")


def run_addwrap(chk, prog):
    """Bounds tests of the form `offset + len > size` are only as good as the addition: both operands come straight from
    the caller (any int32), the sum is computed in 32 bits, wraps negative and the test passes.  Every int32 sum of two
    non-constant values of which one is caller-supplied must be unable to wrap: one operand known negative on that
    path (count + at under at < 0), or the sum computed in a wider type."""
    chk.rule(ADDRULE, "no 32-bit sum of a caller-supplied integer and another variable unless one operand is known negative or an explicit INT32_MAX guard dominates it")
    n = 0
    for tu in prog.tus.values():
        for fn in tu.funcs.values():
            uv = set()
            for x in fn.nodes:
                tgt = rhs = None
                if x.k == "vardecl" and x.kids:
                    tgt, rhs = x.name, strip_casts(x.kids[0])
                elif x.k == "asg" and x.op == "=" and is_ref(x.kids[0]):
                    tgt, rhs = x.kids[0].name, strip_casts(x.kids[1])
                if tgt and rhs is not None and rhs.k == "call" and rhs.callee in USER_GETTERS:
                    uv.add(tgt)
            if not uv:
                continue
            sums = [x for x in fn.nodes if x.k == "bin" and x.op == "+" and (x.t or "") in ("int", "int32_t")
                    and strip_casts(x.kids[0]).v is None and strip_casts(x.kids[1]).v is None
                    and set(y.name for y in x.walk() if y.k == "ref") & uv
                    and not (x.parent is not None and x.parent.k == "sub")]
            if not sums:
                continue
            chk.analysed(fn)
            IN, T = flow.condition_facts(fn)
            done = set()
            for x, S in flow.states_at(fn, IN, T):
                for sm in sums:
                    if sm.id in done or not any(y is sm for y in x.walk()):
                        continue
                    done.add(sm.id)
                    n += 1
                    chk.instance(ADDRULE)
                    ops = [strip_casts(k).text() for k in sm.kids]
                    ok = bool(S)
                    for ps in S:
                        neg = False
                        for (op, l, r, _, ln, rn) in ps:
                            if rn is None:
                                continue
                            if rn.v is not None and l in ops and ((op == "<" and rn.v <= 0) or (op == "<=" and rn.v < 0)):
                                neg = True
                            # an explicit no-overflow guard:  a <= INT32_MAX - b  (in any arrangement)
                            q = inequality(ln, op, rn)
                            if q is not None:
                                coefs, const, strict = q
                                if set(coefs) == set(ops) and all(coefs[o] == 1 for o in ops) and -const <= 2 ** 31 - 1 + (1 if strict else 0):
                                    neg = True
                        if not neg:
                            ok = False
                    if ok:
                        chk.ok(ADDRULE, "%s: %s with one operand negative on every path" % (fn.name, sm.text()))
                    else:
                        chk.violation(ADDRULE, fn.tu.name, fn.name, sm.text().replace(" ", ""), sm.loc,
                                      "`%s` adds a caller-supplied integer to another variable in 32-bit arithmetic with neither operand "
                                      "known negative: for large arguments the sum wraps and the bounds test it feeds passes" % sm.text())
    chk.floor(ADDRULE, 2, n)
