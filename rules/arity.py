"""R-ARITY: in every C function exposed to Janet code, argv[k] is read only where argc > k is established.

Used by C04 (containers) and C17 (strings/buffers/sequences); C01/C10 reuse the summaries."""
from jv import flow
from jv.util import is_ref, strip_casts

ESTABLISHERS = {"janet_fixarity": "fix", "janet_arity": "min"}


def _is_janetptr(t):
    t = (t or "").replace("const ", "").replace(" ", "")
    return t in ("Janet*",)


def _is_read(sub):
    """a subscript is a read unless it is assigned to or only has its address taken"""
    p = sub.parent
    if p is None:
        return True
    if p.k == "asg" and p.op == "=" and p.kids[0] is sub:
        return False
    if p.k == "un" and p.op == "&":
        return False
    return True


class Arity(object):
    def __init__(self, prog, cg):
        self.prog = prog
        self.cg = cg
        # helper summaries
        self.reader = {}      # fid -> (argv_pos, n_pos): reads argv[n] unconditionally (caller must guarantee n < argc)
        self.establish = {}   # fid -> (argc_pos, lower bound established at every return)
        self._summarise()

    # ---- helpers -----------------------------------------------------------------------
    def _params(self, fn):
        argv = [i for i, p in enumerate(fn.params) if _is_janetptr(p["t"])]
        ints = {p["n"]: i for i, p in enumerate(fn.params) if p["t"] in ("int32_t", "int")}
        return argv, ints

    def _summarise(self):
        cg = self.cg
        cands = []
        for fid, fn in cg.funcs.items():
            argvp, ints = self._params(fn)
            if argvp and ints:
                cands.append((fid, fn, argvp, ints))
        for _ in range(4):
            changed = False
            for fid, fn, argvp, ints in cands:
                if fn.is_cfun_sig():
                    continue
                argvname = fn.params[argvp[0]]["n"]
                # (1) reader summary: an index parameter n used as argv[n] (directly or via a reader helper)
                for nname, npos in ints.items():
                    if nname == "argc":
                        continue
                    res = self.analyse(fn, argvname, argc_name="argc" if "argc" in ints else None, sym_index=nname)
                    unguarded = [r for r in res["reads"] if r[1] == ("sym", nname) and not r[2]]
                    if unguarded:
                        if self.reader.get(fid) != (argvp[0], npos):
                            self.reader[fid] = (argvp[0], npos)
                            changed = True
                # (2) establisher summary
                if "argc" in ints:
                    res = self.analyse(fn, argvname, argc_name="argc", sym_index=None)
                    lb = res["ret_lower"]
                    if lb is not None and lb > 0:
                        if self.establish.get(fid) != (ints["argc"], lb):
                            self.establish[fid] = (ints["argc"], lb)
                            changed = True
            if not changed:
                break

    # ---- the per-function analysis -----------------------------------------------------------
    def analyse(self, fn, argv, argc_name="argc", sym_index=None):
        """State: frozenset of facts ("L", k) lower bound of argc; ("lt", var) var < argc.
        Path-sensitive (alternatives).  Returns reads: list of (node, index, ok, need)."""
        cg = self.cg

        def lower(facts):
            m = 0
            for f in facts:
                if f[0] == "L" and f[1] > m:
                    m = f[1]
            return m

        def setlower(facts, k):
            if k <= lower(facts):
                return facts
            return frozenset(f for f in facts if f[0] != "L") | frozenset([("L", k)])

        def transfer(facts, n):
            facts = transfer1(facts, n)
            return transfer2(facts, n)

        def transfer1(facts, n):
            if n.k == "call" and n.callee:
                if n.callee in ESTABLISHERS and n.args and is_ref(strip_casts(n.args[0]), argc_name) and n.args[1].v is not None:
                    return setlower(facts, n.args[1].v)
                tgt = cg.resolve_name(n.callee, fn.tu)
                if tgt in self.establish:
                    pos, lb = self.establish[tgt]
                    if pos < len(n.args) and is_ref(strip_casts(n.args[pos]), argc_name):
                        return setlower(facts, lb)
                return facts
            return facts

        def transfer2(facts, n):
            tgtvar = None
            if n.k == "asg" and is_ref(n.kids[0]):
                tgtvar = n.kids[0].name
            elif n.k == "un" and n.op in ("pre++", "post++", "pre--", "post--") and is_ref(n.kids[0]):
                tgtvar = n.kids[0].name
            elif n.k == "vardecl":
                tgtvar = n.name
            if tgtvar is not None:
                oldpar = [f[2] for f in facts if f[0] == "ipar" and f[1] == tgtvar]
                facts = frozenset(f for f in facts if not (f[0] in ("lt", "eqc", "optnn", "off", "ipar", "ltoff") and f[1] == tgtvar))
                if tgtvar == argc_name:
                    facts = frozenset(f for f in facts if f[0] not in ("L", "lt", "par", "off", "ltoff"))
                # constant copy: i = 3
                src = n.kids[0] if n.k == "vardecl" and n.kids else (n.kids[1] if n.k == "asg" and n.op == "=" else None)
                if src is not None:
                    s2 = strip_casts(src)
                    if s2.v is not None:
                        facts = facts | frozenset([("eqc", tgtvar, s2.v), ("ipar", tgtvar, s2.v & 1)])
                    elif s2.k == "call" and (s2.callee or "").startswith("janet_opt") and len(s2.args) >= 4 \
                            and is_ref(strip_casts(s2.args[0]), argv) and is_ref(strip_casts(s2.args[1]), argc_name) \
                            and strip_casts(s2.args[3]).v == 0:
                        ix = strip_casts(s2.args[2])
                        if ix.v is not None:
                            facts = facts | frozenset([("optnn", tgtvar, "c", ix.v)])
                        elif ix.k == "ref":
                            facts = facts | frozenset([("optnn", tgtvar, "sym", ix.name)])
                    elif s2.k == "bin" and s2.op == "-" and is_ref(strip_casts(s2.kids[0]), argc_name) and s2.kids[1].v is not None:
                        facts = facts | frozenset([("off", tgtvar, s2.kids[1].v)])
                elif n.k == "asg" and n.op in ("+=", "-=") and n.kids[1].v is not None and n.kids[1].v % 2 == 0 and oldpar:
                    facts = facts | frozenset([("ipar", tgtvar, oldpar[0])])
            return facts

        def edge(facts, blk, succ, cond, truth):
            if cond is None or argc_name is None:
                return facts
            c = flow.compare_of(cond, truth)
            if c is None:
                return facts
            lhs, op, rhs = c
            l = strip_casts(lhs)
            r = strip_casts(rhs) if rhs is not None else None
            if r is None or r.v == 0:
                # non-NULL result of janet_opt*(argv, argc, k, NULL) means the argument exists
                if l.k == "ref" and op == "!=":
                    for f in facts:
                        if f[0] == "optnn" and f[1] == l.name:
                            if f[2] == "c":
                                return setlower(facts, f[3] + 1)
                            return facts | frozenset([("lt", f[3])])
                # parity test: argc & 1
                if l.k == "bin" and l.op == "&" and is_ref(strip_casts(l.kids[0]), argc_name) and l.kids[1].v == 1:
                    return facts | frozenset([("par", "argc", 1 if op == "!=" else 0)])
            if r is None:
                if is_ref(l, argc_name) and op == "!=":
                    return setlower(facts, 1)
                return facts
            # NULL == x form
            if l.v == 0 and r.k == "ref" and op == "!=":
                for f in facts:
                    if f[0] == "optnn" and f[1] == r.name:
                        if f[2] == "c":
                            return setlower(facts, f[3] + 1)
                        return facts | frozenset([("lt", f[3])])
            # i < arg_count where arg_count == argc - k
            if op == "<" and l.k == "ref" and r.k == "ref":
                for f in facts:
                    if f[0] == "off" and f[1] == r.name:
                        return facts | frozenset([("ltoff", l.name, f[2])])
            if op == ">" and l.k == "ref" and r.k == "ref":
                for f in facts:
                    if f[0] == "off" and f[1] == l.name:
                        return facts | frozenset([("ltoff", r.name, f[2])])
            # normalise so that argc is on the left
            if is_ref(r, argc_name) and not is_ref(l, argc_name):
                l, r = r, l
                op = {"<": ">", ">": "<", "<=": ">=", ">=": "<=", "==": "==", "!=": "!="}[op]
            if not is_ref(l, argc_name):
                return facts
            # argc op r
            if r.v is not None:
                k = r.v
                if op == ">":
                    return setlower(facts, k + 1)
                if op in (">=", "=="):
                    return setlower(facts, k)
                if op == "!=" and lower(facts) == k:
                    return setlower(facts, k + 1)
                return facts
            # symbolic: argc > var  /  argc >= var + 1
            if r.k == "ref":
                if op == ">":
                    return facts | frozenset([("lt", r.name)])
                return facts
            if r.k == "bin" and r.op == "+" and is_ref(strip_casts(r.kids[0])) and r.kids[1].v is not None:
                v, k = strip_casts(r.kids[0]).name, r.kids[1].v
                if (op == ">" and k >= 0) or (op == ">=" and k >= 1):
                    return facts | frozenset([("lt", v)])
            return facts

        IN, OUT, T = flow.forward_paths(fn, frozenset(), transfer, edge if argc_name else None)
        reads = []

        def check(S, idx):
            """idx: ('c', k) | ('sym', name) | ('expr', text)"""
            if idx[0] == "c":
                return all(lower(f) > idx[1] for f in S)
            if idx[0] == "sym":
                def okf(f):
                    if ("lt", idx[1]) in f:
                        return True
                    for x in f:
                        if x[0] == "eqc" and x[1] == idx[1] and lower(f) > x[2]:
                            return True
                    return False
                return all(okf(f) for f in S)
            if idx[0] == "plus":
                v, k = idx[1], idx[2]

                def okp(f):
                    # pairwise loop: v < argc, v and argc have the same parity, k == 1
                    if k == 1 and ("lt", v) in f:
                        ip = [x[2] for x in f if x[0] == "ipar" and x[1] == v]
                        ap = [x[2] for x in f if x[0] == "par"]
                        if ip and ap and ip[0] == ap[0]:
                            return True
                    # v < argc - off  and k <= off
                    for x in f:
                        if x[0] == "ltoff" and x[1] == v and k <= x[2]:
                            return True
                    return False
                return all(okp(f) for f in S)
            return False

        def index_of(e):
            e = strip_casts(e)
            if e.v is not None:
                return ("c", e.v)
            if e.k == "ref":
                return ("sym", e.name)
            if e.k == "bin" and e.op == "+" and is_ref(strip_casts(e.kids[0])) and e.kids[1].v is not None and e.kids[1].v >= 0:
                return ("plus", strip_casts(e.kids[0]).name, e.kids[1].v)
            return ("expr", e.text())

        ret_lower = None
        for b, S in IN.items():
            blk = fn.blocks[b]
            for n in blk.elems:
                if n.k == "sub" and is_ref(strip_casts(n.kids[0]), argv) and _is_read(n):
                    idx = index_of(n.kids[1])
                    reads.append((n, idx, check(S, idx), "argv[%s]" % n.kids[1].text()))
                elif n.k == "un" and n.op == "*" and is_ref(strip_casts(n.kids[0]), argv) and n.d.get("rv"):
                    reads.append((n, ("c", 0), check(S, ("c", 0)), "*argv"))
                elif n.k == "call" and n.callee:
                    tgt = cg.resolve_name(n.callee, fn.tu)
                    if tgt in self.reader:
                        apos, npos = self.reader[tgt]
                        if apos < len(n.args) and npos < len(n.args) and is_ref(strip_casts(n.args[apos]), argv):
                            idx = index_of(n.args[npos])
                            reads.append((n, idx, check(S, idx), "%s(%s, %s)" % (n.callee, argv, n.args[npos].text())))
                S = T(S, n)
            if fn.exit in blk.succs and not blk.noreturn:
                lo = min(lower(f) for f in S) if S else 0
                ret_lower = lo if ret_lower is None else min(ret_lower, lo)
        return {"reads": reads, "ret_lower": ret_lower}


def run_arity(chk, rule, prog, cg, units, desc):
    chk.rule(rule, desc)
    A = Arity(prog, cg)
    chk.extra.setdefault("arity_helpers", {})["unconditional_readers"] = sorted(cg.funcs[f].name for f in A.reader)
    chk.extra["arity_helpers"]["establishers"] = {cg.funcs[f].name: v[1] for f, v in A.establish.items()}
    cfuns = [cg.funcs[f] for f in sorted(cg.cfun_targets, key=str) if f in cg.funcs]
    n = 0
    for fn in cfuns:
        if fn.tu.name not in units or not fn.is_cfun_sig():
            continue
        n += 1
        chk.analysed(fn)
        chk.instance(rule)
        res = A.analyse(fn, fn.params[1]["n"], argc_name=fn.params[0]["n"])
        bad = [r for r in res["reads"] if not r[2]]
        if not bad:
            chk.ok(rule, "%s: %d argument reads, each with argc established" % (fn.name, len(res["reads"])))
            continue
        seen = set()
        for (node, idx, ok, what) in bad:
            if what in seen:
                continue
            seen.add(what)
            chk.violation(rule, fn.tu.name, fn.name, what, node.loc,
                          "%s is read on a path where argc > %s has not been established (no janet_fixarity/janet_arity, "
                          "guarding comparison or loop bound before it): a short call reads a stale stack slot" % (
                              what, idx[1] if idx[0] != "plus" else "%s+%d" % (idx[1], idx[2])))
    return n
