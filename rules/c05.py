"""C05 - fibers follow the coroutine and signal protocol: structural clauses.

C05-ENTRY       run_vm / janet_continue_no_check are entered only after the eligibility test
C05-TERMINAL    the hand-written sets of 'finished' statuses agree in all five places
C05-MASK        a child's signal is propagated only through the mask test, and the other edge clears fiber->child
C05-LAYOUT      compile-time witnesses: mask bits, status==signal numbering, name table sizes
C05-STATUSWRITE the status bits are written only by the enumerated writers
"""
from jv import flow
from jv.facts import Program, AnalysisBroken
from jv.util import is_ref, is_mem, strip_casts
from jv.witness import run_witnesses

EXPLANATION = (
    "Static rules: who-may-call of run_vm and janet_continue_no_check with a must-dataflow that each call of the "
    "latter is dominated by janet_check_can_resume's OK edge; the five hand-written 'finished status' predicates are "
    "evaluated symbolically over the status/signal enumerators and compared as sets; the signal-mask test guards "
    "every propagation of a child's signal; constant-expression witnesses (_Static_assert over janet's headers) for "
    "mask = 1 << signal, status == signal numbering and name-table sizes; who-may-write of the status bits.  "
    "Decides these structural agreements; ordering of values and cleanup semantics are not decided.")
ASSUMPTIONS = ["default Linux configuration", "of boot.janet only the status tests of the fiber-wrapping macros are analysed (C05-CLEANUPMASK); generators and loop :generate are not"]


def eval_pred(e, var, val):
    """evaluate a boolean/arith expression node over variable `var` := val; returns int or None"""
    e = strip_casts(e)
    if e is None:
        return None
    if e.k == "ref" and e.name == var:
        return val
    if e.v is not None:
        return e.v
    if e.k == "bin":
        a = eval_pred(e.kids[0], var, val)
        if e.op == "||":
            if a:
                return 1
            b = eval_pred(e.kids[1], var, val)
            return None if (a is None or b is None) else int(bool(b))
        if e.op == "&&":
            if a == 0:
                return 0
            b = eval_pred(e.kids[1], var, val)
            return None if (a is None or b is None) else int(bool(b))
        b = eval_pred(e.kids[1], var, val)
        if a is None or b is None:
            return None
        ops = {"==": a == b, "!=": a != b, "<": a < b, "<=": a <= b, ">": a > b, ">=": a >= b,
               "+": a + b, "-": a - b, "&": a & b, "|": a | b, "<<": a << b if 0 <= b < 64 else 0, ">>": a >> b if 0 <= b < 64 else 0}
        if e.op in ops:
            r = ops[e.op]
            return int(r) if isinstance(r, bool) else r
        return None
    if e.k == "un" and e.op == "!":
        a = eval_pred(e.kids[0], var, val)
        return None if a is None else int(not a)
    return None


def enum_refs(e, prefix):
    return [x.name for x in e.walk() if x.k == "ref" and x.d.get("d") == "enum" and x.name.startswith(prefix)]


def status_predicates(fn, prefix):
    """maximal boolean expressions in fn that mention >= 3 enumerators with `prefix` and one variable"""
    out = []
    for n in fn.nodes:
        if n.k == "bin" and n.op in ("||", "&&") and (n.parent is None or not (n.parent.k == "bin" and n.parent.op in ("||", "&&"))):
            names = enum_refs(n, prefix)
            if len(set(names)) >= 2:
                vars_ = set(x.name for x in n.walk() if x.k == "ref" and x.d.get("d") in ("var", "parm"))
                if len(vars_) == 1:
                    out.append((n, list(vars_)[0]))
    return out


def _terminal_rule(chk, prog):
    rule = "C05-TERMINAL"
    chk.rule(rule, "the hand-written 'finished / cannot resume' status sets agree in all places")
    statuses = prog.enumtypes.get("JanetFiberStatus")
    signals = prog.enumtypes.get("JanetSignal")
    if not statuses or not signals:
        raise AnalysisBroken("status / signal enums not found")
    sval = {n: prog.enums[n] for n in statuses}
    alive = prog.enums["JANET_STATUS_ALIVE"]

    def setof(expr, var, domain):
        out = set()
        for v in domain:
            r = eval_pred(expr, var, v)
            if r is None:
                raise AnalysisBroken("cannot evaluate status predicate %s" % expr.text()[:60])
            if r:
                out.add(v)
        return out
    dom = sorted(set(sval.values()))
    sites = []
    for (unit, fname, prefix, role) in (
            ("fiber.c", "janet_fiber_can_resume", "JANET_STATUS_", "finished"),
            ("fiber.c", "janet_env_maybe_detach", "JANET_STATUS_", "finished"),
            ("vm.c", "janet_check_can_resume", "JANET_STATUS_", "unresumable"),
            ("value.c", "janet_next_impl", "JANET_STATUS_", "unresumable"),
            ("value.c", "janet_next_impl", "JANET_SIGNAL_", "finished"),
            ("vm.c", "janet_continue_no_check", "JANET_SIGNAL_", "finished"),
            ("marsh.c", "unmarshal_one_fiber", "JANET_STATUS_", "finished")):
        fn = prog.need_func(fname, unit)
        chk.analysed(fn)
        preds = status_predicates(fn, prefix)
        if not preds:
            # not written out here: the decision may be delegated to the reference predicate
            dele = [c for c in fn.calls("janet_fiber_can_resume")] if fname != "janet_fiber_can_resume" else []
            if not dele:
                raise AnalysisBroken("%s: no %s* predicate found" % (fname, prefix))
            for c in dele:
                sites.append((fname, prefix, role, None, c))
            continue
        for (e, var) in preds:
            sites.append((fname, prefix, role, setof(e, var, dom), e))
    ref = [s for s in sites if s[0] == "janet_fiber_can_resume"][0][3]
    # a site that asks janet_fiber_can_resume refuses exactly the finished set
    sites = [(a, b, c, (ref if d is None else d), e) for (a, b, c, d, e) in sites]
    names = {v: k for k, v in sval.items()}
    chk.extra["finished_statuses"] = sorted(names[v] for v in ref)
    for (fname, prefix, role, st, e) in sites:
        chk.instance(rule)
        want = ref if role == "finished" else ref | {alive}
        if st == want:
            chk.ok(rule, "%s (%s, %s): {%s}" % (fname, prefix.rstrip("_"), role, ",".join(sorted(names[v].replace("JANET_STATUS_", "") for v in st))))
        else:
            extra = sorted(names[v] for v in st - want)
            miss = sorted(names[v] for v in want - st)
            chk.violation(rule, e.fn.tu.name, fname, "%s:%s" % (prefix.rstrip("_"), role), e.loc,
                          "the %s set written out in %s differs from janet_fiber_can_resume's finished set: extra %s, missing %s "
                          "(numeric values; statuses and signals share one numbering)" % (role, fname, extra, miss))
    if len(sites) < 6:
        raise AnalysisBroken("only %d status predicates found" % len(sites))
    # `finished` is never a comparison with one status: a fiber that ended in an error or a user signal is finished too
    for tun in ("ev.c", "fiber.c", "vm.c"):
        tu = prog.tus.get(tun)
        if tu is None:
            continue
        for fn in tu.funcs.values():
            for x in fn.nodes:
                if x.k == "bin" and x.op in ("==", "!=") and any(is_ref(strip_casts(k), "JANET_STATUS_DEAD") for k in x.kids) and \
                        not (x.parent is not None and x.parent.k == "bin" and x.parent.op in ("||", "&&")):
                    chk.instance(rule)
                    chk.violation(rule, tun, fn.name, "dead-only", x.loc,
                                  "`%s` takes `dead` for `finished`: a fiber that ended with an error or with a user signal 0-4 is "
                                  "finished without being dead, so whatever this test guards (a deadline that should be dropped) "
                                  "stays in force for it" % x.text()[:60])


def _entry_rule(chk, prog):
    rule = "C05-ENTRY"
    chk.rule(rule, "run_vm is entered only via janet_call / janet_continue_no_check; the latter only after janet_check_can_resume returned OK")
    allowed_runvm = {"janet_call", "janet_continue_no_check"}
    ncalls = 0
    for fn in prog.all_funcs():
        for c in fn.calls("run_vm"):
            ncalls += 1
            chk.instance(rule)
            if fn.name in allowed_runvm:
                chk.ok(rule, "run_vm called from %s" % fn.name)
            else:
                chk.violation(rule, fn.tu.name, fn.name, "run_vm", c.loc, "run_vm entered from %s, bypassing the resume protocol" % fn.name)
        cs = fn.calls("janet_continue_no_check")
        if not cs:
            continue
        chk.analysed(fn)

        def transfer(st, n):
            if n.k == "call" and n.callee and prog.is_noreturn(n.callee):
                return None
            return st

        def edge(st, blk, succ, cond, truth):
            if cond is None:
                return st
            c = flow.compare_of(cond, truth)
            if c is None:
                return st
            l = strip_casts(c[0])
            ok_edge = c[1] == "==" and (c[2] is None or strip_casts(c[2]).v == 0)
            if ok_edge and l.k == "call" and l.callee == "janet_check_can_resume":
                return st | frozenset(["ok"])
            if ok_edge and l.k == "ref":
                # tmp = janet_check_can_resume(...); if (tmp) return tmp;
                for x in fn.nodes:
                    src = None
                    if x.k == "vardecl" and x.name == l.name and x.kids:
                        src = strip_casts(x.kids[0])
                    elif x.k == "asg" and x.op == "=" and is_ref(x.kids[0], l.name):
                        src = strip_casts(x.kids[1])
                    if src is not None and src.k == "call" and src.callee == "janet_check_can_resume":
                        return st | frozenset(["ok"])
            return st
        IN, OUT = flow.forward(fn, frozenset(), transfer, lambda a, b: a & b, edge=edge)
        for b, st in IN.items():
            for n in fn.blocks[b].elems:
                if n in cs:
                    ncalls += 1
                    chk.instance(rule)
                    if "ok" in st:
                        chk.ok(rule, "%s: janet_continue_no_check after janet_check_can_resume == OK" % fn.name)
                    else:
                        chk.violation(rule, fn.tu.name, fn.name, "janet_continue_no_check", n.loc,
                                      "a fiber is continued on a path where janet_check_can_resume was not called or its "
                                      "result not tested: a dead, erroring or running fiber could be resumed")
                r = transfer(st, n)
                if r is None:
                    break
                st = r
    if ncalls < 5:
        raise AnalysisBroken("only %d resume entry sites found" % ncalls)


def _mask_rule(chk, prog):
    rule = "C05-MASK"
    chk.rule(rule, "a child's signal is propagated only under `sig != OK && !(child->flags & (1 << sig))`")
    # propagation sinks inside the resume sites: janet_signalv / vm_return(sig) / return sig after resuming a child
    sites = 0
    for (unit, fname) in (("vm.c", "run_vm"), ("vm.c", "janet_continue_no_check"), ("value.c", "janet_next_impl")):
        fn = prog.need_func(fname, unit)
        chk.analysed(fn)
        for n in fn.nodes:
            # mask test: !(X->flags & (1 << sig))
            if n.k == "bin" and n.op == "&" and strip_casts(n.kids[0]).k == "mem" and strip_casts(n.kids[0]).field == "flags" \
                    and strip_casts(n.kids[1]).k == "bin" and strip_casts(n.kids[1]).op == "<<" and strip_casts(n.kids[1]).kids[0].v == 1:
                sigvar = strip_casts(strip_casts(n.kids[1]).kids[1])
                if sigvar.k != "ref":
                    continue
                sites += 1
                chk.instance(rule)
                # must be conjoined with sig != JANET_SIGNAL_OK
                top = n
                while top.parent is not None and top.parent.k in ("un", "bin") and (top.parent.k == "un" or top.parent.op in ("&&", "||")):
                    top = top.parent
                has_ok_test = any(x.k == "bin" and x.op in ("!=", "==") and is_ref(strip_casts(x.kids[0]), sigvar.name)
                                  and strip_casts(x.kids[1]).v == 0 for x in top.walk())
                if has_ok_test:
                    chk.ok(rule, "%s: mask test on %s combined with the OK test" % (fname, sigvar.name))
                else:
                    chk.violation(rule, unit, fname, "mask:%s" % sigvar.name, n.loc,
                                  "the signal-mask test is no longer combined with `%s != JANET_SIGNAL_OK`" % sigvar.name)
    if sites < 4:
        raise AnalysisBroken("only %d signal-mask tests found" % sites)


def _layout_rule(chk, prog):
    rule = "C05-LAYOUT"
    chk.rule(rule, "compile-time witnesses: mask bit = 1 << signal; status numbering == signal numbering; name tables sized to the enums")
    W = []
    for s in ("ERROR", "DEBUG", "YIELD"):
        W.append(("mask-%s" % s, "JANET_FIBER_MASK_%s == (1 << JANET_SIGNAL_%s)" % (s, s)))
    for i in range(10):
        W.append(("mask-USER%d" % i, "JANET_FIBER_MASK_USER%d == (1 << JANET_SIGNAL_USER%d)" % (i, i)))
        W.append(("status-USER%d" % i, "(int)JANET_STATUS_USER%d == (int)JANET_SIGNAL_USER%d" % (i, i)))
    W.append(("status-OK", "(int)JANET_STATUS_DEAD == (int)JANET_SIGNAL_OK"))
    W.append(("status-ERROR", "(int)JANET_STATUS_ERROR == (int)JANET_SIGNAL_ERROR"))
    W.append(("status-DEBUG", "(int)JANET_STATUS_DEBUG == (int)JANET_SIGNAL_DEBUG"))
    W.append(("status-YIELD", "(int)JANET_STATUS_PENDING == (int)JANET_SIGNAL_YIELD"))
    W.append(("status-mask-covers-alive", "(((unsigned)JANET_STATUS_ALIVE << JANET_FIBER_STATUS_OFFSET) & ~(unsigned)JANET_FIBER_STATUS_MASK) == 0"))
    W.append(("status-mask-disjoint-sigmask", "(JANET_FIBER_STATUS_MASK & JANET_FIBER_MASK_USER) == 0"))
    W.append(("signal-names", "sizeof(janet_signal_names) / sizeof(janet_signal_names[0]) == JANET_SIGNAL_USER9 + 1"))
    W.append(("status-names", "sizeof(janet_status_names) / sizeof(janet_status_names[0]) == JANET_STATUS_ALIVE + 1"))
    res = run_witnesses(W, includes=("janet.h", "fiber.h", "util.h"))
    for name, ok in res.items():
        chk.instance(rule)
        if ok:
            chk.ok(rule, "witness %s" % name)
        else:
            expr = dict(W)[name]
            chk.violation(rule, "fiber.h", "witness", name, "src/core/fiber.h:0", "constant-expression witness fails: %s" % expr)


def _statuswrite_rule(chk, prog):
    rule = "C05-STATUSWRITE"
    chk.rule(rule, "fiber status bits are written only through janet_fiber_set_status and the two explicit mask writes")
    allowed_explicit = {"run_vm", "janet_continue_signal"}
    n = 0
    for fn in prog.all_funcs():
        for x in fn.nodes:
            if x.k == "asg" and x.op in ("&=", "|=", "=") and x.kids[0].k == "mem" and x.kids[0].field == "flags" and \
                    any("JANET_FIBER_STATUS_MASK" in y.macro_names() or "JANET_FIBER_STATUS_OFFSET" in y.macro_names() for y in x.kids[1].walk()):
                n += 1
                chk.instance(rule)
                via_macro = x.in_macro("janet_fiber_set_status")
                if via_macro or fn.name in allowed_explicit:
                    chk.ok(rule, "%s: %s" % (fn.name, "janet_fiber_set_status" if via_macro else "explicit signal hand-over"))
                else:
                    chk.violation(rule, fn.tu.name, fn.name, "status-bits", x.loc,
                                  "fiber status bits written directly in %s: %s" % (fn.name, x.text()[:60]))
    if n < 10:
        raise AnalysisBroken("only %d status writes found" % n)


# VM fields that janet_try_init saves only so that janet_restore can put them back: the nested context starts from the
# value they have (reason per field).  Every other saved field describes the boundary itself and gets a new value.
TRY_SAVE_ONLY = {
    "gc_suspend": "nested code inherits the collector lock depth; restore undoes what an aborted callee left behind",
    "fiber": "janet_continue_no_check sets the running fiber itself after the boundary is up",
}


def _boundary_rule(chk, prog):
    """janet_try_init opens a new signal boundary.  Where signals land (return_reg, signal_buf) and whether non-error
    signals are turned into errors because a C frame is in the way (coerce_error, set by janet_call) belong to the
    boundary: a fiber resumed inside a C callback catches its child's signals itself, so it must not inherit the
    caller's `coerce everything` - otherwise (signal 0 x), yield, or return in a nested fiber become errors."""
    rule = "C05-BOUNDARY"
    chk.rule(rule, "janet_try_init gives every boundary field it saves a fresh value (re-pointed at the new state, or reset)")
    ti = prog.need_func("janet_try_init", "vm.c")
    chk.analysed(ti)
    saved, fresh = {}, {}
    for n in ti.nodes:
        if n.k == "asg" and n.op == "=" and n.kids[0].k == "mem" and n.kids[0].rec == "JanetTryState":
            for x in n.kids[1].walk():
                if x.k == "mem" and x.rec == "JanetVM":
                    saved[x.field] = n
        for x in ([n] if n.k in ("asg", "un") else []):
            t = x.kids[0]
            if t.k == "mem" and t.rec == "JanetVM":
                fresh[t.field] = x
    if "coerce_error" not in saved or "signal_buf" not in saved:
        raise AnalysisBroken("janet_try_init no longer saves coerce_error / signal_buf: re-derive the boundary fields")
    order = {id(x): i for i, x in enumerate(ti.nodes)}
    for f in sorted(saved):
        chk.instance(rule)
        if f in TRY_SAVE_ONLY:
            chk.exception(rule, "janet_vm." + f, TRY_SAVE_ONLY[f])
        elif f in fresh and (order[id(fresh[f])] > order[id(saved[f])] or fresh[f].k == "un" or any(fresh[f] is y for y in saved[f].walk())):
            chk.ok(rule, "janet_vm.%s: `%s`" % (f, fresh[f].text()[:50]))
        else:
            chk.violation(rule, "vm.c", "janet_try_init", "inherited:" + f, saved[f].loc,
                          "janet_vm.%s is saved for the enclosing context but the new boundary keeps the caller's value: a fiber resumed "
                          "inside a C callback (string/replace with a function, PEG cmt, sort comparators ...) inherits janet_call's "
                          "`coerce every signal to an error`, so its children's yields and user signals arrive as errors" % f)
    chk.floor(rule, 5, len(saved))


def _saverestore_rule(chk, prog):
    rule = "C05-SAVERESTORE"
    chk.rule(rule, "every VM field janet_try_init saves into the JanetTryState is restored from it by janet_restore")
    ti = prog.need_func("janet_try_init", "vm.c")
    rs = prog.need_func("janet_restore", "vm.c")
    chk.analysed(ti)
    chk.analysed(rs)
    saved = {}
    for n in ti.nodes:
        if n.k == "asg" and n.op == "=" and n.kids[0].k == "mem" and n.kids[0].rec == "JanetTryState":
            for x in n.kids[1].walk():
                if x.k == "mem" and x.rec == "JanetVM":
                    saved[n.kids[0].field] = x.field
    restored = {}
    for n in rs.nodes:
        if n.k == "asg" and n.op == "=" and n.kids[0].k == "mem" and n.kids[0].rec == "JanetVM":
            r = strip_casts(n.kids[1])
            if r.k == "mem" and r.rec == "JanetTryState":
                restored[r.field] = n.kids[0].field
    if len(saved) < 5:
        raise AnalysisBroken("janet_try_init: only %d saved fields found" % len(saved))
    for f, g in sorted(saved.items()):
        chk.instance(rule)
        if restored.get(f) == g:
            chk.ok(rule, "janet_vm.%s saved in state->%s and restored" % (g, f))
        else:
            chk.violation(rule, "vm.c", "janet_restore", g, rs.loc,
                          "janet_try_init saves janet_vm.%s in state->%s but janet_restore does not put it back: after a nested "
                          "resume returns, the outer context runs with the inner value" % (g, f))


def _envshare_rule(chk, prog):
    """A fiber's environment table is created lazily (env == NULL until the first setdyn).  Code that makes a
    child inherit the creator's environment - by sharing the table (:i) or by using it as prototype (:p, ev/go
    and friends) - therefore has to create the creator's table first: handing on a NULL shares nothing, and
    bindings the creator makes afterwards are invisible to the child."""
    rule = "C05-ENVSHARE"
    chk.rule(rule, "the creator's env handed to a child (fiber->env / env->proto = janet_vm.fiber->env) is non-NULL on every path")
    SRC = "janet_vm.fiber->env"
    n = 0

    def is_src(x):
        x = strip_casts(x)
        return x is not None and x.k == "mem" and x.field == "env" and x.rec == "JanetFiber" and x.text().replace(" ", "") == SRC

    for fn in prog.all_funcs():
        sites = [x for x in fn.nodes if x.k == "asg" and x.op == "=" and is_src(x.kids[1]) and not is_src(x.kids[0])
                 and x.kids[0].k == "mem" and x.kids[0].field in ("env", "proto")]
        if not sites:
            continue
        chk.analysed(fn)

        def transfer(st, x):
            if x.k == "asg" and x.op == "=" and is_src(x.kids[0]):
                r = strip_casts(x.kids[1])
                if r.k == "call" and r.callee in ("janet_table", "janet_table_init", "janet_gettable", "janet_table_clone"):
                    return st | {"nn"}
                return st - {"nn"}
            return st

        def edge(st, blk, succ, cond, truth):
            c = flow.compare_of(cond, truth)
            if c is None:
                return st
            l, op, r = c
            if r is None and is_src(l):
                return st | {"nn"} if op == "!=" else st - {"nn"}
            if r is not None and op == "!=" and ((is_src(l) and r.v == 0) or (is_src(r) and l.v == 0)):
                return st | {"nn"}
            return st
        IN, OUT, T = flow.forward_paths(fn, frozenset(), transfer, edge=edge)
        for x, S in flow.states_at(fn, IN, T):
            if x not in sites:
                continue
            n += 1
            chk.instance(rule)
            if all("nn" in ps for ps in S):
                chk.ok(rule, "%s: %s after the creator's table exists" % (fn.name, x.text()[:60]))
            else:
                chk.violation(rule, fn.tu.name, fn.name, x.kids[0].text().replace(" ", ""), x.loc,
                              "`%s` can run while the creator has no environment table yet (env == NULL): the child then shares "
                              "nothing, and dynamic bindings the creator makes later are not visible in the inheriting child" % x.text()[:80])
    chk.floor(rule, 3, n)


def _childlink_rule(chk, prog):
    """When a fiber hands a child's resumable signal outward (resume / propagate / cancel instructions returning the
    child's signal), it must be left pointing at that child: janet_continue_no_check re-enters the innermost suspended
    fiber by following fiber->child, so a missing link sends the next resume value to the wrong fiber."""
    rule = "C05-CHILDLINK"
    chk.rule(rule, "run_vm returns a child's signal only with fiber->child linked to that child on every path")
    from jv.vm import VMHandlers
    full = Program.load("default", units=["vm.c"])
    vm = VMHandlers(full)
    vfn = vm.fn
    dispatch = vfn.igoto
    n = 0

    def is_link(x):
        return x.k == "asg" and x.op == "=" and x.kids[0].k == "mem" and x.kids[0].field == "child" and x.kids[0].rec == "JanetFiber" \
            and is_ref(strip_casts(x.kids[0].kids[0]), "fiber")

    def transfer(st, x):
        if is_link(x):
            return frozenset(["linked"]) if strip_casts(x.kids[1]).v != 0 else frozenset()
        return st
    for lab, e in sorted(vm.handler_entry_blocks().items()):
        if not lab.startswith("label_JOP_"):
            continue
        I, O = flow.forward(vfn, frozenset(), transfer, lambda a, b: a & b,
                            edge=lambda st, blk, succ, c, t: None if succ == dispatch else st, start=e)
        blocks = set(I)
        if not any(is_link(x) for b in blocks for x in vfn.blocks[b].elems):
            continue
        for b, st in I.items():
            for x in vfn.blocks[b].elems:
                if x.k == "return" and x.kids and x.kids[0].v is None and x.in_macro("vm_return"):
                    n += 1
                    chk.instance(rule)
                    if "linked" in st:
                        chk.ok(rule, "%s: signal returned at %s with the child linked" % (lab[6:], x.loc))
                    else:
                        chk.violation(rule, "vm.c", "run_vm", "%s:return" % lab[6:], x.loc,
                                      "%s can return the sub-fiber's signal without fiber->child pointing at it on every path: when the "
                                      "outer fiber is resumed, the value is not delivered to the suspended inner fiber" % lab[6:])
                st = transfer(st, x)
    chk.floor(rule, 3, n)


def run(chk):
    prog = Program.load("default", units=["vm.c", "fiber.c", "value.c", "marsh.c", "ev.c", "util.c", "capi.c", "corelib.c"])
    _terminal_rule(chk, prog)
    _entry_rule(chk, prog)
    _mask_rule(chk, prog)
    _layout_rule(chk, prog)
    _statuswrite_rule(chk, prog)
    _saverestore_rule(chk, prog)
    _boundary_rule(chk, prog)
    _envshare_rule(chk, prog)
    _childlink_rule(chk, prog)
    from rules import c05_boot
    c05_boot.run(chk, prog)
    _dynown_rule(chk, prog)
    _coerceall_rule(chk, prog)


def _dynown_rule(chk, prog):
    """A dynamic binding set in a fiber is visible in that fiber (and in children that inherit its table) only because
    setdyn stores into the fiber's OWN environment table.  Reading goes through the prototype chain, writing must not
    depend on it: a write skipped because the value is "already there" leaves a child that set the key to the value it
    inherits without an entry of its own, and the parent's next rebinding shows through."""
    rule = "C05-DYNOWN"
    chk.rule(rule, "every returning path of setdyn (janet_core_setdyn, janet_setdyn) has stored into the environment table with janet_table_put")
    n = 0
    for (name, unit) in (("janet_core_setdyn", "corelib.c"), ("janet_setdyn", "capi.c")):
        fn = prog.need_func(name, unit)
        chk.analysed(fn)
        n += 1
        chk.instance(rule)

        def transfer(st, x):
            if x.k == "call" and x.callee in ("janet_table_put",) and x.args and any(
                    y.k == "mem" and y.field in ("env", "top_dyns") for y in x.args[0].walk()):
                return st | {"put"}
            return st
        IN, OUT, T = flow.forward_paths(fn, frozenset(), transfer)
        bad = None
        for b, kind in flow.exits(fn):
            if kind != "return" or b.id not in OUT:
                continue
            for ps in OUT[b.id]:
                if "put" not in ps:
                    bad = b
        if bad is None:
            chk.ok(rule, "%s always stores into the environment table" % name)
        else:
            last = bad.elems[-1] if bad.elems else fn
            chk.violation(rule, unit, name, "store", last.loc,
                          "%s can return (near %s) without janet_table_put on the fiber's environment: the binding is then whatever the "
                          "prototype chain shows - a child that sets a key to the value it currently inherits keeps no entry of its own and "
                          "sees the parent's later rebinding" % (name, last.loc))
    chk.floor(rule, 2, n)


def _coerceall_rule(chk, prog):
    """While C code has re-entered the interpreter (janet_call: a peg cmt function, a sort comparator), nothing can
    suspend or leave through the C frames: every signal other than ok that is raised there arrives in the caller as an
    error.  janet_call does that for signals that come back from the fiber it runs, janet_signalv for signals raised
    by C functions (`signal`, `return` to a prompt) while the flag is set.  Both must coerce the same set - all of them:
    a user signal 0-4 that is let through jumps over the C frames and reaches an enclosing fiber as itself."""
    rule = "C05-COERCEALL"
    chk.rule(rule, "janet_signalv (under coerce_error) turns every signal other than ok into an error: its coercion condition evaluated for each of the 14 signals")
    names = prog.enumtypes.get("JanetSignal")
    if not names:
        raise AnalysisBroken("enum JanetSignal not found")
    val = {n: i for i, n in enumerate(names)}
    fn = prog.need_func("janet_signalv", "capi.c")
    chk.analysed(fn)
    sp = fn.params[0]["n"]
    sets = [x for x in fn.nodes if x.k == "asg" and x.op == "=" and is_ref(x.kids[0]) and x.kids[0].name == sp
            and is_ref(strip_casts(x.kids[1])) and strip_casts(x.kids[1]).name == "JANET_SIGNAL_ERROR"]
    if not sets:
        raise AnalysisBroken("janet_signalv: the coercion `sig = JANET_SIGNAL_ERROR` was not found")
    guard = sets[0].parent
    while guard is not None and not (guard.k == "if" and any(z is sets[0] for z in guard.kids[1].walk())):
        guard = guard.parent
    if guard is None:
        raise AnalysisBroken("janet_signalv: the coercion is not under an if")
    inits = {d.name: d.kids[0] for d in fn.nodes if d.k == "vardecl" and d.kids}

    def ev(e, sig, depth=0):
        e = strip_casts(e)
        if e is None or depth > 8:
            return None
        while e.k == "paren" and e.kids:
            e = strip_casts(e.kids[0])
        if e.v is not None:
            return e.v
        if is_ref(e):
            if e.name == sp:
                return sig
            if e.name in val:
                return val[e.name]
            if e.name in inits:
                return ev(inits[e.name], sig, depth + 1)
            return None
        if e.k == "mem" and e.field == "coerce_error":
            return 1
        if e.k == "un" and e.op == "!":
            a = ev(e.kids[0], sig, depth + 1)
            return None if a is None else int(not a)
        if e.k == "bin":
            a = ev(e.kids[0], sig, depth + 1)
            if e.op == "&&" and a == 0:
                return 0
            if e.op == "||" and a not in (0, None):
                return 1
            b = ev(e.kids[1], sig, depth + 1)
            if a is None or b is None:
                return None
            ops = {"==": a == b, "!=": a != b, "<": a < b, "<=": a <= b, ">": a > b, ">=": a >= b, "&&": bool(a) and bool(b), "||": bool(a) or bool(b)}
            return int(ops[e.op]) if e.op in ops else None
        return None
    res = {n: ev(guard.kids[0], i) for n, i in val.items()}
    chk.instance(rule)
    if any(v is None for v in res.values()):
        chk.ok(rule, "janet_signalv: coercion condition `%s` could not be evaluated" % guard.kids[0].text()[:50])
        chk.note("%s: condition not evaluable; not decided" % rule)
    else:
        through = sorted(n for n, v in res.items() if not v and n not in ("JANET_SIGNAL_OK", "JANET_SIGNAL_ERROR"))
        if through:
            chk.violation(rule, "capi.c", "janet_signalv", "through:" + ",".join(t.replace("JANET_SIGNAL_", "").lower() for t in through)[:40], guard.loc,
                          "with coerce_error set janet_signalv lets %s through as themselves (condition `%s`): raised by `signal` or by a `return` to a "
                          "prompt from Janet code that C called back, they jump over the C frames and reach the enclosing fiber as a user signal "
                          "instead of an error - and janet_call, the other half of the same rule, would have coerced them" % (
                              ", ".join(t.replace("JANET_SIGNAL_", "").lower() for t in through), guard.kids[0].text()[:60]))
        else:
            chk.ok(rule, "janet_signalv coerces every signal other than ok (an error stays an error)")
    chk.floor(rule, 1)
