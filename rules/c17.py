"""C17 - string/buffer/sequence library functions: structural clauses.

C17-ARITY    R-ARITY over the cfuns of string.c, buffer.c, array.c, tuple.c, pp.c, corelib.c
C17-RESERVE  appending raw stores into JanetBuffer storage are dominated by a capacity-establishing call
C17-ALIAS    a byte view that may alias the destination buffer is not used after the buffer may have been
             reallocated, unless re-derived or proven distinct
"""
from jv import flow
from jv.facts import Program, AnalysisBroken
from jv.callgraph import CallGraph
from jv.util import is_ref, is_mem, strip_casts
from rules.arity import run_arity

EXPLANATION = (
    "Static rules: (ARITY) path-sensitive interval analysis of argc over every sequence/string C function; "
    "(RESERVE) must-dataflow: every raw store or bulk copy to buffer->data + buffer->count (append position) "
    "anywhere in the program is dominated by janet_buffer_extra/ensure/setcount on the same buffer or by its "
    "construction with capacity; (ALIAS) use-after-realloc typestate for byte views taken from an argument that "
    "may be the destination buffer itself.  Necessary memory-safety conditions of the library functions; "
    "agreement with reference definitions is not decided.")
ASSUMPTIONS = ["default Linux configuration", "results of find/replace/split/sort are value-level and not decided"]

ARITY_UNITS = {"string.c", "buffer.c", "array.c", "tuple.c", "pp.c", "corelib.c"}
ROOM_CALLS = ("janet_buffer_extra", "janet_buffer_ensure", "janet_buffer_setcount")
GROW_CALLS = ROOM_CALLS + ("janet_buffer_push_bytes", "janet_buffer_push_u8", "janet_buffer_push_u16", "janet_buffer_push_u32",
                           "janet_buffer_push_u64", "janet_buffer_push_string", "janet_buffer_push_cstring")

# in-place stores (index inside the current contents) are bounds obligations of C04-INDEX, not reservations
RESERVE_EXCEPTIONS = {
    "janet_line_get": "shell line editor copies into a buffer after janet_buffer_ensure(buffer, gbl_len + 1, 2) - not an append at count; checked below as a room call on the same buffer",
}


def _buffer_base(e):
    """if e addresses <B>->data (+ ...) return text of B"""
    for x in e.walk():
        if x.k == "mem" and x.rec == "JanetBuffer" and x.field == "data":
            return strip_casts(x.kids[0]).text()
    return None


def _mentions_count(e, base):
    return any(x.k == "mem" and x.rec == "JanetBuffer" and x.field == "count" and strip_casts(x.kids[0]).text() == base
               for x in e.walk())


def _reserve_rule(chk, prog):
    rule = "C17-RESERVE"
    chk.rule(rule, "appending raw writes into buffer->data are dominated by a capacity-establishing call on that buffer")
    total = 0
    for fn in prog.all_funcs():
        sites = []
        for n in fn.nodes:
            if n.k == "asg" and n.kids[0].k in ("sub", "un"):
                b = _buffer_base(n.kids[0])
                if b is not None:
                    idx = n.kids[0].kids[1] if n.kids[0].k == "sub" else n.kids[0]
                    sites.append((n, b, idx, "store"))
            elif n.k == "call" and n.callee in ("memcpy", "memmove", "memset", "fread") and n.args:
                b = _buffer_base(n.args[0])
                if b is not None:
                    sites.append((n, b, n.args[0], n.callee))
            elif n.k == "call" and n.callee in ("read", "recv", "recvfrom") and len(n.args) > 1:
                b = _buffer_base(n.args[1])
                if b is not None:
                    sites.append((n, b, n.args[1], n.callee))
        if not sites:
            continue
        chk.analysed(fn)
        # buffers created in this function with capacity
        def transfer(st, n):
            if n.k == "call" and n.callee in ROOM_CALLS and n.args:
                return st | frozenset([n.args[0].text()])
            if n.k == "call" and n.callee == "janet_buffer_init" and n.args:
                a = strip_casts(n.args[0])
                t = a.kids[0].text() if a.k == "un" and a.op == "&" else a.text()
                return st | frozenset([t, "&" + t])
            var = rhs = None
            if n.k == "vardecl" and n.kids:
                var, rhs = n.name, strip_casts(n.kids[0])
            elif n.k == "asg" and n.op == "=" and is_ref(n.kids[0]):
                var, rhs = n.kids[0].name, strip_casts(n.kids[1])
            if rhs is not None and rhs.k == "call" and rhs.callee == "janet_buffer" and rhs.args:
                return st | frozenset([var])
            return st

        IN, OUT = flow.forward(fn, frozenset(), transfer, lambda a, b: a & b)
        ids = {s[0].id: s for s in sites}
        for b, st in IN.items():
            for n in fn.blocks[b].elems:
                if n.id in ids:
                    node, base, addr, kind = ids[n.id]
                    append = _mentions_count(addr, base) or base in st
                    total += 1
                    if not append:
                        # in-place write: a bounds obligation (C04-INDEX), counted but not decided here
                        chk.note("C17-RESERVE: %s: in-place %s into %s at %s is a bounds obligation (C04-INDEX), not decided here" % (fn.name, kind, base, node.loc))
                    else:
                        chk.instance(rule)
                        if base in st:
                            chk.ok(rule, "%s: %s at %s->count reserved" % (fn.name, kind, base))
                        else:
                            chk.violation(rule, fn.tu.name, fn.name, "%s:%s" % (base, kind), node.loc,
                                          "`%s` writes at the end of %s without a dominating janet_buffer_extra/ensure/"
                                          "setcount (or construction with capacity) on that buffer" % (node.text()[:70], base))
                st = transfer(st, n)
    if total < 35:
        raise AnalysisBroken("only %d raw buffer writes found" % total)


def _alias_rule(chk, prog):
    rule = "C17-ALIAS"
    chk.rule(rule, "a byte view that may alias the destination buffer is not used after the buffer may have been reallocated")
    tu = prog.tus["buffer.c"]
    nfn = 0
    for fn in tu.funcs.values():
        views = {}     # view var -> True
        bufs = set()
        for n in fn.nodes:
            if n.k == "vardecl" and n.kids:
                r = strip_casts(n.kids[0])
                if r.k == "call" and r.callee == "janet_getbytes":
                    views[n.name] = True
                if r.k == "call" and r.callee == "janet_getbuffer":
                    bufs.add(n.name)
        for p in fn.params:
            if p["t"].replace(" ", "") == "JanetBuffer*":
                bufs.add(p["n"])
        if not views or not bufs:
            continue
        grows = [c for c in fn.calls(*GROW_CALLS) if c.args and is_ref(strip_casts(c.args[0])) and strip_casts(c.args[0]).name in bufs]
        if not grows:
            continue
        nfn += 1
        chk.analysed(fn)
        growids = set(c.id for c in grows)

        def view_bytes(e):
            e = strip_casts(e)
            if e.k == "mem" and e.field == "bytes" and is_ref(e.kids[0]) and e.kids[0].name in views:
                return e.kids[0].name
            return None

        def is_bufdata(e):
            e = strip_casts(e)
            return e.k == "mem" and e.field == "data" and e.rec == "JanetBuffer" and is_ref(strip_casts(e.kids[0])) \
                and strip_casts(e.kids[0]).name in bufs

        def cmp_view(e):
            e = strip_casts(e)
            if e.k == "bin" and e.op == "==":
                for a, b in ((e.kids[0], e.kids[1]), (e.kids[1], e.kids[0])):
                    v = view_bytes(a)
                    if v and is_bufdata(b):
                        return v
            return None

        def transfer(facts, n):
            if n.id in growids:
                add = set()
                for v in views:
                    if ("noalias", v) not in facts:
                        add.add(("stale", v))
                # an explicit ensure on the alias path makes a following push realloc-free
                # (janet_buffer_extra(b, view.len) reserves exactly what the push appends - the checked way to do it)
                if n.callee in ("janet_buffer_ensure", "janet_buffer_extra"):
                    add.add(("ensured", strip_casts(n.args[0]).name))
                return facts | frozenset(add)
            if n.k == "asg" and n.op == "=":
                v = view_bytes(n.kids[0])
                if v and is_bufdata(n.kids[1]):
                    return frozenset(f for f in facts if f != ("stale", v))
            if n.k == "vardecl" and n.kids:
                v = cmp_view(n.kids[0])
                if v:
                    return facts | frozenset([("flag", n.name, v)])
            return facts

        def edge(facts, blk, succ, cond, truth):
            if cond is None:
                return facts
            c, t = flow.strip_not(cond, truth)
            v = cmp_view(c)
            if v is not None:
                return facts | frozenset([("noalias", v)]) if not t else facts | frozenset([("alias", v)])
            if c.k == "ref":
                for f in facts:
                    if f[0] == "flag" and f[1] == c.name:
                        if not t:
                            return frozenset(x for x in facts if x != ("stale", f[2])) | frozenset([("noalias", f[2])])
                        return facts | frozenset([("alias", f[2])])
            return facts

        IN, OUT, T = flow.forward_paths(fn, frozenset(), transfer, edge)
        for b, S in IN.items():
            for n in fn.blocks[b].elems:
                v = view_bytes(n) if n.k == "mem" else None
                if v is not None:
                    p = n.parent
                    is_def = p is not None and p.k == "asg" and p.op == "=" and p.kids[0] is n
                    is_cmp = p is not None and p.k == "bin" and p.op == "=="
                    if not is_def and not is_cmp:
                        chk.instance(rule)
                        # a use as the source argument of a growing call needs no-alias or an ensured buffer
                        gp = p
                        while gp is not None and gp.k not in ("call",):
                            gp = gp.parent
                        into_grow = gp is not None and gp.id in growids
                        bad = []
                        for s in S:
                            if ("stale", v) in s and ("noalias", v) not in s:
                                bad.append("used after the destination may have been reallocated")
                            elif into_grow and ("noalias", v) not in s and not any(f[0] == "ensured" for f in s):
                                bad.append("passed as source to %s, which may reallocate the destination it aliases" % gp.callee)
                        if bad:
                            chk.violation(rule, "buffer.c", fn.name, "%s.bytes" % v, n.loc,
                                          "%s.bytes %s; re-read it from the buffer (or prove the buffers distinct) first" % (v, bad[0]))
                        else:
                            chk.ok(rule, "%s: use of %s.bytes at %s" % (fn.name, v, n.loc))
                S = T(S, n)
    if nfn < 2:
        raise AnalysisBroken("only %d functions with a view/destination pair found in buffer.c" % nfn)


def _range_rule(chk, prog):
    """A slice [start, end) names the gaps between elements: both ends range over 0..length and a negative value counts
    from length + 1 (so -1 is "after the last element").  The start and the end decoder must therefore be the same
    half-range decoder - an element-index decoder (negative counts from length) is off by one for every negative start."""
    from jv.linear import linear
    rule = "C17-RANGE"
    chk.rule(rule, "slice start and end are decoded by the same half-range decoder: negative v -> length + 1 + v, accepted range [0, length]")
    tu = prog.tus["capi.c"]
    decs = {}
    for name in ("janet_getstartrange", "janet_getendrange"):
        fn = tu.funcs.get(name)
        if fn is None:
            raise AnalysisBroken("%s not found" % name)
        chk.analysed(fn)
        callees = set()
        for r in fn.nodes:
            if r.k == "return" and r.kids and strip_casts(r.kids[0]).k == "call":
                callees.add(strip_casts(r.kids[0]).callee)
        decs[name] = callees
        chk.instance(rule)
        if callees == {"janet_gethalfrange"}:
            chk.ok(rule, "%s decodes through janet_gethalfrange" % name)
        else:
            chk.violation(rule, "capi.c", name, "decoder", fn.loc,
                          "%s decodes an explicit bound through %s instead of janet_gethalfrange: negative bounds are resolved "
                          "against a different origin than the other end of the slice" % (name, sorted(callees) or "nothing"))
    fn = tu.funcs.get("janet_gethalfrange")
    if fn is None:
        raise AnalysisBroken("janet_gethalfrange not found")
    chk.analysed(fn)
    lenp = fn.params[2]["n"]
    adj = [x for x in fn.nodes if x.k == "asg" and x.op == "+="]
    chk.instance(rule)
    ok = False
    for a in adj:
        l = linear(a.kids[1])
        if l is not None and l[0] == {lenp: 1} and l[1] == 1:
            ok = True
    if ok:
        chk.ok(rule, "janet_gethalfrange maps a negative bound v to %s + 1 + v" % lenp)
    else:
        chk.violation(rule, "capi.c", fn.name, "negative-origin", (adj[0].loc if adj else fn.loc),
                      "janet_gethalfrange no longer resolves negative bounds against %s + 1: -1 stops meaning 'the end'" % lenp)
    chk.instance(rule)
    rejects = [x for x in fn.nodes if x.k == "bin" and x.op in (">", ">=") and is_ref(strip_casts(x.kids[1]), lenp)]
    if len(rejects) == 1 and rejects[0].op == ">":
        chk.ok(rule, "janet_gethalfrange accepts exactly 0..%s" % lenp)
    else:
        chk.violation(rule, "capi.c", fn.name, "upper-bound", fn.loc,
                      "janet_gethalfrange's upper bound test is not `> %s` (found %s): the end position %s itself must be accepted and "
                      "nothing beyond it" % (lenp, [r.text() for r in rejects], lenp))


def _fmttables_rule(chk, prog):
    """A conversion letter of the printf-style formatter is described in three places that must agree: the `case`
    labels of the two formatters (janet_formatbv, janet_buffer_format), the table that maps integer conversions to
    the 64-bit printf forms (format_mappings[]), and the string of letters that scanformat() rewrites through that
    table (FMT_REPLACE_INTTYPES).  A letter with a case and a mapping row that is missing from the rewrite string is
    handed to snprintf verbatim and prints garbage or nothing."""
    rule = "C17-FMTTABLES"
    chk.rule(rule, "integer conversion letters: format_mappings[] rows == letters rewritten by scanformat == integer cases of both formatters")
    tu = prog.tus["pp.c"]
    m = prog.macros.get("FMT_REPLACE_INTTYPES")
    if not m:
        raise AnalysisBroken("FMT_REPLACE_INTTYPES not found")
    rewritten = set(m["body"].strip().strip('"'))
    tab = tu.ginit("format_mappings")
    if tab is None:
        raise AnalysisBroken("format_mappings[] not found")
    rows = set()
    for r in tab.kids:
        if r.kids and r.kids[0].v is not None:
            rows.add(chr(r.kids[0].v))
    chk.instance(rule)
    if rows == rewritten:
        chk.ok(rule, "format_mappings rows %s == FMT_REPLACE_INTTYPES" % "".join(sorted(rows)))
    else:
        chk.violation(rule, "pp.c", "scanformat", "rewrite:%s" % "".join(sorted(rows ^ rewritten)), tu.file,
                      "format_mappings[] has rows for %s but scanformat rewrites %s: the letters %s are passed to snprintf unchanged "
                      "(or have no mapping to rewrite to)" % ("".join(sorted(rows)), "".join(sorted(rewritten)), "".join(sorted(rows ^ rewritten))))
    overflow_checks = {}
    for fname in ("janet_formatbv", "janet_buffer_format"):
        fn = tu.funcs.get(fname)
        if fn is None:
            raise AnalysisBroken("%s not found" % fname)
        chk.analysed(fn)
        cases = set()
        for x in fn.nodes:
            if x.k == "case" and x.kids and x.kids[0].v is not None and 32 < x.kids[0].v < 127:
                cases.add(chr(x.kids[0].v))
        # the overflow test after snprintf: same relation and bound in both copies
        ovf = None
        for x in fn.nodes:
            if x.k == "if" and strip_casts(x.kids[0]).k == "bin" and is_ref(strip_casts(strip_casts(x.kids[0]).kids[0]), "nb") \
                    and any(y.k == "str" and "overflow" in (y.d.get("s") or "") for y in x.kids[1].walk()):
                c = strip_casts(x.kids[0])
                ovf = (c.op, strip_casts(c.kids[1]).v, x)
        overflow_checks[fname] = ovf
        chk.instance(rule)
        missing = sorted(rows - cases)
        if missing:
            chk.violation(rule, "pp.c", fname, "cases:%s" % "".join(missing), fn.loc,
                          "%s has no case for the integer conversion(s) %s that format_mappings[] defines" % (fname, "".join(missing)))
        else:
            chk.ok(rule, "%s handles every mapped integer conversion" % fname)
    chk.instance(rule)
    a, b = overflow_checks.get("janet_formatbv"), overflow_checks.get("janet_buffer_format")
    if a is None or b is None:
        raise AnalysisBroken("format item overflow test (nb vs MAX_ITEM) not found in both formatters")
    item = prog.macros.get("MAX_ITEM")
    cap = int(item["body"]) if item and item["body"].strip().isdigit() else None
    good = a[:2] == b[:2] and a[0] == ">=" and (cap is None or a[1] == cap)
    if good:
        chk.ok(rule, "both formatters reject an item whose length reaches MAX_ITEM (nb >= %s)" % a[1])
    else:
        w = b[2] if (a[0] == ">=" and (cap is None or a[1] == cap)) else a[2]
        chk.violation(rule, "pp.c", w.fn.name if hasattr(w, "fn") else "formatter", "overflow-test", w.loc,
                      "the two formatters test the rendered item length differently (janet_formatbv: nb %s %s, janet_buffer_format: "
                      "nb %s %s; item buffer MAX_ITEM = %s): snprintf returning MAX_ITEM means the last character was cut, so the test "
                      "must be `nb >= MAX_ITEM`" % (a[0], a[1], b[0], b[1], cap))


def run(chk):
    prog = Program.load("default")
    cg = CallGraph(prog)
    run_arity(chk, "C17-ARITY", prog, cg, ARITY_UNITS, "sequence/string cfuns read argv[k] only where argc > k is established")
    chk.floor("C17-ARITY", 100)
    _reserve_rule(chk, prog)
    _alias_rule(chk, prog)
    _range_rule(chk, prog)
    _fmttables_rule(chk, prog)
    from rules import c17_copylen
    c17_copylen.run(chk, prog)
    c17_copylen.run_addwrap(chk, prog)
    _cstr_rule(chk, prog)
    from rules import c17_boot
    c17_boot.run(chk)
    from rules import c14_boot
    c14_boot.nilkey(chk)
    _noassert_rule(chk, prog)
    _seenpair_rule(chk, prog)
    _narrowcheck_rule(chk, prog)
    _viewcopy_rule(chk, prog)
    _substpermatch_rule(chk, prog)


UNBOUNDED_CSTR = ("strchr", "strrchr", "strlen", "strcmp", "strstr", "strcpy", "strcat", "strdup", "strpbrk", "strspn", "strcspn",
                  "strtok", "atoi", "atof", "strtol", "strtoul", "strtod", "strcasecmp", "index", "rindex")
CSTR_EXCEPTIONS = {
    "janet_getcbytes": "this is the function that turns bytes into a C string: it puts a terminator behind the bytes first and uses strlen "
                       "precisely to detect an embedded NUL (and then raises)",
}


def _cstr_rule(chk, prog):
    """A JanetByteView (and a buffer's storage) is a pointer plus a length: the bytes may contain NUL and, for a buffer,
    are not followed by one.  The C string functions that take no length stop at the first NUL and run past the end when
    there is none, so they must not be applied to such bytes."""
    rule = "C17-CSTR"
    chk.rule(rule, "no length-less C string function (strchr, strlen, strcmp ...) is applied to the bytes of a byte view or a buffer")
    n = 0
    for fn in prog.all_funcs():
        calls = fn.calls(*UNBOUNDED_CSTR)
        if not calls:
            continue

        def is_raw(y):
            return y.k == "mem" and ((y.field == "bytes" and y.rec == "JanetByteView") or (y.field == "data" and y.rec == "JanetBuffer"))
        tainted = set()
        for x in fn.nodes:
            tgt = rhs = None
            if x.k == "vardecl" and x.kids:
                tgt, rhs = x.name, x.kids[0]
            elif x.k == "asg" and x.op == "=" and is_ref(x.kids[0]):
                tgt, rhs = x.kids[0].name, x.kids[1]
            if tgt and rhs is not None and is_raw(strip_casts(rhs)):
                tainted.add(tgt)
        for c in calls:
            n += 1
            chk.instance(rule)
            bad = None
            for a in c.args:
                for y in a.walk():
                    if is_raw(y) or (is_ref(y) and y.name in tainted and "*" in (y.t or "")):
                        bad = y
            if bad is None:
                chk.ok(rule, "%s: %s on a C string" % (fn.name, c.callee))
            elif fn.name in CSTR_EXCEPTIONS:
                chk.exception(rule, "%s:%s" % (fn.name, c.callee), CSTR_EXCEPTIONS[fn.name])
                chk.ok(rule, "%s: %s (exception)" % (fn.name, c.callee))
            else:
                chk.analysed(fn)
                chk.violation(rule, fn.tu.name, fn.name, "%s:%s" % (c.callee, bad.text()[:24].replace(" ", "")), c.loc,
                              "`%s` applies a length-less C string function to `%s`, bytes that come with an explicit length: a NUL byte in "
                              "the data ends the scan early (and always `matches` in strchr), and a buffer without terminator is read past "
                              "its end" % (c.text()[:60], bad.text()[:30]))
    chk.floor(rule, 30, n)


def _noassert_rule(chk, prog):
    """janet_assert ends the process (JANET_EXIT -> abort).  In the library units it may mark code that cannot be
    reached, but a condition computed from the arguments is an input-triggered abort that `try` cannot catch - and
    with floating-point operands such a `cannot happen` is simply wrong: (range 0 0.9 0.3) has 0 + 3 * 0.3 < 0.9."""
    rule = "C17-NOASSERT"
    chk.rule(rule, "in the string / buffer / array / tuple / core library units no process-terminating assertion has a condition computed at run time")
    n = 0
    for tun in ARITY_UNITS:
        tu = prog.tus.get(tun)
        if tu is None:
            continue
        for fn in tu.funcs.values():
            for x in fn.nodes:
                if x.k != "if" or "janet_assert" not in x.macro_names():
                    continue
                if x.parent is not None and "janet_assert" in x.parent.macro_names() and x.parent.k == "if":
                    continue
                n += 1
                chk.instance(rule)
                chk.analysed(fn)
                c = strip_casts(x.kids[0])
                while c.k == "un" and c.op == "!":
                    c = strip_casts(c.kids[0])
                while c.k == "paren":
                    c = strip_casts(c.kids[0])
                if c.k == "int":
                    chk.ok(rule, "%s: `janet_assert(%s, ...)` marks unreachable code" % (fn.name, c.text()))
                else:
                    chk.violation(rule, tun, fn.name, "assert:" + c.text()[:30].replace(" ", ""), x.loc,
                                  "`janet_assert(%s, ...)` in %s tests a value computed from the call's arguments: when it fails the "
                                  "process aborts and no `try` can intercept it" % (c.text()[:60], fn.name))
    chk.floor(rule, 1, n)


def _seenpair_rule(chk, prog):
    """The pretty printer recognises cycles by a table of the containers it is currently inside: entered on the way
    in, removed on the way out.  A path that returns without the removal leaves an acyclic, merely SHARED container
    marked: its second occurrence is printed as <cycle N>, and the numbers of real cycle markers shift."""
    rule = "C17-SEENPAIR"
    chk.rule(rule, "janet_pretty_one removes a container from its `seen` table on every path on which it entered it")
    fn = prog.need_func("janet_pretty_one", "pp.c")
    chk.analysed(fn)

    def seen_call(x, name):
        return x.k == "call" and x.callee == name and x.args and any(y.k == "mem" and y.field == "seen" for y in x.args[0].walk())

    def transfer(st, x):
        if seen_call(x, "janet_table_put"):
            return st | {"in"}
        if seen_call(x, "janet_table_remove"):
            return st - {"in"}
        return st
    IN, OUT, T = flow.forward_paths(fn, frozenset(), transfer)
    n = 0
    for b, kind in flow.exits(fn):
        if kind != "return" or b.id not in OUT:
            continue
        n += 1
        chk.instance(rule)
        if any("in" in ps for ps in OUT[b.id]):
            where = b.term or (b.elems[-1] if b.elems else None)
            chk.violation(rule, "pp.c", "janet_pretty_one", "return-while-seen", where.loc if where is not None else fn.loc,
                          "janet_pretty_one can return with the container still entered in S->seen: a value that merely occurs twice "
                          "is then printed as a cycle the second time ((string/format \"%.2q\" (let [x @[1 2]] @[x x])))")
        else:
            chk.ok(rule, "janet_pretty_one: this return leaves nothing behind in S->seen")
    chk.floor(rule, 1, n)


NARROW_UNITS = ("buffer.c", "string.c", "array.c", "tuple.c", "capi.c")


def _narrowcheck_rule(chk, prog):
    """An index that arrives as a double is turned into a 64-bit integer so that it can be tested against the 32-bit
    length without losing anything.  The conversion to int32_t belongs after that test: a value narrowed first wraps
    modulo 2^32, and a huge index whose low bits happen to be in range passes the check and touches an unrelated (or,
    wrapped negative, an out-of-bounds) byte."""
    rule = "C17-NARROWCHECK"
    chk.rule(rule, "a 64-bit index is not compared with a length after it was narrowed to 32 bits: no int32_t local initialised from an int64_t expression appears in a comparison")
    W = ("int64_t", "long", "long long", "uint64_t", "unsigned long", "size_t")
    n = 0
    for fn in prog.all_funcs():
        if fn.tu.name not in NARROW_UNITS:
            continue
        for d in fn.nodes:
            if d.k != "vardecl" or not d.kids or (d.t or "") not in ("int32_t", "int"):
                continue
            init = d.kids[0]
            while init.k == "paren" and init.kids:
                init = init.kids[0]
            src = init.kids[0] if init.k == "cast" and init.kids else init
            while src.k == "paren" and src.kids:
                src = src.kids[0]
            if (src.t or "").replace("const ", "") not in W or src.k in ("int", "lit") or src.v is not None:
                continue
            if not any(y.k == "ref" and (y.t or "").replace("const ", "") in ("int64_t", "long", "long long") for y in src.walk()):
                continue
            n += 1
            chk.instance(rule)
            chk.analysed(fn)
            cmpn = [x for x in fn.nodes if x.k == "bin" and x.op in ("<", "<=", ">", ">=") and
                    any(is_ref(strip_casts(k)) and strip_casts(k).name == d.name for k in x.kids) and
                    any(y.k == "mem" and y.field in ("count", "length", "len", "capacity") for k in x.kids for y in k.walk())]
            # harmless when the wide source was itself given an upper bound before the narrowing
            wide = set(y.name for y in src.walk() if y.k == "ref" and (y.t or "").replace("const ", "") in ("int64_t", "long", "long long"))
            bounded = any(x.k == "bin" and x.op in (">", ">=", "<", "<=") and x.ln < d.ln and
                          any(is_ref(strip_casts(k)) and strip_casts(k).name in wide for k in x.kids) for x in fn.nodes)
            if cmpn and bounded:
                chk.ok(rule, "%s: `%s` is narrowed after `%s` was bounded" % (fn.name, d.name, "/".join(sorted(wide))))
            elif cmpn:
                chk.violation(rule, fn.tu.name, fn.name, d.name, cmpn[0].loc,
                              "`%s` is `%s` narrowed to 32 bits (%s) and it is the narrowed value that is compared with the length at %s: an "
                              "index of 2^35 or more wraps modulo 2^32, passes the check when its low bits are small and addresses an unrelated "
                              "byte - or one in front of the storage when it wraps negative" % (d.name, src.text()[:30], d.loc, cmpn[0].loc))
            else:
                chk.ok(rule, "%s: `%s` is narrowed after its range was settled" % (fn.name, d.name))
    if n == 0:
        chk.note("%s: no 32-bit local is initialised from a 64-bit index in %s at present" % (rule, ", ".join(NARROW_UNITS)))
    chk.floor(rule, 0, n)


def _viewcopy_rule(chk, prog):
    """string/replace and replace-all call back into Janet (the substitution function) between matches while they hold
    raw pointers into their pattern and text arguments.  A buffer argument can be resized by that code, so each one is
    replaced by a private string copy first - each: the pattern as much as the text.  (The search state also holds a
    failure table built from the pattern's bytes.)"""
    rule = "C17-VIEWCOPY"
    chk.rule(rule, "replacesetup takes a byte view only of arguments that were replaced by a private copy when the substitution is a function")
    fn = next((f for f in prog.all_funcs() if f.name == "replacesetup" and f.tu.name == "string.c"), None)
    if fn is None:
        raise AnalysisBroken("string.c: replacesetup not found")
    chk.analysed(fn)
    viewed = set()
    for c in fn.calls("janet_getbytes"):
        v = strip_casts(c.args[1]).v if len(c.args) > 1 else None
        if v is not None:
            viewed.add(v)
    copied = set()
    guard = [x for x in fn.nodes if x.k == "if" and any(y.k == "ref" and y.name in ("JANET_FUNCTION", "JANET_CFUNCTION") for y in x.kids[0].walk())]
    if not guard:
        raise AnalysisBroken("replacesetup: the test for a function substitution was not recognised")
    body = guard[0].kids[1]
    for x in body.walk():
        if x.k == "asg" and x.op == "=" and x.kids[0].k == "sub" and is_ref(strip_casts(x.kids[0].kids[0]), "argv"):
            idx = strip_casts(x.kids[0].kids[1])
            if idx.v is not None:
                copied.add(idx.v)
            elif is_ref(idx):
                # a loop over indices: enumerate it
                lp = x.parent
                while lp is not None and lp.k != "for":
                    lp = lp.parent
                if lp is not None:
                    init = [y for y in lp.kids[0].walk() if y.k == "vardecl" and y.name == idx.name and y.kids] if lp.kids[0] is not None else []
                    cond = strip_casts(lp.kids[1]) if lp.kids[1] is not None else None
                    inc = strip_casts(lp.kids[2]) if lp.kids[2] is not None else None
                    if init and cond is not None and cond.k == "bin" and cond.op in ("<", "<=") and strip_casts(cond.kids[1]).v is not None and inc is not None:
                        step = strip_casts(inc.kids[1]).v if inc.k == "asg" and inc.op == "+=" else (1 if inc.k == "un" else None)
                        i0 = strip_casts(init[0].kids[0]).v
                        hi = strip_casts(cond.kids[1]).v + (1 if cond.op == "<=" else 0)
                        if step and i0 is not None:
                            copied.update(range(i0, hi, step))
    if not viewed:
        raise AnalysisBroken("replacesetup: no byte views taken with janet_getbytes(argv, <constant>)")
    for v in sorted(viewed):
        chk.instance(rule)
        if v in copied:
            chk.ok(rule, "replacesetup: argv[%d] is copied before its view is taken" % v)
        else:
            chk.violation(rule, "string.c", "replacesetup", "argv[%d]" % v, fn.loc,
                          "replacesetup takes a byte view of argv[%d] that is kept while the substitution function runs, but only argv[%s] are "
                          "replaced by private copies: a function that changes or resizes that buffer makes the rest of the search look for the "
                          "wrong bytes or read freed memory" % (v, ", ".join(str(i) for i in sorted(copied)) or "none"))
    chk.floor(rule, 2)


def _substpermatch_rule(chk, prog):
    """A substitution given as a function is called "once for each match" (docstring): it may count, pop replacements
    off a list, look at the match.  In the loops of string/replace-all and peg/replace-all the call to
    janet_text_substitution therefore belongs to every iteration - not behind a flag that remembers the first answer."""
    rule = "C17-SUBSTPERMATCH"
    chk.rule(rule, "in a replace-all loop the substitution is obtained in every iteration (the call to janet_text_substitution is in the match loop, under no further condition)")
    n = 0
    for fn in prog.all_funcs():
        if fn.tu.name not in ("string.c", "peg.c") or "replace" not in fn.name or "all" not in fn.name.replace("_", ""):
            continue
        calls = fn.calls("janet_text_substitution")
        loops = [x for x in fn.nodes if x.k in ("while", "for", "do")]
        if not loops:
            continue
        n += 1
        chk.instance(rule)
        chk.analysed(fn)
        inloop = [c for c in calls if any(any(z is c for z in lp.walk()) for lp in loops)]
        bad = None
        if not inloop:
            bad = (fn, "is not called inside the match loop at all")
        for c in inloop:
            q = c.parent
            while q is not None and q.k not in ("while", "for", "do"):
                if q.k == "if" and any(z is c for z in (q.kids[1].walk() if len(q.kids) > 1 else [])):
                    bad = (c, "sits under `if (%s)` inside the loop" % q.kids[0].text()[:30])
                if q.k == "if" and len(q.kids) > 2 and q.kids[2] is not None and any(z is c for z in q.kids[2].walk()):
                    bad = (c, "sits in the else branch of `if (%s)` inside the loop" % q.kids[0].text()[:30])
                q = q.parent
        if bad:
            chk.violation(rule, fn.tu.name, fn.name, "subst", bad[0].loc,
                          "in %s the call to janet_text_substitution %s: a function substitution is asked once and its answer reused, so a "
                          "counting or popping function gives the same replacement for every match" % (fn.name, bad[1]))
        else:
            chk.ok(rule, "%s: one substitution call per match" % fn.name)
    chk.floor(rule, 1, n)
