"""C15 - compiler specialisations of core functions preserve behaviour: table agreement clauses.

C15-TAGS     every JANET_FUN_* tag has an optimiser entry and exactly one bootstrap registration
C15-VAROP    (opcode, nullary, unary) of the inline variadic arithmetic == those of the generic function body
C15-COMPARE  (opcode, invert) of the inline comparators == those of the generic comparator body
C15-FIXED    fixed-arity specials: the inline opcode occurs in the generic body; the inline arity guard accepts
             only arities the generic function accepts; the body array and its size argument agree
C15-NOOPS    noop removal rewrites exactly the jump fields of the jump-typed opcodes
C15-MOVOPT   dead-move elimination: every slot an opcode's handler reads is counted as read; only opcodes that
             cannot raise and only write their target may be turned into no-ops
"""
from jv import flow
from jv.facts import Program, AnalysisBroken
from jv.util import is_ref, is_mem, strip_casts, switch_cases, case_name, case_map
from rules.c05 import eval_pred

EXPLANATION = (
    "Static table cross-checks between the inline code generators (cfuns.c optimizers[]), the generic function "
    "bodies assembled at bootstrap (corelib.c, parsed with -DJANET_BOOTSTRAP), the tag numbering (compile.h), the "
    "bytecode passes (bytecode.c) and the interpreter (vm.c): same opcode and identity elements for variadic "
    "operators, same opcode/inversion for comparators, inline arity guards inside the generic arity range, jump "
    "rewriting matching the instruction-type table, dead-move read sets covering what each handler reads, and "
    "removable opcodes restricted to non-raising pure writes.  Decides agreement of the two routes' parameters; "
    "equality of results for every argument shape is not decided.")
ASSUMPTIONS = ["corelib.c analysed with -DJANET_BOOTSTRAP (the generic bodies exist only in the bootstrap build)"]

NEGATED = {"JOP_NOT_EQUALS": "JOP_EQUALS"}


def wrapped_int(n):
    """integer k inside janet_wrap_integer(k) / janet_wrap_nil() -> None"""
    for x in n.walk():
        if x.v is not None and any(m.startswith("janet_wrap_integer@") for m in x.macros):
            return x.v
    # nil
    if any("janet_wrap_nil" in m for m in n.macro_names()):
        return None
    # the argument itself may be a literal
    ints = [x.v for x in n.walk() if x.k in ("int", "un") and x.v is not None and x.d.get("t") is not None]
    return ints[0] if ints else None


def enum_name(n):
    n = strip_casts(n)
    if n.k == "ref" and n.d.get("d") == "enum":
        return n.name
    return n.v if n.v is not None else None


def tag_of(prog, n):
    """JANET_FUN_X macro name used in a flags expression"""
    for x in n.walk():
        for m in x.macro_names():
            if m.startswith("JANET_FUN_") and m != "JANET_FUN_":
                return m
    return None


def run(chk):
    prog = Program.load("default", units=["cfuns.c", "bytecode.c", "vm.c", "compile.c", "specials.c"])
    boot = Program.load("bootstrap", units=["corelib.c"])
    ctu = boot.tus["corelib.c"]
    cf = prog.tus["cfuns.c"]
    tags = {k: int(v["body"]) for k, v in prog.macros.items() if k.startswith("JANET_FUN_") and v["body"].strip().isdigit()}
    if len(tags) < 30:
        raise AnalysisBroken("only %d JANET_FUN_* tags" % len(tags))
    byval = {v: k for k, v in tags.items()}
    opt = cf.ginit("optimizers")
    if opt is None:
        raise AnalysisBroken("optimizers[] not found")
    rows = []
    for r in opt.kids:
        guard = strip_casts(r.kids[0]) if r.kids else None
        fnn = strip_casts(r.kids[1]) if len(r.kids) > 1 else None
        rows.append((guard.name if guard is not None and guard.k == "ref" else None, fnn.name if fnn is not None and fnn.k == "ref" else None))

    # ---- registrations -----------------------------------------------------------------------
    env_fn = boot.need_func("janet_core_env", ctu)
    regs = {}
    for c in env_fn.calls("janet_quick_asm", "templatize_varop", "templatize_comparator"):
        t = tag_of(boot, c.args[1])
        if t:
            regs.setdefault(t, []).append(c)
    ma = boot.func("make_apply", ctu)
    if ma is not None:
        for c in ma.calls("janet_quick_asm"):
            t = tag_of(boot, c.args[1])
            if t:
                regs.setdefault(t, []).append(c)
    rule = "C15-TAGS"
    chk.rule(rule, "every JANET_FUN_* tag has an optimizers[] entry and exactly one bootstrap registration")
    chk.analysed(env_fn)
    for t, v in sorted(tags.items(), key=lambda kv: kv[1]):
        chk.instance(rule)
        if v < 1 or v > len(rows) or rows[v - 1][1] is None:
            chk.violation(rule, "cfuns.c", "optimizers", t, cf.file, "tag %s (%d) has no entry in optimizers[]" % (t, v))
        elif len(regs.get(t, [])) != 1:
            chk.violation(rule, "corelib.c", "janet_core_env", t, env_fn.loc, "tag %s is registered %d times at bootstrap (expected once)" % (t, len(regs.get(t, []))))
        else:
            chk.ok(rule, "%s -> %s, registered as %s" % (t, rows[v - 1][1], regs[t][0].args[2].text()))
    chk.instance(rule)
    if len(rows) == max(tags.values()):
        chk.ok(rule, "optimizers[] has %d entries == highest tag" % len(rows))
    else:
        chk.violation(rule, "cfuns.c", "optimizers", "length", cf.file, "optimizers[] has %d entries but the highest tag is %d" % (len(rows), max(tags.values())))

    # ---- varop / comparators -----------------------------------------------------------------
    rule = "C15-VAROP"
    chk.rule(rule, "inline variadic operators use the same opcode and identity elements as the generic body")
    rule2 = "C15-COMPARE"
    chk.rule(rule2, "inline comparators use the same opcode / inversion as the generic body")
    nv = nc = 0
    for t, calls in sorted(regs.items()):
        c = calls[0]
        v = tags.get(t)
        if v is None or v > len(rows):
            continue
        dofn = prog.func(rows[v - 1][1], cf)
        if dofn is None:
            continue
        if c.callee == "templatize_varop":
            nv += 1
            chk.instance(rule)
            chk.analysed(dofn)
            g_null, g_un, g_op = c.args[3].v, c.args[4].v, enum_name(c.args[5])
            oc = dofn.calls("opreduce")
            if not oc:
                chk.violation(rule, "cfuns.c", dofn.name, t, dofn.loc, "%s no longer goes through opreduce" % dofn.name)
                continue
            o = oc[0]
            i_op, i_im = enum_name(o.args[2]), enum_name(o.args[3])
            i_null, i_un = wrapped_int(o.args[4]), wrapped_int(o.args[5])
            probs = []
            if i_op != g_op:
                probs.append("opcode %s vs %s" % (i_op, g_op))
            if i_null != g_null:
                probs.append("value for no arguments %s vs %s" % (i_null, g_null))
            if i_un != g_un:
                probs.append("left operand for one argument %s vs %s" % (i_un, g_un))
            if i_im not in (0, None) and i_im != "%s_IMMEDIATE" % i_op:
                probs.append("immediate opcode %s is not %s_IMMEDIATE" % (i_im, i_op))
            if probs:
                chk.violation(rule, "cfuns.c", dofn.name, t, o.loc,
                              "inline %s disagrees with the generic function %s: %s" % (dofn.name, c.args[2].text(), "; ".join(probs)))
            else:
                chk.ok(rule, "%s: %s nullary=%s unary=%s imm=%s" % (t, i_op, i_null, i_un, i_im))
        elif c.callee == "templatize_comparator":
            nc += 1
            chk.instance(rule2)
            chk.analysed(dofn)
            g_inv, g_op = c.args[3].v, enum_name(c.args[4])
            oc = dofn.calls("compreduce")
            if not oc:
                chk.violation(rule2, "cfuns.c", dofn.name, t, dofn.loc, "%s no longer goes through compreduce" % dofn.name)
                continue
            o = oc[0]
            i_op, i_im, i_inv = enum_name(o.args[2]), enum_name(o.args[3]), o.args[4].v
            want = g_op if not g_inv else [k for k, v2 in NEGATED.items() if v2 == g_op][0] if g_op in NEGATED.values() else g_op
            probs = []
            if bool(i_inv) != bool(g_inv):
                probs.append("inversion %s vs %s" % (i_inv, g_inv))
            if i_op != want:
                probs.append("opcode %s, expected %s for generic (%s, invert=%s)" % (i_op, want, g_op, g_inv))
            if i_im not in (0, None) and i_im != "%s_IMMEDIATE" % i_op:
                probs.append("immediate opcode %s is not %s_IMMEDIATE" % (i_im, i_op))
            if probs:
                chk.violation(rule2, "cfuns.c", dofn.name, t, o.loc, "inline %s disagrees with generic %s: %s" % (dofn.name, c.args[2].text(), "; ".join(probs)))
            else:
                chk.ok(rule2, "%s: %s invert=%s" % (t, i_op, i_inv))
    if nv < 12 or nc < 6:
        raise AnalysisBroken("variadic/comparator registrations not found (%d, %d)" % (nv, nc))

    # ---- fixed arity specials ------------------------------------------------------------------
    rule = "C15-FIXED"
    chk.rule(rule, "fixed-arity specials: inline opcode occurs in the generic body, inline arity guard inside the generic arity range, body size matches")

    def count_eval(e, n):
        """evaluate a guard expression with janet_v_count(args) := n"""
        while e is not None and e.k in ("paren", "cast") and e.kids and "janet_v_count" not in [m.rstrip("@") for m in e.macro_names()]:
            e = e.kids[0]
        if e is None:
            return None
        if "janet_v_count" in [m.rstrip("@") for m in e.macro_names()] and e.k in ("cond", "paren", "cast"):
            return n
        if e.v is not None:
            return e.v
        if e.k == "bin":
            a, b = count_eval(e.kids[0], n), count_eval(e.kids[1], n)
            if a is None or b is None:
                return None
            ops = {"==": a == b, "!=": a != b, "<": a < b, "<=": a <= b, ">": a > b, ">=": a >= b, "&&": bool(a) and bool(b), "||": bool(a) or bool(b)}
            return int(ops[e.op]) if e.op in ops else None
        if e.k == "un" and e.op == "!":
            a = count_eval(e.kids[0], n)
            return None if a is None else int(not a)
        return None

    def accepted(guardname):
        g = prog.func(guardname, cf)
        if g is None:
            return None
        rets = [r for r in g.nodes if r.k == "return" and r.kids]
        if len(rets) != 1:
            return None
        vals = [count_eval(rets[0].kids[0], n) for n in range(0, 7)]
        if all(v is not None for v in vals):
            return set(n for n, v in enumerate(vals) if v)
        # janet_v_count(args) == k ...: evaluate over n with the count expression replaced: find the compared variable
        e = rets[0].kids[0]
        vars_ = set(x.name for x in e.walk() if x.k == "ref" and x.d.get("d") in ("var", "parm"))
        out = set()
        for n in range(0, 7):
            r = None
            for var in vars_ or {"?"}:
                r = eval_pred(e, var, n)
                if r is not None:
                    break
            if r is None:
                return None
            if r:
                out.add(n)
        return out
    nfix = 0
    for t, calls in sorted(regs.items()):
        c = calls[0]
        if c.callee != "janet_quick_asm":
            continue
        v = tags[t]
        guard, doname = rows[v - 1]
        dofn = prog.func(doname, cf)
        nfix += 1
        # body array and size
        chk.instance(rule)
        arr = strip_casts(c.args[7])
        sz = c.args[8]
        szname = None
        for x in sz.walk():
            if x.k == "ref" and x.d.get("d") in ("gvar", "var", "slocal"):
                szname = x.name
        if arr.k == "ref" and szname is not None and szname != arr.name:
            a_len = (ctu.ginit(arr.name).d.get("len") if ctu.ginit(arr.name) is not None else None)
            s_len = (ctu.ginit(szname).d.get("len") if ctu.ginit(szname) is not None else None)
            if a_len != s_len:
                chk.violation(rule, "corelib.c", "janet_core_env", "%s:size" % t, c.loc,
                              "%s is registered with body %s (%s words) but size sizeof(%s) (%s words)" % (
                                  c.args[2].text(), arr.name, a_len, szname, s_len))
            else:
                chk.ok(rule, "%s: body %s sized by sizeof(%s), same length %s" % (t, arr.name, szname, a_len))
        else:
            chk.ok(rule, "%s: body %s sized by itself" % (t, arr.text()))
        # arity guard
        mn, mx = c.args[4].v, c.args[5].v
        if guard is not None and mn is not None and mx is not None:
            chk.instance(rule)
            acc = accepted(guard)
            if acc is None:
                chk.note("C15-FIXED: arity guard %s could not be evaluated" % guard)
                chk.ok(rule, "%s: guard %s (not evaluated)" % (t, guard))
            else:
                bad = sorted(n for n in acc if n < mn or n > mx)
                if bad:
                    chk.violation(rule, "cfuns.c", guard, "%s:arity" % t, cf.file,
                                  "the inline form of %s is used for %s arguments, but the function accepts only %d..%d: "
                                  "the inline route accepts a call the function rejects" % (c.args[2].text(), bad, mn, mx))
                else:
                    chk.ok(rule, "%s: inline arities %s within %d..%d" % (t, sorted(acc), mn, mx))
        # the emitter's own needs: an argument addressed from the front (args[k]) and one addressed from the back
        # (janet_v_last) are different arguments only when there are more than k + 1 of them
        if dofn is not None and guard is not None and any("janet_v_last" in x.macro_names() for x in dofn.nodes):
            consts = [strip_casts(x.kids[1]).v for x in dofn.nodes if x.k == "sub" and is_ref(strip_casts(x.kids[0]), "args")
                      and strip_casts(x.kids[1]).v is not None]
            acc = accepted(guard)
            if consts and acc is not None:
                chk.instance(rule)
                need = max(consts) + 2
                low = sorted(n for n in acc if n < need)
                if low:
                    chk.violation(rule, "cfuns.c", guard, "%s:last-arg" % t, dofn.loc,
                                  "%s reads args[%d] and, separately, the last argument (janet_v_last); its guard %s lets calls with %s argument(s) "
                                  "through, for which those are the same slot: inline (apply f) pushes f as the argument list and raises, while the "
                                  "function itself calls f with no arguments" % (doname, max(consts), guard, low))
                else:
                    chk.ok(rule, "%s: guard %s admits only counts >= %d, where args[%d] and the last argument differ" % (t, guard, need, max(consts)))
        # opcode
        if dofn is not None and arr.k == "ref":
            init = ctu.ginit(arr.name)
            body_ops = set()
            if init is not None:
                for e in init.kids:
                    if e.v is not None:
                        body_ops.add(e.v & 0x7F)
            em = set()
            for x in dofn.nodes:
                if x.k == "call" and x.callee in ("opreduce", "opfunction", "genericSS", "genericSSI", "janetc_emit_s", "janetc_emit_ss",
                                                  "janetc_emit_sss", "janetc_emit_ssi", "janetc_emit_ssu", "janetc_emit_si"):
                    for a in x.args[1:4]:
                        nm = enum_name(a)
                        if isinstance(nm, str) and nm.startswith("JOP_"):
                            em.add(nm)
            # what a conditional branch tests: "is nil" or "is truthy".  The generic bodies spell the nil test as
            # LOAD_NIL r; EQUALS r r x; JUMP_IF r, the inline emitters as JUMP_IF_(NOT_)NIL x - the same class.
            inline_kinds = set()
            for o in em:
                if o in ("JOP_JUMP_IF_NIL", "JOP_JUMP_IF_NOT_NIL"):
                    inline_kinds.add("nil")
                elif o in ("JOP_JUMP_IF", "JOP_JUMP_IF_NOT"):
                    inline_kinds.add("truthy")
            if inline_kinds and init is not None:
                words = [e.v for e in init.kids if e.v is not None]
                E = prog.enums
                gen_kinds = set()
                for i, w in enumerate(words):
                    op = w & 0x7F
                    if op in (E.get("JOP_JUMP_IF_NIL"), E.get("JOP_JUMP_IF_NOT_NIL")):
                        gen_kinds.add("nil")
                    elif op in (E.get("JOP_JUMP_IF"), E.get("JOP_JUMP_IF_NOT")):
                        r = (w >> 8) & 0xFF
                        kind = "truthy"
                        for pw in reversed(words[:i]):
                            if ((pw >> 8) & 0xFF) != r:
                                continue
                            if (pw & 0x7F) == E.get("JOP_EQUALS"):
                                a, b = (pw >> 16) & 0xFF, (pw >> 24) & 0xFF
                                nils = set((x >> 8) & 0xFF for x in words[:i] if (x & 0x7F) == E.get("JOP_LOAD_NIL"))
                                if a in nils or b in nils:
                                    kind = "nil"
                            break
                        gen_kinds.add(kind)
                chk.instance(rule)
                if inline_kinds != gen_kinds:
                    chk.violation(rule, "cfuns.c", doname, "%s:branch" % t, dofn.loc,
                                  "inline %s branches on %s but the generic body %s branches on %s: the two routes disagree "
                                  "for false (truthy vs nil test)" % (doname, sorted(inline_kinds), arr.name, sorted(gen_kinds)))
                else:
                    chk.ok(rule, "%s: inline and generic both branch on %s" % (t, sorted(gen_kinds)))
            main = [o for o in em if o not in ("JOP_JUMP_IF_NOT_NIL", "JOP_JUMP_IF", "JOP_MOVE_NEAR", "JOP_LOAD_NIL", "JOP_JUMP")]
            chk.instance(rule)
            if body_ops and main and not any(prog.enums.get(o) in body_ops for o in main):
                chk.violation(rule, "cfuns.c", doname, "%s:opcode" % t, dofn.loc,
                              "inline %s emits %s but the generic body %s contains none of them" % (doname, sorted(main), arr.name))
            else:
                chk.ok(rule, "%s: inline %s, generic body contains it" % (t, sorted(main)))
    if nfix < 12:
        raise AnalysisBroken("only %d fixed-arity registrations" % nfix)

    _noops_rule(chk, prog)
    _movopt_rule(chk, prog)
    _jumppair_rule(chk, prog)
    _alias_rule(chk, prog)
    _order_rule(chk, prog)
    _unary_rule(chk, prog, boot)
    _spliceform_rule(chk, prog)
    _cmpnum_rule(chk, prog)
    _ownresult_rule(chk, prog)
    _neqdual_rule(chk, prog)
    # (= nil x) / (not= nil x) compiled inline by `if` / `while` must agree with the functions = and not=
    from rules.c02 import _nilfold_rule
    _nilfold_rule(chk, prog, rule="C15-NILFOLD")


def _jumppair_rule(chk, prog):
    """janetc_while compiles the loop test twice: `ifnjmp` leaves the loop when the condition fails, `ifjmp` (used when the
    loop is re-compiled as a self-calling function because its body creates closures) continues while it holds.  The
    nil-comparison fast paths replace both; on every path the two must stay each other's negation, or the two
    compilation routes of one loop test different things."""
    rule = "C15-JUMPPAIR"
    chk.rule(rule, "the 'continue' and 'exit' jump opcodes chosen for one loop condition are complementary on every path")
    COMPL = {"JOP_JUMP_IF": "JOP_JUMP_IF_NOT", "JOP_JUMP_IF_NOT": "JOP_JUMP_IF",
             "JOP_JUMP_IF_NIL": "JOP_JUMP_IF_NOT_NIL", "JOP_JUMP_IF_NOT_NIL": "JOP_JUMP_IF_NIL"}
    n = 0
    for fn in prog.tus["specials.c"].funcs.values():
        vars_ = [x.name for x in fn.nodes if x.k == "vardecl" and x.kids and is_ref(strip_casts(x.kids[0]))
                 and strip_casts(x.kids[0]).name in COMPL]
        if len(vars_) < 2:
            continue
        chk.analysed(fn)

        def transfer(st, x):
            tgt = val = None
            if x.k == "vardecl" and x.name in vars_ and x.kids:
                tgt, val = x.name, strip_casts(x.kids[0])
            elif x.k == "asg" and x.op == "=" and is_ref(x.kids[0]) and x.kids[0].name in vars_:
                tgt, val = x.kids[0].name, strip_casts(x.kids[1])
            if tgt:
                st = frozenset(f for f in st if f[0] != tgt)
                if is_ref(val) and val.name in COMPL:
                    st = st | {(tgt, val.name)}
            return st
        IN, OUT, T = flow.forward_paths(fn, frozenset(), transfer)
        uses = [c for c in fn.nodes if c.k == "call" and c.callee and c.callee.startswith("janetc_emit")
                and len(c.args) > 1 and is_ref(strip_casts(c.args[1])) and strip_casts(c.args[1]).name in vars_]
        for x, S in flow.states_at(fn, IN, T):
            if x not in uses:
                continue
            n += 1
            chk.instance(rule)
            bad = None
            for ps in S:
                d = dict(ps)
                if len(d) == 2:
                    a, b = [d[v] for v in vars_[:2]]
                    if COMPL.get(a) != b:
                        bad = (a, b)
            if bad:
                chk.violation(rule, "specials.c", fn.name, "/".join(vars_[:2]), x.loc,
                              "on some path `%s` is %s while `%s` is %s - not each other's negation: the plain loop and the loop "
                              "re-compiled for closures test different conditions (e.g. truthy instead of not-nil: false ends it)"
                              % (vars_[0], bad[0], vars_[1], bad[1]))
            else:
                chk.ok(rule, "%s: %s at %s complementary to its sibling on every path" % (fn.name, strip_casts(x.args[1]).name, x.loc))
    chk.floor(rule, 2, n)


def _alias_rule(chk, prog):
    """An inline emitter gets its result slot from janetc_gettarget(opts), which returns the HINT - for (set x ...) that
    is x's own register.  If the emitter writes the target and only afterwards reads further operands (variadic
    reduction, chained comparison, put), a target that is also one of those operands changes the operand under its
    feet: (set x (+ b x x)) must be b + x + x, as the call through the function value computes.  Obligation: every
    read of args[k] that can follow a write of the target is covered by a proof that the target does not alias
    args[k] - the target came from a no-alias helper whose scan starts at or below k, or janetc_sequal(target, args[k])
    was tested (do_get's idiom)."""
    rule = "C15-ALIAS"
    chk.rule(rule, "an inline emitter never reads an operand after writing a target that may be that operand")
    cf = prog.tus["cfuns.c"]
    EMITS = ("janetc_emit_s", "janetc_emit_ss", "janetc_emit_sss", "janetc_emit_si", "janetc_emit_su", "janetc_emit_ssi", "janetc_emit_ssu")
    # no-alias helpers: return janetc_gettarget's slot only after comparing it (janetc_sequal) with args[i], i from a parameter
    helpers = {}
    for fn in cf.funcs.values():
        ps = [p["n"] for p in fn.params]
        if fn.calls("janetc_gettarget") and fn.calls("janetc_sequal") and len(ps) >= 3:
            for x in fn.nodes:
                if x.k in ("vardecl", "asg") and x.k == "vardecl" and x.kids and is_ref(strip_casts(x.kids[0])) and strip_casts(x.kids[0]).name in ps \
                        and any(y.k == "sub" and is_ref(strip_casts(y.kids[1]), x.name) for c in fn.calls("janetc_sequal") for y in c.walk()):
                    helpers[fn.name] = ps.index(strip_casts(x.kids[0]).name)
    n = 0
    for fn in cf.funcs.values():
        if fn.name in helpers:
            continue
        ps = [p["n"] for p in fn.params]
        if "args" not in ps:
            continue
        targets = {}
        for x in fn.nodes:
            tgt = rhs = None
            if x.k == "vardecl" and x.kids:
                tgt, rhs = x.name, strip_casts(x.kids[0])
            elif x.k == "asg" and x.op == "=" and is_ref(x.kids[0]):
                tgt, rhs = x.kids[0].name, strip_casts(x.kids[1])
            if tgt and rhs is not None and rhs.k == "call":
                if rhs.callee == "janetc_gettarget":
                    targets.setdefault(tgt, set()).add(None)
                elif rhs.callee in helpers and len(rhs.args) > helpers[rhs.callee]:
                    targets.setdefault(tgt, set()).add(rhs.args[helpers[rhs.callee]].v)
        if not targets:
            continue
        chk.analysed(fn)
        # lower bounds of loop variables: smallest constant ever assigned
        lows = {}
        for x in fn.nodes:
            if x.k == "asg" and x.op == "=" and is_ref(x.kids[0]) and strip_casts(x.kids[1]).v is not None:
                lows[x.kids[0].name] = min(lows.get(x.kids[0].name, 1 << 30), strip_casts(x.kids[1]).v)
            if x.k == "vardecl" and x.kids and strip_casts(x.kids[0]).v is not None:
                lows[x.name] = min(lows.get(x.name, 1 << 30), strip_casts(x.kids[0]).v)

        def low_index(e):
            e = strip_casts(e)
            if e.v is not None:
                return e.v
            if is_ref(e) and e.name in lows:
                return lows[e.name]
            if e.k == "bin" and e.op in ("+", "-") and strip_casts(e.kids[1]).v is not None:
                b = low_index(e.kids[0])
                return None if b is None else (b + strip_casts(e.kids[1]).v if e.op == "+" else b - strip_casts(e.kids[1]).v)
            return None
        guarded = set()
        for c in fn.calls("janetc_sequal"):
            for a in c.args:
                a = strip_casts(a)
                if a.k == "sub" and is_ref(strip_casts(a.kids[0]), "args"):
                    guarded.add(a.text().replace(" ", ""))

        def writes_target(x):
            if x.k != "call":
                return None
            if x.callee in EMITS and len(x.args) > 2 and is_ref(strip_casts(x.args[2])) and strip_casts(x.args[2]).name in targets \
                    and x.args[-1].v != 0:
                return strip_casts(x.args[2]).name
            if x.callee == "janetc_copy" and len(x.args) > 1 and is_ref(strip_casts(x.args[1])) and strip_casts(x.args[1]).name in targets:
                return strip_casts(x.args[1]).name
            return None

        def arg_reads(x):
            out = []
            if x.k == "call" and (x.callee in EMITS or x.callee == "janetc_copy"):
                srcs = x.args[3:] if x.callee in EMITS else x.args[2:]
                for a in srcs:
                    a = strip_casts(a)
                    if a.k == "sub" and is_ref(strip_casts(a.kids[0]), "args"):
                        out.append(a)
            return out

        def transfer(st, x):
            # which definition of the target reaches (its no-alias scan start, or "plain")
            tgt = rhs = None
            if x.k == "vardecl" and x.kids:
                tgt, rhs = x.name, strip_casts(x.kids[0])
            elif x.k == "asg" and x.op == "=" and is_ref(x.kids[0]):
                tgt, rhs = x.kids[0].name, strip_casts(x.kids[1])
            if tgt in targets and rhs is not None and rhs.k == "call":
                st = frozenset(f for f in st if not (f[0] in ("def", "w") and f[1] == tgt))
                if rhs.callee == "janetc_gettarget":
                    st = st | {("def", tgt, "plain")}
                elif rhs.callee in helpers:
                    st = st | {("def", tgt, rhs.args[helpers[rhs.callee]].v)}
                return st
            if tgt is not None and rhs is not None and tgt not in targets:
                st = frozenset(f for f in st if not (f[0] in ("lo", "inc") and f[1] == tgt))
                if rhs.v is not None:
                    st = st | {("lo", tgt, rhs.v)}
                return st
            w = writes_target(x)
            if w:
                return st | {("w", w)}
            # a loop variable stepped after the first write: later reads see at least low + 1
            if x.k == "un" and x.op in ("pre++", "post++") and is_ref(x.kids[0]) and any(f[0] == "w" for f in st):
                return st | {("inc", x.kids[0].name)}
            return st
        IN, OUT, T = flow.forward_paths(fn, frozenset(), transfer)
        seen = set()
        for x, S in flow.states_at(fn, IN, T):
            for a in arg_reads(x):
                for t in sorted(targets):
                    paths = [ps for ps in S if ("w", t) in ps]
                    if not paths or (x.id, a.id, t) in seen:
                        continue
                    seen.add((x.id, a.id, t))
                    n += 1
                    chk.instance(rule)
                    ok = True
                    for ps in paths:
                        def low_here(e):
                            e = strip_casts(e)
                            if is_ref(e):
                                lo = [f[2] for f in ps if f[0] == "lo" and f[1] == e.name]
                                if not lo:
                                    return None
                                return min(lo) + (1 if ("inc", e.name) in ps else 0)
                            if e.k == "bin" and e.op in ("+", "-") and strip_casts(e.kids[1]).v is not None:
                                b = low_here(e.kids[0])
                                return None if b is None else (b + strip_casts(e.kids[1]).v if e.op == "+" else b - strip_casts(e.kids[1]).v)
                            return e.v
                        k = low_here(a.kids[1])
                        froms = [f[2] for f in ps if f[0] == "def" and f[1] == t]
                        good = a.text().replace(" ", "") in guarded or (
                            froms and k is not None and all(f != "plain" and f is not None and f <= k for f in froms))
                        if not good:
                            ok = False
                    if ok:
                        chk.ok(rule, "%s: %s read after `%s` was written - shown not to alias" % (fn.name, a.text(), t))
                    else:
                        chk.violation(rule, "cfuns.c", fn.name, "%s/%s" % (t, a.text().replace(" ", "")), x.loc,
                                      "`%s` reads %s after the target `%s` has been written, and `%s` may be the very slot of %s (the hint "
                                      "of a `set`): the inline code computes with the overwritten operand, the function call does not"
                                      % (x.text()[:60], a.text(), t, t, a.text()))
    chk.floor(rule, 3, n)


def _order_rule(chk, prog):
    """The inline reductions must apply their operands left to right exactly as the generic bodies do, because operator
    methods are not commutative (a table with :+ is asked for the left form, with :r+ for the right one).  In every
    instruction the reducers emit, the left operand is the part accumulated so far (args[0] at the start, the target
    afterwards) and the right operand - a slot or an immediate taken from it - is the NEXT argument."""
    rule = "C15-ORDER"
    chk.rule(rule, "inline reducers emit each binary instruction as (accumulated left part, next argument): an immediate is always taken from the right operand")
    cf = prog.tus["cfuns.c"]
    n = 0
    for name in ("opreduce", "compreduce"):
        fn = cf.funcs.get(name)
        if fn is None:
            raise AnalysisBroken("%s not found" % name)
        chk.analysed(fn)
        IN, T = flow.condition_facts(fn)

        def idx(e):
            e = strip_casts(e)
            if e.k == "sub" and is_ref(strip_casts(e.kids[0]), "args"):
                return strip_casts(e.kids[1]).text().replace(" ", "")
            return None
        for x, S in flow.states_at(fn, IN, T):
            if x.k != "call" or x.callee not in ("janetc_emit_ssi", "janetc_emit_sss") or len(x.args) < 6:
                continue
            left = strip_casts(x.args[3])
            lidx = idx(left)
            n += 1
            chk.instance(rule)
            if x.callee == "janetc_emit_sss":
                ridx = idx(x.args[4])
                good = ridx is not None and ((lidx is None and is_ref(left)) or (lidx == "0" and ridx == "1") or
                                             (lidx is not None and ridx == lidx.replace("-1", "") and lidx.endswith("-1")) or
                                             (left.k == "call" and left.callee == "janetc_cslot" and ridx == "0"))
                what = "right operand args[%s]" % ridx
            else:
                # the immediate: which argument was tested by can_slot_be_imm on this path?
                srcs = set()
                for ps in S:
                    for (op, l, r, toks, ln, rn) in ps:
                        if ln is not None and ln.k == "call" and ln.callee == "can_slot_be_imm" and op == "!=":
                            srcs.add(idx(ln.args[0]))
                if x.args[4].v is not None:
                    n -= 1
                    chk.rules[rule]["instances"] -= 1
                    continue        # literal immediate of a unary form (C15-VAROP compares those with the generic body)
                if lidx is None and is_ref(left):
                    # accumulator on the left: the immediate must come from a later argument
                    good = bool(srcs) and "0" not in srcs
                    ridx = "/".join(sorted(str(v) for v in srcs))
                else:
                    cands = [v for v in srcs if v is not None]
                    ridx = cands[0] if len(cands) == 1 else None
                    good = ridx is not None and ((lidx == "0" and ridx == "1") or
                                                 (lidx is not None and lidx.endswith("-1") and ridx == lidx[:-2]))
                what = "immediate from args[%s]" % ridx
            if good:
                chk.ok(rule, "%s: left %s, %s" % (name, left.text(), what))
            else:
                chk.violation(rule, "cfuns.c", name, "%s/%s" % (left.text().replace(" ", ""), what.replace(" ", "")), x.loc,
                              "`%s` combines left operand %s with %s: that is not (accumulated part, next argument) - the operands "
                              "are applied in a different order than the generic function applies them, so values with "
                              "non-commutative operator methods get a different result" % (x.text()[:70], left.text(), what))
    chk.floor(rule, 6, n)


def _noops_rule(chk, prog):
    rule = "C15-NOOPS"
    chk.rule(rule, "noop removal rewrites the jump field of exactly the JINT_L / JINT_SL opcodes, at their shift")
    from rules.c10 import instruction_types
    types, ops = instruction_types(prog)
    fn = prog.need_func("janet_bytecode_remove_noops", "bytecode.c")
    chk.analysed(fn)
    sw = [n for n in fn.nodes if n.k == "switch" and is_ref(strip_casts(n.kids[0]), "opcode")]
    if not sw:
        raise AnalysisBroken("remove_noops: switch on opcode not found")
    cm = case_map(sw[0])
    rew = {}
    for n in sw[0].walk():
        if n.k == "asg" and n.op == "+=" and is_ref(n.kids[0], "instr") and n.id in cm:
            sh = None
            for x in n.kids[1].walk():
                if x.k == "bin" and x.op == "<<" and x.kids[1].v in (8, 16):
                    sh = x.kids[1].v
            for lab in cm[n.id]:
                rew[lab] = sh
    want = {op: (8 if t == "JINT_L" else 16) for op, t in types.items() if t in ("JINT_L", "JINT_SL")}
    for op in sorted(set(want) | set(k for k in rew if k.startswith("JOP_"))):
        chk.instance(rule)
        if want.get(op) == rew.get(op):
            chk.ok(rule, "%s: jump field at shift %s rewritten" % (op, want.get(op)))
        elif op in want:
            chk.violation(rule, "bytecode.c", fn.name, op, fn.loc,
                          "%s has a jump field at shift %d (type %s) but noop removal %s: jumps over removed no-ops go astray" % (
                              op, want[op], types[op], "rewrites shift %s" % rew[op] if op in rew else "does not rewrite it"))
        else:
            chk.violation(rule, "bytecode.c", fn.name, op, fn.loc, "noop removal rewrites a jump field of %s, which has none" % op)
    # sourcemap moved with the bytecode
    chk.instance(rule)
    moved_bc = any(n.k == "asg" and n.kids[0].k == "sub" and is_mem(strip_casts(n.kids[0].kids[0]), "bytecode") for n in fn.nodes)
    moved_sm = any(n.k == "asg" and n.kids[0].k == "sub" and is_mem(strip_casts(n.kids[0].kids[0]), "sourcemap") for n in fn.nodes)
    if moved_bc and moved_sm:
        chk.ok(rule, "source map entries move with their instructions")
    else:
        chk.violation(rule, "bytecode.c", fn.name, "sourcemap", fn.loc, "instructions are compacted without moving their source map entries")


def _movopt_rule(chk, prog):
    rule = "C15-MOVOPT"
    chk.rule(rule, "dead-move elimination counts every slot a handler reads; only non-raising pure writes become no-ops")
    from jv.vm import VMHandlers
    from jv.summaries import Summaries
    fn = prog.need_func("janet_bytecode_movopt", "bytecode.c")
    chk.analysed(fn)
    sws = [n for n in fn.nodes if n.k == "switch"]
    if len(sws) < 2:
        raise AnalysisBroken("movopt: the two opcode switches not found")
    sws.sort(key=lambda n: n.ln)
    cm1, cm2 = case_map(sws[0]), case_map(sws[1])
    reads = {}
    for c in switch_cases(sws[0]):
        if c.k == "case":
            reads.setdefault(case_name(c), set())
    for n in sws[0].walk():
        if n.k == "call" and n.callee == "janetc_regalloc_touch" and n.id in cm1:
            letter = None
            for m in n.args[1].macro_names():
                if m in ("AA", "BB", "CC", "DD", "EE"):
                    letter = m[0]
            for lab in cm1[n.id]:
                if lab.startswith("JOP_"):
                    reads.setdefault(lab, set()).add(letter)
    ops = prog.enumtypes["JanetOpCode"]
    ops = [o for o in ops if o != "JOP_INSTRUCTION_COUNT"]
    # interpreter reads
    full = Program.load("default")
    S = Summaries(full)
    vm = VMHandlers(full)
    vfn = vm.fn
    dispatch = vfn.igoto

    def ptransfer(st, n):
        if n.k == "call" and n.callee == "janet_fiber_popframe":
            return frozenset(["popped"])
        return st
    popped = set()
    for e in vm.handler_entry_blocks().values():
        I, O = flow.forward(vfn, frozenset(), ptransfer, lambda a, b: a | b,
                            edge=lambda st, blk, succ, c, t: None if succ == dispatch else st, start=e)
        for b, st in I.items():
            for x in vfn.blocks[b].elems:
                if st:
                    popped.add(x.id)
                st = ptransfer(st, x)
    hreads = {}
    for n in vfn.nodes:
        if n.k == "sub" and is_ref(strip_casts(n.kids[0]), "stack"):
            h = vm.handler_of(n)
            if not h or not h.startswith("label_JOP_") or n.id in popped:
                continue
            letter = None
            for m in n.kids[1].macro_names():
                if m in ("A", "B", "C", "D", "E"):
                    letter = m
                    break
            if letter is None:
                continue
            p = n.parent
            is_write = p is not None and p.k == "asg" and p.op == "=" and p.kids[0] is n
            if not is_write:
                hreads.setdefault(h[len("label_"):], set()).add(letter)
    COVER = {"A": ("A", "D"), "B": ("B", "E"), "C": ("C", "E"), "D": ("D",), "E": ("E",)}
    for op in ops:
        chk.instance(rule)
        if op not in reads:
            chk.violation(rule, "bytecode.c", fn.name, "%s:unlisted" % op, fn.loc,
                          "opcode %s is not named in movopt's read/write classification (its default arm aborts)" % op)
            continue
        miss = sorted(l for l in hreads.get(op, ()) if not any(c in reads[op] for c in COVER[l]))
        if miss:
            chk.violation(rule, "bytecode.c", fn.name, "%s:reads" % op, fn.loc,
                          "the interpreter's handler of %s reads stack[%s], but dead-move elimination counts only %s as read for "
                          "it: the move that feeds that operand can be deleted" % (op, ",".join(miss), sorted(reads[op]) or "nothing"))
        else:
            chk.ok(rule, "%s: handler reads %s, movopt counts %s" % (op, sorted(hreads.get(op, ())), sorted(reads[op])))
    # removable opcodes
    removable = set()
    for n in sws[1].walk():
        if n.k == "asg" and n.kids[0].k == "sub" and is_mem(strip_casts(n.kids[0].kids[0]), "bytecode") and n.id in cm2:
            for lab in cm2[n.id]:
                if lab.startswith("JOP_"):
                    removable.add(lab)
    if len(removable) < 8:
        raise AnalysisBroken("movopt: only %d removable opcodes found" % len(removable))
    for op in sorted(removable):
        chk.instance(rule)
        h = "label_" + op
        calls = [x for x in vfn.nodes if vm.handler_of(x) == h and x.k == "call" and S.call_in(vfn, x, S.may_panic)]
        # vm_assert-style raises inside the handler
        # vm_assert(...) checks the instruction's own operands (bytecode sanity, not reachable from compiled
        # source); value-dependent raises (type errors, janet_getindex ...) are what matters here
        raises = [x for x in vfn.nodes if vm.handler_of(x) == h and x.k == "call" and x.callee and full.is_noreturn(x.callee)
                  and not x.in_macro("vm_assert")]
        calls = [x for x in calls if not x.in_macro("vm_assert")]
        if calls or raises:
            what = (calls + raises)[0]
            chk.violation(rule, "bytecode.c", fn.name, "%s:removable" % op, what.loc,
                          "movopt may delete %s when its result is unused, but its handler can raise (%s): the error the source "
                          "program should produce disappears" % (op, what.text()[:50]))
        else:
            chk.ok(rule, "%s is a pure, non-raising write: safe to delete when unused" % op)


def _unary_rule(chk, prog, boot):
    """The one-argument form of a variadic operator is `identity op x` - except where the compiler's inlined form
    (opreduce) special-cases an opcode: (- x) is emitted as x * -1.  The generic body built by templatize_varop is what
    apply, splices and first-class use run, so it must make the same exception with the same instruction, otherwise the
    two routes disagree (the sign of zero, which method a table or abstract operand receives, error cases)."""
    rule = "C15-UNARY"
    chk.rule(rule, "the compiler's one-argument special cases of variadic operators are mirrored, with the same instruction, in the generic function bodies")

    def special_cases(fn, emit_pred):
        out = {}
        for x in fn.nodes:
            if x.k != "if" or not x.kids or x.kids[0] is None:
                continue
            c = strip_casts(x.kids[0])
            if c.k == "bin" and c.op == "==" and is_ref(strip_casts(c.kids[0]), "op"):
                opname = enum_name(c.kids[1])
                if not opname:
                    continue
                used = set()
                for y in x.kids[1].walk():
                    if emit_pred(y):
                        for z in y.walk():
                            nm = enum_name(z) if z.k == "ref" else None
                            if nm and nm.startswith("JOP_"):
                                used.add(nm)
                if used:
                    out[opname] = used
        return out
    opr = prog.need_func("opreduce", prog.tus["cfuns.c"])
    tv = boot.need_func("templatize_varop", boot.tus["corelib.c"])
    chk.analysed(opr)
    chk.analysed(tv)
    inline = special_cases(opr, lambda y: y.k == "call" and (y.callee or "").startswith("janetc_emit"))
    generic = special_cases(tv, lambda y: y.k == "asg")
    if not inline:
        raise AnalysisBroken("opreduce: no one-argument special case found (the (- x) -> x * -1 case was confirmed by hand)")
    for opname in sorted(set(inline) | set(generic)):
        chk.instance(rule)
        a, b = inline.get(opname, set()), generic.get(opname, set())
        if a == b:
            chk.ok(rule, "%s: inline and generic one-argument forms both use %s" % (opname, ", ".join(sorted(a))))
        else:
            chk.violation(rule, "corelib.c" if a else "cfuns.c", "templatize_varop" if a else "opreduce", "unary:%s" % opname,
                          (tv if a else opr).loc,
                          "the one-argument form of %s is special-cased %s (%s) but %s (%s): (op x) computed inline and through apply / a "
                          "first-class call differ - for `-`: (/ 1 (- 0)) is -inf inline and inf through apply" % (
                              opname, "by the compiler" if a else "in the generic body", ", ".join(sorted(a or b)),
                              "the generic body does not use the same instruction" if a else "the compiler does not",
                              ", ".join(sorted(b or a)) or "identity op x"))


def _spliceform_rule(chk, prog):
    """The compiler turns some calls into jumps without calling anything: `(= nil x)` / `(not= nil x)` in an if / while
    condition, recognised by the shape of the form (three elements, a tagged function value in front).  A form element
    `;xs` is one element of the tuple but any number of arguments of the call, so a shape match that does not look for
    splices recognises calls it must not touch."""
    rule = "C15-SPLICEFORM"
    chk.rule(rule, "a compiler fast path that recognises a call by the shape of its form leaves bracketed tuples and forms with a spliced operand alone")
    n = 0
    for fn in prog.tus["specials.c"].funcs.values():
        lens = [x for x in fn.nodes if x.k == "bin" and x.op in ("==", "!=") and any("janet_tuple_length" in y.macro_names() for y in x.walk())
                and any(strip_casts(k).v is not None for k in x.kids)]
        tags = [x for x in fn.nodes if x.k == "mem" and x.field == "flags" and x.rec == "JanetFuncDef"]
        caps = [x for x in fn.nodes if x.k == "asg" and x.op == "=" and x.kids[0].k == "un" and x.kids[0].op == "*" and strip_casts(x.kids[1]).k == "sub"]
        if not (lens and tags and caps):
            continue
        n += 1
        chk.instance(rule)
        chk.analysed(fn)
        # a bracketed tuple [f a b] is a tuple constructor, not a call: the form is a call only without that flag
        brk = any("JANET_TUPLE_FLAG_BRACKETCTOR" in x.macro_names() for x in fn.nodes)
        if not brk:
            chk.violation(rule, "specials.c", fn.name, "bracket-form", lens[0].loc,
                          "%s recognises a call by the shape of the tuple but never looks at JANET_TUPLE_FLAG_BRACKETCTOR: a bracketed "
                          "tuple [<=> nil x], which constructs a (truthy) tuple, is compiled as the nil test - (if [,= nil 1] :a :b) "
                          "gives :b although the same tuple built by (tuple = nil 1) gives :a" % fn.name)
        elif any("splice" in x.text() for x in fn.nodes if x.k in ("str", "call")):
            chk.ok(rule, "%s: matches a call form by length, excludes bracketed tuples and spliced operands" % fn.name)
        else:
            chk.violation(rule, "specials.c", fn.name, "shape-match", lens[0].loc,
                          "%s recognises a call by `%s` and the function in front, and captures an operand, without looking for a `splice` "
                          "operand: (if (<=> nil ;[]) ...) written with the function value is compiled as a nil test of the splice form "
                          "itself, while the same call through the function gives the result for the spliced arguments" % (fn.name, lens[0].text()[:40]))
    chk.floor(rule, 1, n)


def _cmpnum_rule(chk, prog):
    """< <= > >= on two numbers are IEEE comparisons: false whenever an operand is NaN.  janet_compare is a TOTAL order
    for sorting (NaN is placed somewhere), so an ordering instruction may fall back to it only for operands that are not
    both numbers.  Every ordering instruction - the register forms and the immediate forms alike - has to keep the
    numeric path in front of janet_compare, or the inline form and the function disagree on NaN."""
    from jv.vm import VMHandlers
    rule = "C15-CMPNUM"
    chk.rule(rule, "every ordering instruction reaches janet_compare only for operands that failed the both-are-numbers test (NaN stays unordered)")
    vm = VMHandlers(prog)
    n = 0
    ORDER = ("LESS_THAN", "GREATER_THAN", "LESS_THAN_EQUAL", "GREATER_THAN_EQUAL", "LESS_THAN_IMMEDIATE", "GREATER_THAN_IMMEDIATE")
    seen = set()
    for x in vm.fn.nodes:
        h = vm.handler_of(x) or ""
        op = h.replace("label_JOP_", "")
        if op not in ORDER or not (x.k == "call" and x.callee == "janet_compare"):
            continue
        n += 1
        seen.add(op)
        chk.instance(rule)
        guarded = False
        child = x
        for a in x.ancestors():
            if a.k == "if" and len(a.kids) >= 3 and a.kids[2] is not None and any(y is child for y in [a.kids[2]] + list(a.kids[2].walk())):
                if any("JANET_NUMBER" in y.text() for y in a.kids[0].walk() if y.k in ("ref", "call", "bin")):
                    guarded = True
            child = a
        if guarded:
            chk.ok(rule, "%s: janet_compare only in the not-both-numbers branch" % op)
        else:
            chk.violation(rule, "vm.c", "run_vm", "%s:compare" % op, x.loc,
                          "in %s `%s` is not confined to the branch where the operands failed the number test: with a NaN operand the "
                          "instruction answers by janet_compare's total order (NaN > every number) while the other forms of the same "
                          "comparison answer false" % (op, x.text()[:50]))
    missing = [o for o in ORDER if o not in seen]
    if missing:
        raise AnalysisBroken("ordering instructions without janet_compare fallback not recognised: %s" % missing)


def _ownresult_rule(chk, prog):
    """The slot an inline emitter returns is the VALUE of the call.  The function route hands back a value that later
    assignments to some variable cannot change; the inline route does the same only if its result lives in a slot of
    its own (a fresh target, a constant).  Returning an argument's slot aliases the result to a named binding: in
    [(put x :a 1) (set x 2)] the first element then changes when the second one runs."""
    rule = "C15-OWNRESULT"
    chk.rule(rule, "no inline emitter of cfuns.c returns one of its argument slots (args[k]) as the value of the call")
    cf = prog.tus["cfuns.c"]
    n = 0
    for fn in cf.funcs.values():
        ps = [p["n"] for p in fn.params]
        if not fn.name.startswith("do_") or "args" not in ps:
            continue
        n += 1
        chk.instance(rule)
        chk.analysed(fn)
        bad = [r for r in fn.nodes if r.k == "return" and r.kids and strip_casts(r.kids[0]).k == "sub"
               and is_ref(strip_casts(strip_casts(r.kids[0]).kids[0]), "args")]
        if bad:
            chk.violation(rule, "cfuns.c", fn.name, "return-arg", bad[0].loc,
                          "%s returns `%s`, the slot of one of its arguments, as the value of the call: when that argument is a var, a later "
                          "sibling expression that assigns it changes the value this call already produced - the inline route and the "
                          "function route disagree" % (fn.name, bad[0].kids[0].text()))
        else:
            chk.ok(rule, "%s returns a slot of its own" % fn.name)
    chk.floor(rule, 25, n)


def _neqdual_rule(chk, prog):
    """(not= x K) with a small integer literal is compiled to its own opcode.  Whatever (= x K) answers, it must answer
    the opposite - for every x, numbers or not.  The two handlers are each one boolean expression over the same two
    facts (x is a number; its value equals the literal); the second has to be the exact complement of the first
    (De Morgan: the negated type test, the dual connective, the dual comparison)."""
    from jv.vm import VMHandlers
    rule = "C15-NEQDUAL"
    chk.rule(rule, "the handler of JOP_NOT_EQUALS_IMMEDIATE computes the exact complement of the handler of JOP_EQUALS_IMMEDIATE")
    vm = VMHandlers(prog)
    shapes = {}
    for x in vm.fn.nodes:
        h = vm.handler_of(x)
        if h not in ("label_JOP_EQUALS_IMMEDIATE", "label_JOP_NOT_EQUALS_IMMEDIATE"):
            continue
        if x.k == "bin" and x.op in ("&&", "||") and not (x.parent is not None and x.parent.k == "bin" and x.parent.op in ("&&", "||")):
            cmps = [y for y in x.kids[1].walk() if y.k == "bin" and y.op in ("==", "!=") and any((z.t or "") == "double" for z in y.kids)]
            if not cmps:
                continue
            l = x.kids[0]
            while l.k in ("paren", "cast") and l.kids:
                l = l.kids[0]
            neg = l.k == "un" and l.op == "!"
            # keep the outermost such expression of the handler
            cur = shapes.get(h)
            if cur is None or len(list(x.walk())) > cur[3]:
                shapes[h] = (neg, x.op, cmps[0].op, len(list(x.walk())), x)
    if len(shapes) < 2:
        raise AnalysisBroken("run_vm: the handlers of the (not-)equals-immediate opcodes were not recognised (%s)" % sorted(shapes))
    chk.instance(rule)
    chk.analysed(vm.fn)
    eq, ne = shapes["label_JOP_EQUALS_IMMEDIATE"], shapes["label_JOP_NOT_EQUALS_IMMEDIATE"]
    want = (not eq[0], "||" if eq[1] == "&&" else "&&", "!=" if eq[2] == "==" else "==")
    if ne[:3] == want:
        chk.ok(rule, "equals: %s number %s value %s literal; not-equals is its complement" % ("not a" if eq[0] else "a", eq[1], eq[2]))
    else:
        chk.violation(rule, "vm.c", "run_vm", "JOP_NOT_EQUALS_IMMEDIATE", ne[4].loc,
                      "JOP_EQUALS_IMMEDIATE computes (%snumber %s value %s literal) but JOP_NOT_EQUALS_IMMEDIATE computes (%snumber %s value %s literal), "
                      "which is not its complement: for an operand that is not a number both answer false, so inline (not= nil 0) is false while "
                      "the function form is true" % ("not " if eq[0] else "", eq[1], eq[2], "not " if ne[0] else "", ne[1], ne[2]))
    chk.floor(rule, 1)
