"""C06 - channels conserve values, keep order, respect capacity and lose no wakeups: structural clauses.

C06-NOLOSTWAKE  a waiter popped from a channel's pending queue is woken, unless it is stale or cannot be resumed
C06-SCHED       a stale waiter is never handed an item / woken (R-SCHED on the channel sites, shared with C07)
C06-QUEUE       the ring-buffer fields of JanetQueue are written only by the janet_q_* primitives
"""
from jv import flow
from jv.facts import Program, AnalysisBroken
from jv.util import is_ref, is_mem, strip_casts
from rules import sched

EXPLANATION = (
    "Static typestate rules on ev.c's channel code: a pending reader/writer record taken out of a queue by a "
    "successful janet_q_pop must, on every CFG path, reach a wake-up (janet_schedule*/janet_cancel, or a message "
    "posted to its thread that carries its fiber) before it is overwritten or the function returns, unless the path "
    "established that it is stale (generation mismatch) or not resumable; the converse staleness rule R-SCHED; and "
    "who-may-write of the queue indices.  Decides 'no popped live waiter is silently dropped' and 'no stale waiter is "
    "served'; capacity arithmetic, FIFO order and exactly-one select result are value/history-level and not decided.")
ASSUMPTIONS = ["default Linux configuration", "limit comparisons (capacity) are not decided"]

PENDING_FIELDS = ("read_pending", "write_pending")
WAKES = ("janet_schedule", "janet_schedule_signal", "janet_schedule_soon", "janet_cancel")


def _pop_target(call):
    """(queue field, record var) of janet_q_pop(&X->read_pending, &V, ...) or None"""
    if call.k != "call" or call.callee != "janet_q_pop" or len(call.args) < 2:
        return None
    q = strip_casts(call.args[0])
    v = strip_casts(call.args[1])
    if q.k == "un" and q.op == "&":
        q = strip_casts(q.kids[0])
    if v.k == "un" and v.op == "&":
        v = strip_casts(v.kids[0])
    if q.k == "mem" and q.field in PENDING_FIELDS and v.k == "ref":
        return (q.field, v.name)
    return None


def _nolostwake_rule(chk, prog):
    rule = "C06-NOLOSTWAKE"
    chk.rule(rule, "a waiter popped from read_pending/write_pending is woken unless stale or not resumable")
    tu = prog.tus["ev.c"]
    npops = 0
    for fn in tu.funcs.values():
        pops = [(c, _pop_target(c)) for c in fn.calls("janet_q_pop") if _pop_target(c)]
        if not pops:
            continue
        chk.analysed(fn)
        popids = {c.id: t for c, t in pops}
        npops += len(pops)

        def fiber_of(e):
            e = strip_casts(e)
            if e.k == "mem" and e.field == "fiber" and is_ref(strip_casts(e.kids[0])):
                return strip_casts(e.kids[0]).name
            return None

        def transfer(facts, n):
            if n.id in popids:
                # result not yet known: remember that the next test of this call / its flag decides
                return facts | frozenset([("lastpop", popids[n.id][1], n.id)])
            if n.k == "call" and n.callee in WAKES and n.args:
                v = fiber_of(n.args[0])
                if v:
                    return frozenset(f for f in facts if not (f[0] == "popped" and f[1] == v))
            if n.k == "call" and ((n.callee == "janet_ev_post_event" and len(n.args) >= 3) or (n.callee == "janet_chan_post" and len(n.args) == 2)):
                # (janet_chan_post(vm, msg): the hand-off to janet_thread_chan_cb, posted at once or after the last unlock)
                m = strip_casts(n.args[-1])
                if m.k == "ref":
                    srcs = [f[2] for f in facts if f[0] == "msgfrom" and f[1] == m.name]
                    return frozenset(f for f in facts if not (f[0] == "popped" and f[1] in srcs))
            if n.k == "asg" and n.op == "=":
                l = n.kids[0]
                # msg.fiber = reader.fiber
                if l.k == "mem" and l.field == "fiber" and is_ref(strip_casts(l.kids[0])):
                    v = fiber_of(n.kids[1])
                    if v:
                        return facts | frozenset([("msgfrom", strip_casts(l.kids[0]).name, v)])
                # is_empty = janet_q_pop(...)
                if is_ref(l) and strip_casts(n.kids[1]).k == "call" and strip_casts(n.kids[1]).id in popids:
                    v = popids[strip_casts(n.kids[1]).id][1]
                    return frozenset(f for f in facts if not (f[0] == "flag" and f[1] == l.name)) | frozenset([("flag", l.name, v)])
            if n.k == "vardecl" and n.kids and strip_casts(n.kids[0]).k == "call" and strip_casts(n.kids[0]).id in popids:
                v = popids[strip_casts(n.kids[0]).id][1]
                return facts | frozenset([("flag", n.name, v)])
            return facts

        def edge(facts, blk, succ, cond, truth):
            if cond is None:
                return facts
            c = flow.compare_of(cond, truth)
            if c is None:
                return facts
            l = strip_casts(c[0])
            zero = (c[2] is None or strip_casts(c[2]).v == 0)
            # direct test of the pop call
            if l.k == "call" and l.id in popids and zero:
                v = popids[l.id][1]
                if c[1] == "==":
                    return frozenset(f for f in facts if not (f[0] in ("stale", "dead") and f[1] == v)) | frozenset([("popped", v, l.id)])
                return facts
            if l.k == "ref" and zero:
                for f in facts:
                    if f[0] == "flag" and f[1] == l.name:
                        if c[1] == "==":
                            return frozenset(x for x in facts if not (x[0] in ("stale", "dead") and x[1] == f[2])) | frozenset([("popped", f[2], 0)])
                        return frozenset(x for x in facts if not (x[0] == "popped" and x[1] == f[2]))
            # staleness / resumability
            if l.k == "call" and l.callee == "janet_fiber_can_resume" and zero and c[1] == "==":
                v = fiber_of(l.args[0])
                if v:
                    return facts | frozenset([("dead", v)])
            if c[2] is not None and c[1] == "!=":
                for a, b in ((c[0], c[2]), (c[2], c[0])):
                    a2 = strip_casts(a)
                    if a2.k == "mem" and a2.field == "sched_id" and a2.d.get("arrow"):
                        v = fiber_of(a2.kids[0])
                        if v:
                            return facts | frozenset([("stale", v)])
            # thread != &janet_vm : the waiter lives in another VM and is notified by message (handled on that arm)
            return facts

        IN, OUT, T = flow.forward_paths(fn, frozenset(), transfer, edge)
        reported = set()

        def pending(s, v):
            return any(f[0] == "popped" and f[1] == v for f in s) and not any(f[0] in ("stale", "dead") and f[1] == v for f in s)

        for b, S in IN.items():
            blk = fn.blocks[b]
            for n in blk.elems:
                if n.id in popids:
                    v = popids[n.id][1]
                    if any(pending(s, v) for s in S) and (v, "overwrite") not in reported:
                        reported.add((v, "overwrite"))
                        chk.violation(rule, "ev.c", fn.name, "%s:overwritten" % v, n.loc,
                                      "the pending record `%s` is popped again although the previously popped waiter was neither "
                                      "woken nor found stale/unresumable on some path: that waiter sleeps forever" % v)
                if n.k == "return" or (n.k == "call" and n.callee and prog.is_noreturn(n.callee) and n.callee not in ("abort", "exit")):
                    for s in S:
                        for f in s:
                            if f[0] == "popped" and pending(s, f[1]) and (f[1], n.id) not in reported:
                                reported.add((f[1], n.id))
                                chk.violation(rule, "ev.c", fn.name, "%s:dropped" % f[1], n.loc,
                                              "the function leaves through `%s` with the popped waiter `%s` neither woken nor "
                                              "established stale/unresumable: a lost wake-up" % (n.text()[:40], f[1]))
                S = T(S, n)
            if fn.exit in blk.succs and not blk.noreturn and not any(e.k == "return" for e in blk.elems):
                for s in S:
                    for f in s:
                        if f[0] == "popped" and pending(s, f[1]) and (f[1], "end") not in reported:
                            reported.add((f[1], "end"))
                            chk.violation(rule, "ev.c", fn.name, "%s:dropped" % f[1], fn.loc,
                                          "the function ends with the popped waiter `%s` neither woken nor established "
                                          "stale/unresumable: a lost wake-up" % f[1])
        for c, t in pops:
            chk.instance(rule)
            if not any(r[0] == t[1] for r in reported):
                chk.ok(rule, "%s: waiter popped from %s into %s is woken or stale on every path" % (fn.name, t[0], t[1]))
    if npops < 6:
        raise AnalysisBroken("only %d pops of pending queues found" % npops)


def _sched_rule(chk, prog):
    rule = "C06-SCHED"
    chk.rule(rule, "channel code resumes a queued waiter only after comparing its saved generation (R-SCHED, channel sites)")
    tu = prog.tus["ev.c"]
    n = 0
    for fn in tu.funcs.values():
        res = [r for r in sched.analyse(fn) if r[6] == "JanetChannelPending" or fn.name == "janet_thread_chan_cb"]
        for (node, key, rv, ok, how, canres, rtype) in res:
            n += 1
            chk.instance(rule)
            chk.analysed(fn)
            if ok:
                chk.ok(rule, "%s: %s(%s)" % (fn.name, node.callee, key))
            else:
                chk.violation(rule, "ev.c", fn.name, key, node.loc,
                              "%s(%s, ...) serves a waiter taken from a pending queue without the sched_id comparison: a "
                              "stale reader would consume the item" % (node.callee, key))
    if n < 8:
        raise AnalysisBroken("only %d channel wake sites found" % n)


def _queue_rule(chk, prog):
    rule = "C06-QUEUE"
    chk.rule(rule, "JanetQueue.{head,tail,capacity,data} are written only by the janet_q_* primitives")
    n = 0
    for fn in prog.all_funcs():
        for x in fn.nodes:
            tgt = None
            if x.k == "asg":
                tgt = x.kids[0]
            elif x.k == "un" and x.op in ("pre++", "post++", "pre--", "post--"):
                tgt = x.kids[0]
            if tgt is not None and tgt.k == "mem" and tgt.rec == "JanetQueue" and tgt.field in ("head", "tail", "capacity", "data"):
                n += 1
                chk.instance(rule)
                if fn.name.startswith("janet_q_"):
                    chk.ok(rule, "%s writes %s" % (fn.name, tgt.field))
                else:
                    chk.violation(rule, fn.tu.name, fn.name, "JanetQueue.%s" % tgt.field, x.loc,
                                  "`%s` manipulates the ring buffer outside the janet_q_* primitives" % x.text()[:60])
    if n < 8:
        raise AnalysisBroken("only %d queue field writes found" % n)


def _select_rule(chk, prog):
    rule = "C06-SELECT"
    chk.rule(rule, "ev/select's immediate pass performs an operation only on a clause it found ready; waiting clauses are registered in a later pass")
    fn = prog.need_func("cfun_channel_choice", "ev.c")
    chk.analysed(fn)
    loops = [n for n in fn.nodes if n.k == "for"]
    n = 0
    for lp in loops:
        body = lp.kids[3]
        rets = [x for x in body.walk() if x.k == "return"]
        ops = [x for x in body.walk() if x.k == "call" and (x.callee or "").endswith("_with_lock")]
        if not ops:
            continue
        for op in ops:
            n += 1
            chk.instance(rule)
            if not rets:
                chk.ok(rule, "registration pass: %s without early result" % op.callee)
                continue
            # immediate pass: the operation must sit under a readiness test of the channel's queue
            guarded = False
            for a in op.ancestors():
                if a is lp:
                    break
                if a.k == "if":
                    cond = a.kids[0]
                    if any(x.k == "mem" and x.field in ("items", "limit", "head", "tail") for x in cond.walk()):
                        guarded = True
            if guarded:
                chk.ok(rule, "immediate pass: %s only when the clause is ready" % op.callee)
            else:
                chk.violation(rule, "ev.c", fn.name, op.callee, op.loc,
                              "in the pass that can return a result at once, %s is called without first testing that the "
                              "clause is ready: a clause that is not ready registers this fiber on its channel, and a later "
                              "clause completing leaves that registration behind as a live-looking waiter" % op.callee)
    if n < 2:
        raise AnalysisBroken("cfun_channel_choice: only %d channel operations found" % n)
    # an operation started for a clause may complete on the spot (a give meets a parked taker on an unbuffered channel,
    # a take finds an item): then nothing will ever wake the selecting fiber for it.  So a *_with_lock call whose result
    # is not looked at must not be followed by janet_await.
    ops = [x for x in fn.nodes if x.k == "call" and (x.callee or "").endswith("_with_lock")]

    conds = [c.kids[0] for c in fn.nodes if c.k in ("if", "cond", "while") and c.kids and c.kids[0] is not None]

    def in_condition(x):
        p_ = x.parent
        while p_ is not None and p_.k in ("un", "cast", "bin"):
            x, p_ = p_, p_.parent
        if p_ is not None and p_.k in ("if", "cond", "while", "for", "do") and p_.kids[0] is x:
            return True
        # `int status = op(...); if (status) ...`: the result is kept in a local that a later condition tests
        var = None
        if p_ is not None and p_.k == "vardecl":
            var = p_.name
        elif p_ is not None and p_.k == "asg" and p_.op == "=" and is_ref(p_.kids[0]) and p_.kids[1] is x:
            var = p_.kids[0].name
        if var:
            return any(is_ref(y, var) for c in conds if (c.ln, c.d.get("col", 0)) > (x.ln, x.d.get("col", 0)) for y in c.walk())
        return False

    def transfer(st, x):
        if x.k == "call" and (x.callee or "").endswith("_with_lock"):
            return st | {x.id} if not in_condition(x) else st
        return st
    IN, OUT = flow.forward(fn, frozenset(), transfer, lambda a, b: a | b)
    byid = dict((x.id, x) for x in ops)
    flagged = set()
    for x, st in flow.states_at(fn, IN, transfer):
        if x.k == "call" and x.callee == "janet_await":
            flagged |= set(st)
    for op in ops:
        chk.instance(rule)
        if op.id in flagged:
            chk.violation(rule, "ev.c", fn.name, "%s:result" % op.callee, op.loc,
                          "the result of %s is ignored and janet_await() is reached afterwards: when the operation completes on the "
                          "spot (a give handed straight to a parked taker), the selecting fiber suspends although no registration "
                          "remains that could wake it" % op.callee)
        else:
            chk.ok(rule, "%s at %s: result consumed (or the function returns) before any await" % (op.callee, op.loc))


def _wakepass_rule(chk, prog):
    """A giver that had to block has ALREADY put its item into the queue; it is parked only to be told when the item
    was taken.  So every take that removes an item must look at write_pending and wake one giver - whatever the
    remaining fill level - and every give must look at read_pending before queueing (a parked taker means the
    queue is empty and the value goes straight to it).  Must-pass-through on the CFG of the two primitives."""
    rule = "C06-WAKEPASS"
    chk.rule(rule, "a take that dequeued an item always goes on to pop write_pending; a give pops read_pending before it enqueues")
    tu = prog.tus["ev.c"]

    def qcall(x, fn_names, field):
        return (x.k == "call" and x.callee in fn_names and x.args
                and any(y.k == "mem" and y.field == field and y.rec == "JanetChannel" for y in x.args[0].walk()))

    # --- take
    fn = tu.funcs.get("janet_channel_pop_with_lock")
    if fn is None:
        raise AnalysisBroken("janet_channel_pop_with_lock not found")
    chk.analysed(fn)

    def t_pop(st, x):
        if qcall(x, ("janet_q_pop",), "write_pending"):
            return st | {"tried"}
        return st

    def e_pop(st, blk, succ, cond, truth):
        c, t = flow.strip_not(flow.strip_expect(cond), truth)
        if c is not None and qcall(c, ("janet_q_pop",), "items"):
            return st | {"took"} if not t else st | {"empty"}
        return st
    IN, OUT, T = flow.forward_paths(fn, frozenset(), t_pop, edge=e_pop)
    n = 0
    for b, kind in flow.exits(fn):
        if kind != "return" or b.id not in OUT:
            continue
        n += 1
        chk.instance(rule)
        bad = [ps for ps in OUT[b.id] if "took" in ps and "tried" not in ps]
        last = b.elems[-1] if b.elems else None
        if bad:
            chk.violation(rule, "ev.c", fn.name, "return-without-wake", last.loc if last is not None else fn.loc,
                          "janet_channel_pop_with_lock can return after removing an item without looking at write_pending: the giver "
                          "whose value was just taken (its item is already in the queue) stays suspended forever")
        else:
            chk.ok(rule, "%s: return at %s only after the giver queue was consulted (or nothing was taken)" % (fn.name, last.loc if last is not None else "?"))
    if not any("took" in ps for S in OUT.values() for ps in S):
        raise AnalysisBroken("janet_channel_pop_with_lock: the dequeue from channel->items was not recognised")
    # --- give
    fn = tu.funcs.get("janet_channel_push_with_lock")
    if fn is None:
        raise AnalysisBroken("janet_channel_push_with_lock not found")
    chk.analysed(fn)

    def t_push(st, x):
        if qcall(x, ("janet_q_pop",), "read_pending"):
            return st | {"tried"}
        return st
    IN, OUT, T = flow.forward_paths(fn, frozenset(), t_push)
    m = 0
    for x, S in flow.states_at(fn, IN, T):
        if qcall(x, ("janet_q_push",), "items"):
            m += 1
            chk.instance(rule)
            if all("tried" in ps for ps in S):
                chk.ok(rule, "%s: items are queued only after read_pending was consulted" % fn.name)
            else:
                chk.violation(rule, "ev.c", fn.name, "enqueue-before-readers", x.loc,
                              "janet_channel_push_with_lock queues the value without first popping read_pending: a taker parked on the "
                              "empty channel is not handed the value and is never woken")
    if m < 1:
        raise AnalysisBroken("janet_channel_push_with_lock: enqueue into channel->items not found")


def _ringorder_rule(chk, prog):
    """JanetQueue is a ring: once it has wrapped, the oldest items are in [head, capacity) and the newer ones in
    [0, tail).  Code that walks or copies the whole queue in two pieces (growing the ring, marshalling a channel, marking)
    must therefore handle the piece that starts at `head` first; taking [0, tail) first rotates the queue - no item is
    lost, but later gives overtake earlier ones."""
    rule = "C06-RINGORDER"
    chk.rule(rule, "whoever processes both segments of a wrapped queue handles the segment starting at head before the one starting at 0")
    tu = prog.tus["ev.c"]
    n = 0
    for fn in tu.funcs.values():
        # local aliases of head / tail
        alias = {}
        loopvars = set(y.id for x in fn.nodes if x.k == "for" and x.kids[0] is not None for y in x.kids[0].walk() if y.k == "vardecl")
        for x in fn.nodes:
            if x.k == "vardecl" and x.kids and x.id not in loopvars:
                fields = set(y.field for y in x.kids[0].walk() if y.k == "mem" and y.field in ("head", "tail"))
                if fields:
                    alias[x.name] = fields

        def mentions(e, field):
            for y in e.walk():
                if y.k == "mem" and y.field == field:
                    return True
                if y.k == "ref" and field in alias.get(y.name, ()):
                    return True
            return False
        H, T_ = [], []
        for x in fn.nodes:
            if x.k == "for" and x.kids[0] is not None and x.kids[1] is not None:
                inits = [y for y in x.kids[0].walk() if (y.k == "asg" and y.op == "=") or (y.k == "vardecl" and y.kids)]
                if not inits:
                    continue
                start = inits[0].kids[1] if inits[0].k == "asg" else inits[0].kids[0]
                if mentions(start, "head"):
                    H.append(x)
                elif strip_casts(start).v == 0 and mentions(x.kids[1], "tail") and not mentions(x.kids[1], "head"):
                    T_.append(x)
            if x.k == "call" and x.callee in ("memcpy", "memmove", "safe_memcpy") and len(x.args) == 3:
                if mentions(x.args[1], "head"):
                    H.append(x)
                elif mentions(x.args[2], "tail") and not mentions(x.args[2], "head") and not mentions(x.args[1], "tail"):
                    T_.append(x)
        if not H or not T_:
            continue
        chk.analysed(fn)

        def block_of(x):
            for b in fn.blocks.values():
                if any(e is x or any(y is x for y in e.walk()) for e in b.elems) or (b.term is x) or (b.cond is not None and b.term is x):
                    return b.id
            # a `for` statement: use the block that evaluates its condition
            for b in fn.blocks.values():
                if b.term is x:
                    return b.id
            return None
        for t in T_:
            n += 1
            chk.instance(rule)
            tb = block_of(t)
            late = []
            for h in H:
                hb = block_of(h)
                if tb is None or hb is None:
                    continue
                reach = flow.reachable_from(fn, tb)
                if hb in reach and hb != tb and not (hb in flow.reachable_from(fn, hb) and tb in flow.reachable_from(fn, hb) and h.ln < t.ln):
                    late.append(h)
                elif hb == tb and (h.ln, h.d.get("col", 0)) > (t.ln, t.d.get("col", 0)):
                    late.append(h)
            if late:
                chk.violation(rule, "ev.c", fn.name, "segments", t.loc,
                              "%s handles the queue segment [0, tail) (%s) before the segment that starts at head (%s): for a wrapped "
                              "queue the newer items come out ahead of the older ones" % (fn.name, t.loc, late[0].loc))
            else:
                chk.ok(rule, "%s: the [0, tail) segment at %s is handled after the head segment" % (fn.name, t.loc))
    chk.floor(rule, 2, n)


def _coercefirst_rule(chk, prog):
    """While C code has re-entered the interpreter (janet_call), a fiber cannot suspend: an await is coerced to an error.
    A channel operation that has to wait REGISTERS the fiber on the channel before it suspends, so the "not inside
    janet_call" test has to come before the operation is attempted - afterwards the registration is already in the
    queue, the raise does not remove it, and the next give on that channel resumes the fiber out of some other wait."""
    rule = "C06-COERCEFIRST"
    chk.rule(rule, "a channel operation that can register the fiber is preceded by the janet_call test, or can only be followed by return / janet_await")
    tu = prog.tus["ev.c"]
    OPS = ("janet_channel_pop", "janet_channel_push", "janet_channel_pop_with_lock", "janet_channel_push_with_lock")
    n = 0
    for fn in tu.funcs.values():
        if not fn.name.startswith("cfun_"):
            continue
        ops = [c for c in fn.nodes if c.k == "call" and c.callee in OPS]
        if not ops or not fn.calls("janet_await"):
            continue
        chk.analysed(fn)

        def edge(st, blk, succ, cond, truth):
            c = flow.compare_of(cond, truth)
            if c is None:
                return st
            l = strip_casts(c[0])
            if l.k == "mem" and l.field == "coerce_error" and c[2] is None and c[1] == "==":
                return st | {"plain"}      # coerce_error is known to be 0 here
            return st
        IN, OUT, T = flow.forward_paths(fn, frozenset(), lambda st, x: st, edge=edge)
        for x, S in flow.states_at(fn, IN, T):
            if x in ops:
                n += 1
                chk.instance(rule)
                # after the operation the only way to leave by a raise may be janet_await: its coercion inside janet_call goes
                # through janet_signalv, which bumps the generation and so invalidates the registration just made.  A plain
                # janet_panic after the operation leaves the registration valid.
                xb = [b.id for b in fn.blocks.values() if any(e is x or any(y is x for y in e.walk()) for e in b.elems)]
                later_raise = None
                if xb:
                    for b in flow.reachable_from(fn, xb[0]):
                        for e in fn.blocks[b].elems:
                            if e.k == "call" and e.callee and e.callee != "janet_await" and prog.is_noreturn(e.callee) and \
                                    (b != xb[0] or e.ln > x.ln):
                                later_raise = e
                if S and all("plain" in ps for ps in S):
                    chk.ok(rule, "%s: %s only after the janet_call test" % (fn.name, x.callee))
                elif later_raise is None:
                    chk.ok(rule, "%s: after %s the function can only return or janet_await (whose coercion invalidates the registration)" % (fn.name, x.callee))
                else:
                    chk.violation(rule, "ev.c", fn.name, x.callee, x.loc,
                                  "%s is reached without janet_vm.coerce_error having been tested (and rejected): inside janet_call the "
                                  "operation can park the fiber on the channel and then raise, leaving a live registration behind" % x.callee)
    chk.floor(rule, 4, n)


def run(chk):
    prog = Program.load("default", units=["ev.c"])
    _select_rule(chk, prog)
    _nolostwake_rule(chk, prog)
    _sched_rule(chk, prog)
    _queue_rule(chk, prog)
    _wakepass_rule(chk, prog)
    _ringorder_rule(chk, prog)
    _coercefirst_rule(chk, prog)
    _ringwalk_rule(chk, prog)
    _ringbound_rule(chk, prog)
    _runq_rule(chk, prog)
    _tailwriters_rule(chk, prog)
    _pendingmark_rule(chk, prog)
    _givewithdraw_rule(chk, prog)
    _sweepbound_rule(chk, prog)
    _resizefirst_rule(chk, prog)
    _supervisorpark_rule(chk, prog)


# who may append at the TAIL of a channel's queues; everything that hands an element back (a value bounced by a reader
# that moved on, a registration looked at and kept) re-inserts at the head, or later elements overtake it
TAIL_WRITERS = {
    ("items", "janet_channel_push_with_lock"): "the give itself: a new value goes behind the queued ones",
    ("items", "janet_chanat_unmarshal"): "rebuilds the queue in its marshalled order",
    ("write_pending", "janet_channel_push_with_lock"): "a new blocked giver queues behind earlier ones",
    ("read_pending", "janet_channel_pop_with_lock"): "a new blocked taker queues behind earlier ones",
}


def _tailwriters_rule(chk, prog):
    rule = "C06-TAILWRITERS"
    chk.rule(rule, "only a new give / a new waiter / the unmarshaller appends at the tail of a channel's queues; code that returns an element re-inserts it at the head")
    n = 0
    for fn in prog.tus["ev.c"].funcs.values():
        for c in fn.calls("janet_q_push"):
            q = [y for y in c.args[0].walk() if y.k == "mem" and y.rec == "JanetChannel" and y.field in ("items", "read_pending", "write_pending")]
            if not q:
                continue
            n += 1
            chk.instance(rule)
            chk.analysed(fn)
            key = (q[0].field, fn.name)
            if key in TAIL_WRITERS:
                chk.ok(rule, "%s appends to %s: %s" % (fn.name, q[0].field, TAIL_WRITERS[key]))
            else:
                chk.violation(rule, "ev.c", fn.name, "tail:" + q[0].field, c.loc,
                              "`%s` appends to the tail of a channel's %s outside the operations that add a NEW element: an element that "
                              "is being returned (a value bounced by a reader that moved on) must go back to the head, or values given "
                              "later overtake it and a single giver's order is not kept" % (c.text()[:60], q[0].field))
    chk.floor(rule, 4, n)


def _pendingmark_rule(chk, prog):
    """give, take and close decide whether a queued registration is stale by reading entry.fiber->sched_id, i.e. they
    dereference the fiber of every entry, stale or not.  The channel's mark callback therefore has to keep the fiber
    of EVERY entry alive: marking that depends on the entry's own fields lets the collector free a fiber whose
    registration is still in the ring, and the staleness test then reads freed (possibly reused) memory."""
    rule = "C06-PENDINGMARK"
    chk.rule(rule, "the channel mark callback marks the fiber of every pending entry unconditionally (the staleness test itself dereferences it)")
    tu = prog.tus["ev.c"]
    derefs = 0
    for fn in tu.funcs.values():
        for x in fn.nodes:
            if x.k == "mem" and x.field == "sched_id" and x.rec == "JanetFiber":
                b = strip_casts(x.kids[0])
                if b.k == "mem" and b.field == "fiber" and b.rec == "JanetChannelPending":
                    derefs += 1
    if derefs < 2:
        raise AnalysisBroken("no code dereferences a pending entry's fiber to test staleness any more: re-derive the rule")
    n = 0
    for fn in tu.funcs.values():
        marks = [c for c in fn.calls("janet_mark") if any(y.k == "mem" and y.field == "fiber" and y.rec == "JanetChannelPending" for y in c.walk())]
        if not marks:
            continue
        chk.analysed(fn)
        IN, T = flow.condition_facts(fn)
        res = {}
        for x, S in flow.states_at(fn, IN, T):
            if x in marks:
                bad = None
                for ps in S:
                    for (op, l, r, toks, ln, rn) in ps:
                        for e in (ln, rn):
                            if e is not None and any(y.k == "mem" and y.rec in ("JanetChannelPending", "JanetFiber") for y in e.walk()):
                                bad = e
                res[id(x)] = bad
        for c in marks:
            n += 1
            chk.instance(rule)
            bad = res.get(id(c), "unreached")
            if bad is None:
                chk.ok(rule, "%s: `%s` does not depend on the entry" % (fn.name, c.text()[:50]))
            else:
                chk.violation(rule, "ev.c", fn.name, "conditional-mark", c.loc,
                              "`%s` is reached only under a condition on the entry itself (`%s`): an entry that is skipped keeps a "
                              "pointer to a fiber the collector may free, and give / take / close read entry.fiber->sched_id of every "
                              "entry to decide staleness" % (c.text()[:50], bad.text()[:60] if bad != "unreached" else "unreachable"))
    chk.floor(rule, 1, n)


def _ringwalk_rule(chk, prog):
    """A JanetQueue is a ring: its items are [head, tail) when head <= tail and [head, capacity) + [0, tail) once it
    has wrapped.  `tail - head` and a walk `for (i = head; i < tail; ...)` describe the items only in the first case,
    so both are legitimate only where the order of head and tail has been established on the path."""
    rule = "C06-RINGWALK"
    chk.rule(rule, "`tail - head` and walks from head up to tail of a ring queue occur only where head <= tail is known (the wrapped case is handled apart)")
    n = 0
    for fn in prog.tus["ev.c"].funcs.values():
        sites = []
        for x in fn.nodes:
            if x.k == "bin" and x.op == "-":
                a, b = strip_casts(x.kids[0]), strip_casts(x.kids[1])
                if a.k == "mem" and b.k == "mem" and {a.field, b.field} == {"head", "tail"} and a.rec == "JanetQueue" \
                        and a.kids[0].text() == b.kids[0].text():
                    sites.append((x, a.kids[0].text(), "`%s`" % x.text()))
            if x.k == "for" and x.kids[0] is not None and x.kids[1] is not None:
                inits = [y for y in x.kids[0].walk() if (y.k == "asg" and y.op == "=") or (y.k == "vardecl" and y.kids)]
                cond = strip_casts(x.kids[1])
                if inits and cond.k == "bin" and cond.op in ("<", "!="):
                    start = strip_casts(inits[0].kids[1] if inits[0].k == "asg" else inits[0].kids[0])
                    end = strip_casts(cond.kids[1])
                    if start.k == "mem" and start.field == "head" and start.rec == "JanetQueue" and end.k == "mem" and end.field == "tail" \
                            and start.kids[0].text() == end.kids[0].text():
                        sites.append((x.kids[1], start.kids[0].text(), "the walk from %s to %s" % (start.text(), end.text())))
        if not sites:
            continue
        chk.analysed(fn)
        IN, T = flow.condition_facts(fn)
        seen = set()
        for x, S in flow.states_at(fn, IN, T):
            for (sx, q, what) in sites:
                if x is not sx or sx.id in seen:
                    continue
                seen.add(sx.id)
                n += 1
                chk.instance(rule)
                ok = bool(S)
                for ps in S:
                    good = False
                    for (op, l, r, toks, ln, rn) in ps:
                        if ln is None or rn is None or op not in ("<=", "<", ">", ">="):
                            continue
                        a, b = strip_casts(ln), strip_casts(rn)
                        if a.k == "mem" and b.k == "mem" and {a.field, b.field} == {"head", "tail"} and a.kids[0].text() == q == b.kids[0].text():
                            lo, hi = (a, b) if op in ("<=", "<") else (b, a)
                            if lo.field == "head":       # head <= tail (or head < tail)
                                good = True
                    if not good:
                        ok = False
                if ok:
                    chk.ok(rule, "%s: %s only where head <= tail" % (fn.name, what))
                else:
                    chk.violation(rule, "ev.c", fn.name, "%s:%s" % (q.replace(" ", ""), "diff" if sx.k == "bin" and sx.op == "-" else "walk"), sx.loc,
                                  "%s in %s is reached without head <= tail being established: once the ring has wrapped (tail < head) "
                                  "the difference is negative / the walk is empty and the queued items are skipped" % (what, fn.name))
        for (sx, q, what) in sites:
            if sx.id not in seen:
                n += 1
                chk.instance(rule)
                chk.ok(rule, "%s: %s (unreachable site)" % (fn.name, what))
    chk.floor(rule, 3, n)


def _ringbound_rule(chk, prog):
    """The slots of a JanetQueue are 0 .. capacity-1 and every one of them can hold an item (the queue grows before
    tail catches up with head, so the free slot is wherever tail stands, not the last one).  A walk over the ring
    therefore runs up to `capacity` itself and an index wraps to 0 exactly when it reaches `capacity`: a bound of
    `capacity - 1` (or `+ 1`) skips the last slot or reads one past it."""
    rule = "C06-RINGBOUND"
    chk.rule(rule, "in ev.c a walk bound or wrap-to-zero test over a ring queue compares the index with the queue's capacity itself, not with capacity plus or minus something")
    n = 0

    def caps(e):
        return [y for y in e.walk() if y.k == "mem" and y.field == "capacity" and y.rec == "JanetQueue"]

    def assigns_zero(body):
        for y in body.walk():
            if y.k == "asg" and y.op == "=" and strip_casts(y.kids[1]).v == 0 and strip_casts(y.kids[1]).k in ("int", "lit", "num"):
                return True
        return False
    for fn in sorted(prog.tus["ev.c"].funcs.values(), key=lambda f: f.name):
        sites = []
        for x in fn.nodes:
            cond = None
            if x.k == "for" and x.kids[1] is not None:
                cond, ctx = strip_casts(x.kids[1]), "walk bound"
            elif x.k == "cond" and len(x.kids) == 3 and (strip_casts(x.kids[2]).v == 0 or strip_casts(x.kids[1]).v == 0):
                cond, ctx = strip_casts(x.kids[0]), "wrap test"
            elif x.k == "if" and len(x.kids) >= 2 and x.kids[1] is not None and assigns_zero(x.kids[1]) and len(list(x.kids[1].walk())) <= 8:
                cond, ctx = strip_casts(x.kids[0]), "wrap test"
            if cond is None:
                continue
            while cond.k == "paren" and cond.kids:
                cond = strip_casts(cond.kids[0])
            if cond.k != "bin" or cond.op not in ("<", "<=", ">", ">=", "==", "!="):
                continue
            for side in cond.kids:
                if caps(side):
                    sites.append((cond, strip_casts(side), ctx))
        for cond, side, ctx in sites:
            n += 1
            chk.instance(rule)
            chk.analysed(fn)
            while side.k == "paren" and side.kids:
                side = strip_casts(side.kids[0])
            if side.k == "mem" and side.field == "capacity" and cond.op in ("<", ">=", "==", "!="):
                chk.ok(rule, "%s: %s `%s` compares with the capacity itself" % (fn.name, ctx, cond.text()))
            else:
                chk.violation(rule, "ev.c", fn.name, "%s:%s" % (ctx.replace(" ", "-"), cond.text().replace(" ", "")), cond.loc,
                              "%s `%s` in %s does not compare the ring index with the queue's capacity itself (`<` / `>=` / `==` capacity): the "
                              "slots are 0 .. capacity-1 and all of them hold items once the ring has wrapped, so this bound skips "
                              "the last slot or steps past the array" % (ctx, cond.text(), fn.name))
    chk.floor(rule, 3, n)


def _runq_rule(chk, prog):
    """janet_loop1 runs the scheduled tasks and then blocks in the poll.  A fiber that is already in the run queue
    has its wake-up behind it: nothing will make the poll return for it.  So the poll may be entered only when the
    run-queue loop was left because the queue was empty (or because an interrupt is pending, which the caller handles)."""
    rule = "C06-RUNQ"
    chk.rule(rule, "janet_loop1 enters the blocking poll only after the run queue was found empty or an interrupt is pending")
    fn = prog.need_func("janet_loop1", "ev.c")
    chk.analysed(fn)
    polls = [x for x in fn.nodes if x.k == "call" and x.callee == "janet_loop1_impl"]
    if not polls:
        raise AnalysisBroken("janet_loop1: call of janet_loop1_impl not found")

    def is_spawn(e, f):
        e = strip_casts(e)
        return e.k == "mem" and e.field == f and e.kids and strip_casts(e.kids[0]).k == "mem" and strip_casts(e.kids[0]).field == "spawn"

    def transfer(st, x):
        # scheduling anything after the loop makes the queue non-empty again
        if x.k == "call" and x.callee in ("janet_schedule", "janet_schedule_signal", "janet_schedule_soon", "janet_cancel", "janet_q_push"):
            return st - frozenset(["empty"])
        return st

    def edge(st, blk, succ, cond, truth):
        c = flow.compare_of(cond, truth)
        if c is None:
            return st
        l, op, r = c
        if r is not None and ((is_spawn(l, "head") and is_spawn(r, "tail")) or (is_spawn(l, "tail") and is_spawn(r, "head"))):
            if op == "==":
                return st | frozenset(["empty"])
            return st - frozenset(["empty"])
        ls = strip_casts(l)
        if (r is None or r.v == 0) and op == "!=" and ls.k == "mem" and ls.field == "auto_suspend":
            return st | frozenset(["interrupt"])
        return st
    IN, OUT, T = flow.forward_paths(fn, frozenset(), transfer, edge)
    for x, S in flow.states_at(fn, IN, T):
        if x not in polls:
            continue
        chk.instance(rule)
        if S and all(("empty" in ps) or ("interrupt" in ps) for ps in S):
            chk.ok(rule, "janet_loop1: poll entered with the run queue empty or an interrupt pending")
        else:
            chk.violation(rule, "ev.c", "janet_loop1", "poll-with-runnable", x.loc,
                          "`%s` can be reached on a path that left the run-queue loop while tasks were still queued (neither "
                          "spawn.head == spawn.tail nor a pending interrupt was established): the poll then blocks although a fiber is "
                          "runnable, and with no timer or stream event due it blocks for ever" % x.text()[:40])


def _givewithdraw_rule(chk, prog):
    """A give that has to wait leaves its value in the channel's queue and registers the giver in write_pending; the
    taker that later removes the value wakes the giver.  For a plain give that is the protocol.  For a give CLAUSE of
    ev/select it means the value is queued in the channel of every waiting give clause at once: when the select
    completes through another clause, the registration goes stale but the value stays and is handed to the next taker -
    a value is received although the select reported a different clause (and exactly one)."""
    rule = "C06-GIVEWITHDRAW"
    chk.rule(rule, "a give clause of ev/select that has to wait does not leave its value queued in the channel (or the value is withdrawn when another clause completes)")
    fn = next((f for f in prog.tus["ev.c"].funcs.values() if f.name == "janet_channel_push_with_lock"), None)
    if fn is None:
        raise AnalysisBroken("janet_channel_push_with_lock not found")
    chk.analysed(fn)
    regs = [c for c in fn.calls("janet_q_push") if any(y.k == "mem" and y.field == "write_pending" for y in c.args[0].walk())]
    if not regs:
        raise AnalysisBroken("janet_channel_push_with_lock: the registration in write_pending was not found")
    choice = any(y.k == "ref" and y.name == "JANET_CP_MODE_CHOICE_WRITE" for y in fn.nodes)
    withdraw = [f.name for f in prog.tus["ev.c"].funcs.values()
                if any(c.k == "call" and c.callee in ("janet_q_remove", "janet_q_pop_tail") and any(y.k == "mem" and y.field == "items" for y in c.walk()) for c in f.nodes)]

    def transfer(st, x):
        if x.k == "call" and x.callee == "janet_q_push" and any(y.k == "mem" and y.field == "items" for y in x.args[0].walk()):
            return st | {"queued"}
        return st
    IN, OUT, T = flow.forward_paths(fn, frozenset(), transfer)
    for x, S in flow.states_at(fn, IN, T):
        if x not in regs:
            continue
        chk.instance(rule)
        queued = bool(S) and all("queued" in ps for ps in S)
        if choice and queued and not withdraw:
            chk.violation(rule, "ev.c", fn.name, "choice-write-queued", x.loc,
                          "a give clause of ev/select that must wait reaches `%s` with its value already pushed into channel->items, and "
                          "nothing ever takes a queued value back: (ev/select [a 1] [b 2]) that completes through a leaves 2 in b, and the "
                          "next (ev/take b) receives it" % x.text()[:60])
        else:
            chk.ok(rule, "janet_channel_push_with_lock: a waiting select clause leaves no value behind")
    chk.floor(rule, 1, len(regs))


def _sweepbound_rule(chk, prog):
    """A pass that takes every entry out of a ring and puts the live ones back at the tail visits each entry once only
    if it runs for the number of entries the ring had when it started.  A bound that is re-read from the ring while
    entries are being dropped shrinks with every drop: the pass stops early and leaves the live waiters rotated - the
    oldest waiter is no longer first, so a later give wakes a younger one."""
    rule = "C06-SWEEPBOUND"
    chk.rule(rule, "a loop that pops entries from a ring and re-queues some of them runs for a count fixed before the loop, not one re-read from the ring")
    n = 0
    for fn in prog.tus["ev.c"].funcs.values():
        for lp in [x for x in fn.nodes if x.k == "for"]:
            body = list(lp.kids[3].walk()) if len(lp.kids) > 3 and lp.kids[3] is not None else []
            pops = [c for c in body if c.k == "call" and c.callee == "janet_q_pop"]
            pushes = [c for c in body if c.k == "call" and c.callee in ("janet_q_push", "janet_q_push_head")]
            if not pops or not pushes or lp.kids[1] is None:
                continue
            q = pops[0].args[0].text()
            if not any(c.args[0].text() == q for c in pushes):
                continue
            n += 1
            chk.instance(rule)
            chk.analysed(fn)
            live = [c for c in lp.kids[1].walk() if c.k == "call" and c.callee == "janet_q_count" and c.args and c.args[0].text() == q]
            if live:
                chk.violation(rule, "ev.c", fn.name, "live-bound", lp.kids[1].loc,
                              "`%s` bounds a pass that drops entries from %s by the ring's current count: every dropped entry ends the "
                              "pass one step earlier, the rotation stops half way and the waiters are left in a different order" % (
                                  lp.kids[1].text()[:50], q))
            else:
                chk.ok(rule, "%s: the pass over %s runs for a count taken before it started" % (fn.name, q))
    chk.floor(rule, 1, n)


def _resizefirst_rule(chk, prog):
    """janet_q_maybe_resize grows a full ring: it reallocates `data`, moves the head segment to the end of the new
    block and changes `head` and `capacity`.  An index computed from the queue's fields before that call describes
    the old layout; used afterwards it points in front of the moved segment - in a full ring that is the tail slot, so
    head becomes equal to tail and the queue reads as empty, every queued entry lost."""
    rule = "C06-RESIZEFIRST"
    chk.rule(rule, "a function that may grow a ring queue (janet_q_maybe_resize) uses no value it derived from the queue's fields before that call")
    tu = prog.tus["ev.c"]
    n = 0
    for fn in tu.funcs.values():
        rs = fn.calls("janet_q_maybe_resize")
        if not rs:
            continue
        n += 1
        chk.instance(rule)
        chk.analysed(fn)

        def qfield(e):
            return any(y.k == "mem" and y.rec == "JanetQueue" and y.field in ("head", "tail", "capacity", "data") for y in e.walk())

        def transfer(st, x):
            fresh, stale = st
            if x.k == "vardecl" and x.kids and qfield(x.kids[0]):
                return (fresh | {x.name}, stale - {x.name})
            if x.k == "asg" and x.op == "=" and is_ref(x.kids[0]):
                if qfield(x.kids[1]):
                    return (fresh | {x.kids[0].name}, stale - {x.kids[0].name})
                return (fresh - {x.kids[0].name}, stale - {x.kids[0].name})
            if x.k == "call" and x in rs:
                return (frozenset(), stale | fresh)
            return st
        IN, OUT = flow.forward(fn, (frozenset(), frozenset()), transfer, lambda a, b: (a[0] | b[0], a[1] | b[1]))
        bad = None
        for x, st in flow.states_at(fn, IN, transfer):
            if x.k == "ref" and x.name in st[1] and bad is None:
                p_ = x.parent
                if p_ is not None and p_.k == "asg" and p_.op == "=" and p_.kids[0] is x:
                    continue
                bad = x
        if bad is None:
            chk.ok(rule, "%s: nothing derived from the queue's layout survives the resize" % fn.name)
        else:
            chk.violation(rule, "ev.c", fn.name, bad.name, bad.loc,
                          "`%s` was computed from the queue's head / tail / capacity before janet_q_maybe_resize and is used at %s after it: "
                          "when the ring was full and wrapped, the resize moved the head segment and the stale index lands on the tail slot - "
                          "the queue then reads as empty and every queued entry is lost" % (bad.name, bad.loc))
    chk.floor(rule, 2, n)


def _supervisorpark_rule(chk, prog):
    """A cfunction that ends in janet_await() parks the calling fiber; something must be registered to wake it.  For a
    give that is the pending-writer entry janet_channel_push adds in its blocking modes (0 and 1).  The public
    janet_channel_give is mode 2 - "do not block": over the limit it queues the item, registers nothing and returns 1.
    Awaiting on that result parks the fiber for ever."""
    rule = "C06-PARKMODE"
    chk.rule(rule, "a channel function that awaits on the result of a push uses a blocking mode (janet_channel_push mode 0/1), never the non-registering janet_channel_give / mode 2")
    tu = prog.tus["ev.c"]
    n = 0
    for fn in tu.funcs.values():
        if not fn.calls("janet_await"):
            continue
        pushes = [c for c in fn.nodes if c.k == "call" and c.callee in ("janet_channel_push", "janet_channel_give", "janet_channel_push_with_lock")]
        for c in pushes:
            n += 1
            chk.instance(rule)
            chk.analysed(fn)
            mode = None
            if c.callee == "janet_channel_give":
                mode = 2
            elif len(c.args) >= 3:
                mode = strip_casts(c.args[2]).v
            if mode == 2:
                chk.violation(rule, "ev.c", fn.name, c.callee, c.loc,
                              "%s awaits after `%s`, which is the non-blocking form (mode 2): when the channel is over its limit it returns 1 "
                              "without registering the fiber as a pending writer, so nothing ever resumes it" % (fn.name, c.text()[:50]))
            else:
                chk.ok(rule, "%s: `%s` registers the fiber before it awaits" % (fn.name, c.text()[:40]))
    chk.floor(rule, 2, n)
