"""C19 - deep nesting yields an error, not a crash.

C19-RECURSION every cycle of C recursion in the call graph passes through a function with a depth guard
C19-NONREC    routines deliberately written as loops (value traversal, parser) stay out of every cycle
C19-TAILCALL  the tail-call handler reaches the next dispatch without growing the C stack
C19-LIMITS    the depth limits are positive constants
"""
from jv import flow
from jv.facts import Program, AnalysisBroken
from jv.callgraph import CallGraph
from jv.util import is_ref, is_mem, strip_casts, wraps

EXPLANATION = (
    "Whole-program call graph (direct calls plus function pointers resolved through record fields, tables and "
    "parameter flow), strongly connected components, and a structural recogniser of the repository's depth-guard "
    "idioms (a counter or depth parameter compared against a bound and stepped around the recursion). Oracle: "
    "every SCC with its guarded functions removed is acyclic, i.e. every cycle of native recursion passes a depth "
    "check.  Edges into noreturn functions are not recursion (a panic unwinds).  Decides that a guard exists on "
    "every recursion cycle, not that 1024 frames fit the platform stack.")
ASSUMPTIONS = ["default Linux configuration", "third-party abstract-type hooks are outside the parsed program"]

# call edges that are cycles only because the call graph ignores the event argument; each verified structurally below
EDGE_EXCEPTIONS = {
    ("janet_text_substitution", "cfun"):
        "calls a user-supplied C function with the matched text (and captures) as its only arguments; re-entering text "
        "substitution from there needs a core function that accepts such arguments and substitutes with a function "
        "value - the replace functions need a pattern and a subject in front (arity >= 3), so the nested call raises",
    ("janet_method_invoke", "cfun"):
        "a method value that is a C function: re-entering the same dispatch without passing janet_call needs an abstract "
        "value whose method table maps the looked-up key to a core function that dispatches on the same value again; "
        "no JanetMethod table of the parsed program contains the keys the core looks up by name (checked: 'length', 'next', operators only on int types)",
    ("janet_async_end", "field:JanetFiber.ev_callback"):
        "janet_async_end invokes the callback with JANET_ASYNC_EVENT_DEINIT; the DEINIT arm of every callback is "
        "checked to contain no call (so it cannot re-enter janet_async_end)",
}

# functions that are self-recursive by design on data whose depth is bounded by construction, with reason
# value: (reason, functions that must be recognised as guarded for the reason to hold)
BOUNDED_EXCEPTIONS = {
    "doarg_1": ("the only recursive call passes the constant JANET_OAT_SIMPLETYPE, for which the recursive arm "
                "(argtype == JANET_OAT_TYPE) is unreachable: depth <= 2 (checked: the argument is that constant)", []),
    "janet_asm_addenv": ("walks the assembler parent chain, whose length is the closure nesting depth bounded by janet_asm1's guard",
                         ["janet_asm1"]),
    "janet_mark_funcdef": ("walks nested JanetFuncDefs; every constructor of nested funcdefs is depth-guarded "
                           "(compiler, unmarshal, assembler), so nesting is bounded by JANET_RECURSION_GUARD",
                           ["janet_asm1", "unmarshal_one_def", "janetc_value"]),
    "janet_disasm+janet_disasm_defs": ("walks nested JanetFuncDefs, bounded as for janet_mark_funcdef",
                                       ["janet_asm1", "unmarshal_one_def", "janetc_value"]),
}

# formatter entry points: a call with a literal format that has no Janet-value directive cannot reach value printers
FORMATTERS = ("janet_formatb", "janet_formatc", "janet_formatbv", "janet_dynprintf", "janet_eprintf", "janet_printf")
VALUE_DIRECTIVES = "vVqQpPjmMtTnN"

NONREC = ["janet_equals", "janet_compare", "janet_hash", "janet_parser_consume", "janet_parser_eof"]


def depth_guards(fn, scc_names, cg):
    """Return a description of the depth-guard idiom found in fn, or None.
    Shape: a branch condition compares E with a constant / JANET_RECURSION_GUARD where E is
      (1) a counter stepped (++ -- += -=) in this function, or
      (2) a parameter, and a call to a function of the same SCC passes E+1 / E-1 (or a stepped copy), or
      (3) itself the stepping expression (if (0 == --x), if (x-- == 0))."""
    stepped = {}
    for n in fn.nodes:
        if n.k == "un" and n.op in ("pre++", "post++", "pre--", "post--") and "*" not in (n.kids[0].t or ""):
            stepped[n.kids[0].text()] = n
        elif n.k == "asg" and n.op in ("+=", "-=") and n.kids[1].v == 1:
            stepped[n.kids[0].text()] = n
        elif n.k == "asg" and n.op == "=" and n.kids[0].k == "mem":
            # derived depth: x.depth = parent ? parent->depth + 1 : 0
            fld = n.kids[0].field
            for y in n.kids[1].walk():
                if y.k == "bin" and y.op == "+" and y.kids[1].v == 1 and strip_casts(y.kids[0]).k == "mem" \
                        and strip_casts(y.kids[0]).field == fld:
                    stepped[n.kids[0].text()] = n
    params = set(p["n"] for p in fn.params)
    # parameters passed stepped to SCC members
    passed_stepped = set()
    for c in fn.calls():
        tgt = cg.resolve_name(c.callee, fn.tu) if c.callee else None
        if tgt is None or (isinstance(tgt, tuple) and tgt[1] not in scc_names):
            continue
        for a in c.args:
            a = strip_casts(a)
            if a.k == "bin" and a.op in ("+", "-") and a.kids[1].v in (1,):
                base = strip_casts(a.kids[0])
                if base.k == "bin" and base.op in ("&", "|"):
                    base = strip_casts(base.kids[0])
                if is_ref(base) and base.name in params:
                    passed_stepped.add(base.name)
                elif base.k == "mem" and is_ref(strip_casts(base.kids[0])) :
                    # e.g. ctx->flags + 1 handed on by a hook (janet_marshal_janet)
                    passed_stepped.add(base.text())
    def carrier(e):
        """can expression e carry a depth across activations? -> ('field'|'global'|'param', text) or None"""
        e = strip_casts(e)
        if e.k == "bin" and e.op == "&" and e.kids[1].v is not None:
            e = strip_casts(e.kids[0])
        if e.k == "mem":
            return ("field", e.text())
        if e.k == "ref" and e.d.get("d") in ("gvar", "slocal"):
            return ("global", e.name)
        if e.k == "ref" and e.d.get("d") == "parm":
            return ("param", e.name)
        return None

    LIMITS = ("JANET_RECURSION_GUARD", "JANET_MAX_PROTO_DEPTH", "JANET_MAX_MACRO_EXPAND")
    for b in fn.blocks.values():
        cond = b.cond
        if cond is None:
            continue
        c = cond
        while c.k == "bin" and c.op in ("&&", "||"):
            c = c.kids[1]
        while c.k == "un" and c.op == "!":
            c = c.kids[0]
        cands = []
        if c.k == "bin" and c.op in ("==", "!=", "<", "<=", ">", ">="):
            for side, other in ((c.kids[0], c.kids[1]), (c.kids[1], c.kids[0])):
                o = strip_casts(other)
                if o.v is not None or any(m in LIMITS for m in o.macro_names()):
                    cands.append(strip_casts(side))
        else:
            cands.append(strip_casts(c))
        for e in cands:
            if e.k == "un" and e.op in ("pre--", "post--", "pre++", "post++"):
                cr = carrier(e.kids[0])
                if cr:
                    return "steps and tests %s %s" % cr
                continue
            cr = carrier(e)
            if cr is None:
                continue
            kind, t = cr
            if kind in ("field", "global") and t in stepped:
                return "%s counter %s tested and stepped" % (kind, t)
            if kind == "param" and (t in passed_stepped or t in stepped):
                return "depth parameter %s tested and %s" % (t, "passed stepped" if t in passed_stepped else "stepped")
    return None


def _counter_roles(cg):
    """For global/field counters compared against a recursion limit: which functions only test it
    (testers) and which step it (steppers).  Supports guards split over cooperating functions
    (janet_check_can_resume tests janet_vm.stackn, janet_try_init steps it)."""
    LIMITS = ("JANET_RECURSION_GUARD",)
    testers, steppers = {}, {}
    for fid, fn in cg.funcs.items():
        for n in fn.nodes:
            if n.k == "bin" and n.op in (">=", ">", "<", "<=", "=="):
                for side, other in ((n.kids[0], n.kids[1]), (n.kids[1], n.kids[0])):
                    if any(m in LIMITS for m in strip_casts(other).macro_names()):
                        e = strip_casts(side)
                        if e.k == "mem" or (e.k == "ref" and e.d.get("d") in ("gvar", "slocal")):
                            testers.setdefault(e.text(), set()).add(fid)
            if n.k == "un" and n.op in ("pre++", "post++"):
                e = n.kids[0]
                if e.k == "mem" or (e.k == "ref" and e.d.get("d") in ("gvar", "slocal")):
                    steppers.setdefault(e.text(), set()).add(fid)
    return testers, steppers


def split_guards(cg, prog):
    """functions guarded by a split guard: F calls a stepper of counter C, and every call site of F is
    dominated, in the caller, by a call to a tester of C."""
    testers, steppers = _counter_roles(cg)
    out = {}
    for counter, tset in testers.items():
        sset = steppers.get(counter, set())
        tnames = set(t[1] for t in tset)
        for fid, fn in cg.funcs.items():
            if fid in tset:
                continue
            if not any(cg.resolve_name(c.callee, fn.tu) in sset for c in fn.calls() if c.callee):
                continue
            # all call sites of fn
            callers = [(g, n) for g, sites in cg.sites.items() for (n, tgt, kind) in sites if fid in tgt]
            if not callers:
                continue
            ok = True
            for g, n in callers:
                gfn = cg.funcs[g]

                def transfer(st, x):
                    if x.k == "call" and x.callee in tnames:
                        return frozenset(["t"])
                    return st
                IN, OUT = flow.forward(gfn, frozenset(), transfer, lambda a, b: a & b)
                found = False
                for b, st in IN.items():
                    for x in gfn.blocks[b].elems:
                        if x is n:
                            found = True
                            if "t" not in st:
                                ok = False
                        st = transfer(st, x)
                if not found:
                    ok = False
            if ok:
                # the step has to come BEFORE fn calls anything that can lead back to fn: a recursive call made before
                # the counter is stepped (or without stepping it at all on that path) is not counted
                back = cg.reaches([fid])
                snames = set(x[1] for x in sset)

                def tstep(st, x):
                    if x.k == "call" and x.callee in snames:
                        return frozenset(["s"])
                    if x.k == "un" and x.op in ("pre++", "post++") and x.kids[0].text() == counter:
                        return frozenset(["s"])
                    return st
                IN2, OUT2 = flow.forward(fn, frozenset(), tstep, lambda a, b: a & b)
                late = None
                for b, st in IN2.items():
                    for x in fn.blocks[b].elems:
                        if x.k == "call" and x.callee and x.callee not in snames:
                            tgt = cg.resolve_name(x.callee, fn.tu)
                            if tgt in back and "s" not in st:
                                late = x
                        st = tstep(st, x)
                if late is not None:
                    UNSTEPPED[fid] = (counter, late)
                    continue
                out[fid] = "split guard on %s: steps it via %s, every call site is preceded by the test in %s" % (
                    counter, ",".join(sorted(x[1] for x in sset)), ",".join(sorted(tnames)))
    return out


UNSTEPPED = {}


def _recursion_rule(chk, prog, cg):
    rule = "C19-RECURSION"
    chk.rule(rule, "every call-graph cycle passes through a function with a depth guard")
    excepted_edges = set()
    value_free = set()
    for fid, sites in cg.sites.items():
        for (n, tgt, kind) in sites:
            if (fid[1], kind) in EDGE_EXCEPTIONS:
                for t in tgt:
                    excepted_edges.add((fid, t))

    # edges to formatters whose every call site in the caller has a literal, value-free format
    for fid, sites in cg.sites.items():
        per = {}
        for (n, tgt, kind) in sites:
            if kind == "direct" and n.callee in FORMATTERS:
                fmt = None
                for a in n.args:
                    a2 = strip_casts(a)
                    if a2.k == "str":
                        fmt = a2.d.get("s", "")
                        break
                ok = False
                if fmt is not None:
                    ok = True
                    i = 0
                    while i < len(fmt):
                        if fmt[i] == "%":
                            j = i + 1
                            while j < len(fmt) and fmt[j] in "-+ #0123456789.l":
                                j += 1
                            if j < len(fmt) and fmt[j] in VALUE_DIRECTIVES:
                                ok = False
                            i = j
                        i += 1
                for t in tgt:
                    per[t] = per.get(t, True) and ok
        for t, ok in per.items():
            if ok:
                excepted_edges.add((fid, t))
                value_free.add((fid, t))

    def filt(a, b):
        if prog.is_noreturn(b[1]):
            return False
        if (a, b) in value_free:
            return False
        if (a, b) in excepted_edges:
            # keep the edge if a direct call also exists
            for (n, tgt, kind) in cg.sites.get(a, ()):
                if b in tgt and (a[1], kind) not in EDGE_EXCEPTIONS:
                    return True
            return False
        return True

    for k, v in EDGE_EXCEPTIONS.items():
        chk.exception(rule, "%s -> %s" % k, v)
    comps = cg.sccs(edge_filter=filt)
    chk.instance(rule, len(comps))
    sguards = split_guards(cg, prog)
    all_guarded = set()
    pending_exc = []
    chk.extra["recursive_components"] = []
    nguard = 0
    for comp in comps:
        names = set(x[1] for x in comp)
        guarded = {}
        for fid in comp:
            g = depth_guards(cg.funcs[fid], names, cg) or sguards.get(fid)
            if g:
                guarded[fid] = g
                all_guarded.add(fid[1])
                nguard += 1
        for fid in comp:
            chk.analysed(cg.funcs[fid])
        rest = [f for f in comp if f not in guarded]
        sub = cg.sccs(nodes=rest, edge_filter=filt)
        chk.extra["recursive_components"].append({
            "size": len(comp), "functions": sorted(names)[:12],
            "guarded": {k[1]: v for k, v in sorted(guarded.items())[:12]},
            "unguarded_cycles": [sorted(x[1] for x in s) for s in sub]})
        if not sub:
            chk.ok(rule, "component of %d functions {%s...}: acyclic after removing %d guarded functions (%s)" % (
                len(comp), ", ".join(sorted(names)[:3]), len(guarded),
                "; ".join("%s: %s" % (k[1], v) for k, v in sorted(guarded.items())[:3])))
            continue
        for s in sub:
            snames = sorted(x[1] for x in s)
            # report one representative cycle
            cyc = _cycle(cg, s, filt)
            key = "+".join(snames[:4])
            f0 = cg.funcs[s[0]] if s[0] in cg.funcs else None
            bkey = "+".join(snames)
            if bkey in BOUNDED_EXCEPTIONS:
                pending_exc.append((bkey, cg.funcs[s[0]], cyc))
                continue
            why = ""
            for fid_ in s:
                if fid_ in UNSTEPPED:
                    cnt_, late_ = UNSTEPPED[fid_]
                    why = " (%s calls back into the cycle at %s before it has stepped %s, so that nesting is not counted)" % (
                        fid_[1], late_.loc, cnt_)
            chk.violation(rule, cg.funcs[s[0]].tu.name, snames[0], key, cg.funcs[s[0]].loc,
                          "recursion cycle without any depth check: %s - unbounded nesting of the input overflows "
                          "the native stack%s" % (" -> ".join(cyc), why), cyc)
    # single guarded functions that are their own component never enter all_guarded above unless cyclic; add them
    for bkey, f0, cyc in pending_exc:
        reason, needs = BOUNDED_EXCEPTIONS[bkey]
        missing = [x for x in needs if x not in all_guarded]
        if bkey == "doarg_1":
            # structural check of the stated reason
            fn = f0
            okc = all(len(c.args) >= 2 and strip_casts(c.args[1]).k == "ref" and strip_casts(c.args[1]).name == "JANET_OAT_SIMPLETYPE"
                      for c in fn.calls("doarg_1"))
            if not okc:
                missing.append("constant JANET_OAT_SIMPLETYPE argument")
        if missing:
            chk.violation(rule, f0.tu.name, f0.name, bkey, f0.loc,
                          "recursion cycle %s is only bounded if %s; that no longer holds" % (" -> ".join(cyc), ", ".join(missing)), cyc)
        else:
            chk.exception(rule, bkey, reason)
            chk.ok(rule, "%s (bounded by construction: %s)" % (bkey, reason[:60]))
    chk.extra["guarded_functions"] = nguard
    if len(comps) < 8:
        raise AnalysisBroken("only %d recursive components found" % len(comps))
    return comps


def _cycle(cg, comp, filt):
    comp = set(comp)
    start = sorted(comp, key=str)[0]
    # DFS for a path back to start
    stack = [(start, [start])]
    seen = set()
    while stack:
        x, path = stack.pop()
        for y in cg.edges.get(x, ()):
            if y in comp and filt(x, y):
                if y == start:
                    return [p[1] for p in path] + [start[1]]
                if y not in seen:
                    seen.add(y)
                    stack.append((y, path + [y]))
    return [start[1]]


def _deinit_arms(chk, prog, cg):
    rule = "C19-RECURSION"
    for fid in sorted(cg.field_targets.get(("JanetFiber", "ev_callback"), ()), key=str):
        fn = cg.funcs.get(fid)
        if fn is None:
            continue
        chk.instance(rule)
        bad = None
        found = False
        for n in fn.nodes:
            if n.k == "case" and n.kids and n.kids[0].k == "ref" and n.kids[0].name == "JANET_ASYNC_EVENT_DEINIT":
                found = True
                # statements of this arm: walk the case sub-statement until a break
                for x in n.kids[1].walk() if len(n.kids) > 1 else ():
                    if x.k == "call" and x.callee == "janet_async_end":
                        bad = x
        if bad is not None:
            chk.violation(rule, fn.tu.name, fn.name, "deinit-arm", bad.loc,
                          "the DEINIT arm of an event callback calls janet_async_end, which invokes the callback with DEINIT again")
        else:
            chk.ok(rule, "%s: DEINIT arm %s" % (fn.name, "has no janet_async_end" if found else "absent (default: nothing)"))


def _nonrec_rule(chk, prog, cg, comps):
    rule = "C19-NONREC"
    chk.rule(rule, "iterative routines (value comparison/hash traversal, parser) are in no recursion cycle")
    inscc = set()
    for c in comps:
        for f in c:
            inscc.add(f[1])
    for nm in NONREC:
        chk.instance(rule)
        cg.find(nm)
        if nm in inscc:
            chk.violation(rule, cg.find(nm)[0], nm, nm, cg.funcs[cg.find(nm)].loc,
                          "%s is designed as an explicit-stack loop but is now part of a native recursion cycle" % nm)
        else:
            chk.ok(rule, "%s is in no recursion cycle" % nm)


def _travstack_rule(chk, prog):
    rule = "C19-TRAVSTACK"
    chk.rule(rule, "the explicit traversal stack that replaces recursion in equals/compare is grown before the slot it is about to use is out of range")
    from jv.linear import inequality
    fn = prog.need_func("push_traversal_node", "value.c")
    chk.analysed(fn)
    TOP, CUR = "janet_vm.traversal_top", "janet_vm.traversal"

    def transfer(st, n):
        if n.k == "asg" and n.kids[0].k == "mem" and n.kids[0].field in ("traversal_top", "traversal", "traversal_base"):
            return st | frozenset(["regrown"])
        return st

    def edge(st, blk, succ, cond, truth):
        if cond is None:
            return st
        c = flow.compare_of(cond, truth)
        if c is None or c[2] is None:
            return st
        ineq = inequality(c[0], c[1], c[2])
        if ineq is None:
            return st
        coefs, const, strict = ineq
        # CUR + k < TOP
        if coefs.get(CUR) == 1 and coefs.get(TOP) == -1 and len(coefs) == 2:
            k = const if strict else const - 1
            return st | frozenset([("room", k)])
        return st
    IN, OUT, T = flow.forward_paths(fn, frozenset(), transfer, edge)
    found = False
    for b, S in IN.items():
        for n in fn.blocks[b].elems:
            if n.k == "asg" and n.kids[0].k == "un" and n.kids[0].op == "*":
                tgt = strip_casts(n.kids[0].kids[0])
                if tgt.k == "un" and tgt.op == "pre++" and is_mem(tgt.kids[0], "traversal", "JanetVM"):
                    found = True
                    chk.instance(rule)
                    ok = all(("regrown" in s) or any(f[0] == "room" and f[1] >= 1 for f in s if isinstance(f, tuple)) for s in S)
                    if ok:
                        chk.ok(rule, "store to traversal[1] only after `traversal + 1 < traversal_top` or a regrow")
                    else:
                        chk.violation(rule, "value.c", fn.name, "store", n.loc,
                                      "the node is stored at janet_vm.traversal + 1 on a path that only established a weaker bound "
                                      "than traversal + 1 < traversal_top: when nesting depth equals the capacity one node is written "
                                      "past the buffer")
            S = T(S, n)
    if not found:
        raise AnalysisBroken("push_traversal_node: the store through ++janet_vm.traversal was not found")


def _countdown_rule(chk, prog):
    """Some guards count DOWN and stop at exactly zero (`if (depth == 0)`, `S->depth--; if (S->depth == 0)`): they bound the
    recursion only if they start from a positive number.  A start value of 0 or less is decremented past zero and the
    test never fires.  Every in-tree call that feeds such a counter must pass a value known to be >= 1 (a positive
    constant, or a variable clamped by `if (v < 1) v = <positive constant>`)."""
    rule = "C19-COUNTDOWN"
    chk.rule(rule, "every start value handed to an equality-tested countdown depth guard is known to be >= 1")
    entries = {}      # function name -> index of the parameter that becomes the start value
    funcs = dict((f.name, f) for f in prog.all_funcs())
    # (a) parameter tested == 0 and passed on minus one to the same function
    for fn in prog.all_funcs():
        ps = [p["n"] for p in fn.params]
        for i, pn in enumerate(ps):
            tested = any(x.k == "bin" and x.op == "==" and is_ref(strip_casts(x.kids[0]), pn) and strip_casts(x.kids[1]).v == 0 for x in fn.nodes)
            stepped = any(c.callee == fn.name and len(c.args) > i and strip_casts(c.args[i]).k == "bin" and strip_casts(c.args[i]).op == "-"
                          and is_ref(strip_casts(strip_casts(c.args[i]).kids[0]), pn) and strip_casts(strip_casts(c.args[i]).kids[1]).v == 1
                          for c in fn.calls(fn.name))
            if tested and stepped:
                entries[fn.name] = i
    # (b) record field decremented and tested == 0; functions that initialise it from a parameter
    fields = set()
    for fn in prog.all_funcs():
        dec = set(x.kids[0].field for x in fn.nodes if x.k == "un" and x.op in ("pre--", "post--") and x.kids[0].k == "mem")
        tst = set(strip_casts(x.kids[0]).field for x in fn.nodes if x.k == "bin" and x.op == "==" and strip_casts(x.kids[0]).k == "mem"
                  and strip_casts(x.kids[1]).v == 0)
        for f in dec & tst:
            rec = [x.kids[0].rec for x in fn.nodes if x.k == "un" and x.op in ("pre--", "post--") and x.kids[0].k == "mem" and x.kids[0].field == f]
            fields.add((rec[0], f))
    for fn in prog.all_funcs():
        ps = [p["n"] for p in fn.params]
        for x in fn.nodes:
            if x.k == "asg" and x.op == "=" and x.kids[0].k == "mem" and (x.kids[0].rec, x.kids[0].field) in fields:
                r = strip_casts(x.kids[1])
                if is_ref(r) and r.name in ps:
                    entries[fn.name] = ps.index(r.name)
    if len(entries) < 2:
        raise AnalysisBroken("countdown guards not recognised (found %s)" % sorted(entries))
    # pass-through wrappers
    changed = True
    while changed:
        changed = False
        for fn in prog.all_funcs():
            ps = [p["n"] for p in fn.params]
            for c in fn.nodes:
                if c.k == "call" and c.callee in entries and c.callee != fn.name and len(c.args) > entries[c.callee]:
                    a = strip_casts(c.args[entries[c.callee]])
                    if is_ref(a) and a.name in ps and fn.name not in entries and not any(
                            y.k == "asg" and is_ref(y.kids[0], a.name) for y in fn.nodes):
                        entries[fn.name] = ps.index(a.name)
                        changed = True
    n = 0
    for fn in prog.all_funcs():
        sites = [c for c in fn.nodes if c.k == "call" and c.callee in entries and c.callee != fn.name
                 and len(c.args) > entries[c.callee]]
        ps = [p["n"] for p in fn.params]
        sites = [c for c in sites if not (fn.name in entries and is_ref(strip_casts(c.args[entries[c.callee]]), ps[entries[fn.name]]))]
        if not sites:
            continue
        chk.analysed(fn)

        def transfer(st, x):
            tgt = None
            if x.k == "asg" and is_ref(x.kids[0]):
                tgt, rhs = x.kids[0].name, (x.kids[1] if x.op == "=" else None)
            elif x.k == "vardecl":
                tgt, rhs = x.name, (x.kids[0] if x.kids else None)
            if tgt:
                st = frozenset(f for f in st if f != ("pos", tgt))
                if rhs is not None and strip_casts(rhs).v is not None and strip_casts(rhs).v >= 1:
                    st = st | {("pos", tgt)}
            return st

        def edge(st, blk, succ, cond, truth):
            c = flow.compare_of(cond, truth)
            if c is None or c[2] is None:
                return st
            l, op, r = strip_casts(c[0]), c[1], strip_casts(c[2])
            if is_ref(l) and r.v is not None:
                if (op == ">=" and r.v >= 1) or (op == ">" and r.v >= 0) or (op == "==" and r.v >= 1):
                    return st | {("pos", l.name)}
            return st
        IN, OUT, T = flow.forward_paths(fn, frozenset(), transfer, edge=edge)
        for x, S in flow.states_at(fn, IN, T):
            if x not in sites:
                continue
            n += 1
            chk.instance(rule)
            a = strip_casts(x.args[entries[x.callee]])
            ok = (a.v is not None and a.v >= 1) or (is_ref(a) and all(("pos", a.name) in ps_ for ps_ in S))
            if ok:
                chk.ok(rule, "%s: %s(...%s...) starts the countdown from a positive value" % (fn.name, x.callee, a.text()))
            else:
                chk.violation(rule, fn.tu.name, fn.name, "%s:%s" % (x.callee, a.text()[:20]), x.loc,
                              "%s is started with depth `%s`, which is not known to be >= 1 here; its guard stops only at exactly 0 "
                              "after decrementing, so a start of 0 (or less) recurses once per nesting level of the value until the "
                              "C stack overflows" % (x.callee, a.text()[:30]))
    chk.floor(rule, 4, n)


def _step_rule(chk, prog):
    """Depth carried in a parameter (marshal_one's flags, print_jdn_one's depth ...) bounds the recursion only if the
    value really changes around every cycle: following the parameter through the call graph, every cycle of calls must
    contain at least one edge that passes it stepped (p + 1 / p - 1).  A recursive edge that hands the depth on
    unchanged (say, for prototype links) is unbounded recursion along that edge."""
    rule = "C19-STEP"
    chk.rule(rule, "every call cycle through a parameter-carried depth counter steps the counter on at least one edge")
    LIMITS = ("JANET_RECURSION_GUARD", "JANET_MAX_PROTO_DEPTH", "JANET_MAX_MACRO_EXPAND")
    INT_T = ("int", "int32_t", "uint32_t", "unsigned int")
    LEAF_WRAPS = ("janet_wrap_string", "janet_wrap_symbol", "janet_wrap_keyword", "janet_wrap_number", "janet_wrap_integer",
                  "janet_wrap_nil", "janet_wrap_true", "janet_wrap_false", "janet_wrap_boolean", "janet_csymbolv", "janet_ckeywordv",
                  "janet_cstringv")
    funcs = {}
    for f in prog.all_funcs():
        funcs.setdefault(f.name, f)
    edges = {}       # (F, p) -> list of ((G, q), weight, call node)
    seeds = set()
    zero_tested = set()
    for fn in prog.all_funcs():
        ps = [p["n"] for p in fn.params]
        if not ps:
            continue
        for x in fn.nodes:
            if x.k == "bin" and x.op in ("==", "!=", "<", "<=", ">", ">="):
                for side, other in ((x.kids[0], x.kids[1]), (x.kids[1], x.kids[0])):
                    o = strip_casts(other)
                    e = strip_casts(side)
                    if e.k == "bin" and e.op == "&" and e.kids[1].v is not None:
                        e = strip_casts(e.kids[0])
                    if is_ref(e) and e.name in ps and e.d.get("d") == "parm" and (e.t or "").replace("const ", "") in INT_T and (
                            any(m in LIMITS for m in o.macro_names()) or (o.v == 0 and x.op in ("==", "<=") and side is x.kids[0])):
                        (seeds if any(m in LIMITS for m in o.macro_names()) else zero_tested).add((fn.name, e.name))
        for c in fn.nodes:
            if c.k != "call" or c.callee not in funcs:
                continue
            g = funcs[c.callee]
            gps = [p["n"] for p in g.params]
            # the value handed down is a string/symbol/number: a leaf for every traversal, this edge cannot come back
            if any(wraps(a, w) for a in c.args for w in LEAF_WRAPS):
                continue
            for i, a in enumerate(c.args[:len(gps)]):
                a = strip_casts(a)
                w = 0
                base = a
                if a.k == "bin" and a.op in ("+", "-") and strip_casts(a.kids[1]).v == 1:
                    base, w = strip_casts(a.kids[0]), 1
                if base.k == "bin" and base.op == "&" and base.kids[1].v is not None:
                    base = strip_casts(base.kids[0])
                if is_ref(base) and base.name in ps and base.d.get("d") == "parm" and (base.t or "").replace("const ", "") in INT_T:
                    edges.setdefault((fn.name, base.name), []).append(((g.name, gps[i]), w, c))
    # a parameter tested `== 0` is a countdown counter only if it is also handed on minus one
    for a in zero_tested:
        if any(w == 1 for (_, w, _) in edges.get(a, ())):
            seeds.add(a)
    # family: nodes connected to a seed
    und = {}
    for a, outs in edges.items():
        for (b, w, c) in outs:
            und.setdefault(a, set()).add(b)
            und.setdefault(b, set()).add(a)
    fam = set(seeds)
    work = list(seeds)
    while work:
        a = work.pop()
        for b in und.get(a, ()):
            if b not in fam:
                fam.add(b)
                work.append(b)
    # zero-weight subgraph restricted to the family: any cycle is a violation
    zero = {}
    for a, outs in edges.items():
        if a in fam:
            for (b, w, c) in outs:
                if w == 0 and b in fam:
                    zero.setdefault(a, []).append((b, c))
    n = 0
    reported = set()
    # count stepped edges as discharged obligations
    for a, outs in sorted(edges.items()):
        if a not in fam:
            continue
        for (b, w, c) in outs:
            if b in fam and w == 1:
                n += 1
                chk.instance(rule)
                chk.ok(rule, "%s -> %s passes %s stepped" % (a[0], b[0], a[1]))

    def reach(src, dst):
        seen, work = set(), [src]
        while work:
            u = work.pop()
            for (v, c) in zero.get(u, ()):
                if v == dst:
                    return True
                if v not in seen:
                    seen.add(v)
                    work.append(v)
        return False
    for a, outs in sorted(zero.items()):
        for (b, c) in outs:
            if (b == a or reach(b, a)) and c.id not in reported:
                reported.add(c.id)
                n += 1
                chk.instance(rule)
                fn = funcs[a[0]]
                chk.violation(rule, fn.tu.name, a[0], "%s->%s:%s" % (a[0], b[0], "/".join(x.text().replace(" ", "")[:24] for x in c.args[1:3])), c.loc,
                              "`%s` hands the depth counter `%s` on unchanged and the call can come back to %s without any stepped edge: "
                              "recursion along this edge is not counted, so arbitrarily deep input overflows the C stack" % (
                                  c.text()[:70], a[1], a[0]))
    chk.floor(rule, 30, n)


def run(chk):
    prog = Program.load("default")
    cg = CallGraph(prog)
    comps = _recursion_rule(chk, prog, cg)
    _deinit_arms(chk, prog, cg)
    _nonrec_rule(chk, prog, cg, comps)
    _travstack_rule(chk, prog)
    _countdown_rule(chk, prog)
    _step_rule(chk, prog)
    _freshbudget_rule(chk, prog, cg)
    _protowalk_rule(chk, prog)
    _tailflag_rule(chk, prog)
    _tailcond_rule(chk, prog)
    _depthbalance_rule(chk, prog)
    _markspill_rule(chk, prog)
    _hookstep_rule(chk, prog)
    _reentrybudget_rule(chk, prog, cg, comps)
    _unstep_rule(chk, prog)


def _freshbudget_rule(chk, prog, cg):
    """A function whose recursion is bounded by a depth PARAMETER (tested against 0, handed on minus one) is bounded
    only per entry.  If one of the functions that starts it with a fresh constant can itself be reached from inside the
    recursion, every such re-entry gets a whole new budget: the reachable C depth is the product of the budgets (the
    compiler's quasiquote: 1024 levels per `~`, re-entered through unquote -> janetc_value -> janetc_quasiquote), which
    is more stack than there is.  Inside a cycle the start value has to come from the budget that is already running."""
    rule = "C19-FRESHBUDGET"
    chk.rule(rule, "a depth-parameter recursion is not restarted with a fresh constant budget from inside its own call cycle")
    entries = {}
    for fn in prog.all_funcs():
        ps = [p["n"] for p in fn.params]
        for i, pn in enumerate(ps):
            tested = any(x.k == "bin" and x.op in ("==", "<=", "<") and is_ref(strip_casts(x.kids[0]), pn) and strip_casts(x.kids[1]).v == 0 for x in fn.nodes)
            stepped = any(len(c.args) > i and strip_casts(c.args[i]).k == "bin" and strip_casts(c.args[i]).op == "-"
                          and is_ref(strip_casts(strip_casts(c.args[i]).kids[0]), pn) and strip_casts(strip_casts(c.args[i]).kids[1]).v == 1
                          for c in fn.calls(fn.name))
            if tested and stepped:
                entries[cg.fid(fn)] = (fn, i)
    if len(entries) < 2:
        raise AnalysisBroken("depth-parameter recursions not recognised (%d)" % len(entries))

    def reach(src):
        seen, work = {src}, [src]
        while work:
            v = work.pop()
            for w in cg.callees(v):
                if w not in seen:
                    seen.add(w)
                    work.append(w)
        return seen
    n = 0
    for eid, (efn, i) in sorted(entries.items(), key=lambda kv: kv[1][0].name):
        from_e = reach(eid)
        for gid, g in cg.funcs.items():
            if gid == eid:
                continue
            for c in g.calls(efn.name):
                if cg.resolve_name(c.callee, g.tu) != eid or len(c.args) <= i:
                    continue
                n += 1
                chk.instance(rule)
                chk.analysed(g)
                a = strip_casts(c.args[i])
                fresh = a.v is not None
                if fresh and gid in from_e:
                    path = cg.path(eid, {gid}) or []
                    chk.violation(rule, g.tu.name, g.name, "%s:%s" % (efn.name, a.text()[:24]), c.loc,
                                  "`%s` starts %s with the constant budget %s, and %s is itself reachable from %s (%s): every re-entry gets "
                                  "a fresh budget, so the nesting the C stack has to carry is the product of the budgets, not their sum" % (
                                      c.text()[:50], efn.name, a.text()[:24], g.name, efn.name,
                                      " -> ".join(x[1] if isinstance(x, tuple) else str(x) for x in path[:6])))
                else:
                    chk.ok(rule, "%s: %s started %s" % (g.name, efn.name, "from outside its cycle" if gid not in from_e else "with the running budget `%s`" % a.text()[:20]))
    chk.floor(rule, 3, n)


PROTOWALK_EXCEPTIONS = {
    ("peg.c", "peg_compile1"): "walks the chain of grammar tables the PEG compiler itself builds (each nested grammar is a fresh clone whose "
                               "proto is the enclosing builder table), never a chain a program can close into a cycle",
}


def _protowalk_rule(chk, prog):
    """table/setproto lets a program close a table's prototype chain into a cycle.  Lookups survive that because they
    give up after JANET_MAX_PROTO_DEPTH steps; every other loop that follows JanetTable.proto needs a bound as well."""
    rule = "C19-PROTOWALK"
    chk.rule(rule, "every loop that follows a table's prototype chain is bounded by a counter (prototype chains can be cyclic)")
    n = 0
    for fn in prog.all_funcs():
        for lp in fn.nodes:
            if lp.k not in ("for", "while", "do"):
                continue
            steps = []
            for x in lp.walk():
                if x.k == "asg" and x.op == "=" and is_ref(x.kids[0]):
                    r = strip_casts(x.kids[1])
                    if r.k == "mem" and r.field == "proto" and r.rec == "JanetTable" and is_ref(strip_casts(r.kids[0]), x.kids[0].name):
                        steps.append(x)
            # a chain the loop is building itself: `V->proto = janet_table(...); V = V->proto;`
            built = set()
            for x in lp.walk():
                if x.k == "asg" and x.op == "=" and x.kids[0].k == "mem" and x.kids[0].field == "proto" and \
                        strip_casts(x.kids[1]).k == "call" and (strip_casts(x.kids[1]).callee or "").startswith("janet_table"):
                    built.add(strip_casts(x.kids[0].kids[0]).text())
            steps = [x for x in steps if x.kids[0].name not in built]
            if not steps:
                continue
            # innermost loop only
            if any(y is not lp and y.k in ("for", "while", "do") and any(s_ in list(y.walk()) for s_ in steps) for y in lp.walk()):
                continue
            n += 1
            chk.instance(rule)
            chk.analysed(fn)
            stepped = set()
            for x in lp.walk():
                if x.k == "un" and x.op in ("pre--", "post--", "pre++", "post++") and is_ref(x.kids[0]):
                    stepped.add(x.kids[0].name)
                if x.k == "asg" and x.op in ("-=", "+=") and is_ref(x.kids[0]):
                    stepped.add(x.kids[0].name)
            conds = [k for k in lp.kids[:3] if k is not None and k is not (lp.kids[3] if lp.k == "for" and len(lp.kids) > 3 else None)]
            cond = lp.kids[1] if lp.k == "for" else (lp.kids[0] if lp.k == "while" else lp.kids[-1])
            counted = cond is not None and any(is_ref(y) and y.name in stepped for y in cond.walk())
            key = (fn.tu.name, fn.name)
            if counted:
                chk.ok(rule, "%s: prototype walk bounded by a counter in the loop condition" % fn.name)
            elif key in PROTOWALK_EXCEPTIONS:
                chk.exception(rule, "%s:%s" % key, PROTOWALK_EXCEPTIONS[key])
                chk.ok(rule, "%s: prototype walk over a chain it built itself (exception)" % fn.name)
            else:
                chk.violation(rule, fn.tu.name, fn.name, "proto-walk:%s" % steps[0].kids[0].name, steps[0].loc,
                              "the loop around `%s` follows the prototype chain with no step counter in its condition: "
                              "(table/setproto a b) (table/setproto b a) makes the chain cyclic and the loop never ends" % steps[0].text()[:40])
    chk.floor(rule, 3, n)


TAIL_INHERITORS = ("janetc_do", "janetc_upscope", "janetc_if")


def _tailflag_rule(chk, prog):
    """A call in tail position re-uses the caller's frame, which is what makes loops written as tail recursion run in
    constant stack.  `do`, `upscope` and the branches of `if` pass tail position on to their last form: the option block
    they compile it with has to inherit JANET_FOPTS_TAIL from their own options.  If it does not, every such call is
    compiled as call + return and a tail-recursive loop through that form grows the stack with each iteration."""
    rule = "C19-TAILFLAG"
    chk.rule(rule, "do, upscope and if compile their value-position sub-form with options that inherit the tail-position flag")
    TAIL = None
    for k, v in prog.macros.items():
        if k == "JANET_FOPTS_TAIL":
            try:
                TAIL = int(v["body"].strip(), 0)
            except Exception:
                pass
    if TAIL is None:
        raise AnalysisBroken("JANET_FOPTS_TAIL not found")
    tu = prog.tus["specials.c"]
    for name in TAIL_INHERITORS:
        fn = tu.funcs.get(name)
        if fn is None:
            raise AnalysisBroken("%s not found" % name)
        chk.analysed(fn)
        chk.instance(rule)
        optsname = fn.params[0]["n"]
        inherit = {}      # local option block -> True (inherits TAIL) / False (loses it)
        for x in fn.nodes:
            if x.k != "asg":
                continue
            l = x.kids[0]
            r = strip_casts(x.kids[1])
            if x.op == "=" and is_ref(l) and is_ref(r, optsname):
                inherit.setdefault(l.name, True)
            if l.k == "mem" and l.field == "flags" and is_ref(strip_casts(l.kids[0])):
                v = strip_casts(l.kids[0]).name
                mentions_opts = any(y.k == "mem" and y.field == "flags" and is_ref(strip_casts(y.kids[0]), optsname) for y in r.walk())
                if x.op == "=" and mentions_opts and r.k == "bin" and r.op == "&":
                    m = strip_casts(r.kids[1])
                    keep = m.v
                    if keep is None and m.k == "un" and m.op == "~" and strip_casts(m.kids[0]).v is not None:
                        keep = ~strip_casts(m.kids[0]).v
                    if keep is not None:
                        inherit[v] = bool(keep & TAIL) and inherit.get(v, True)
                        if not (keep & TAIL):
                            inherit[v] = False
                elif x.op == "&=":
                    m = r
                    if m.k == "un" and m.op == "~" and strip_casts(m.kids[0]).v is not None and (strip_casts(m.kids[0]).v & TAIL):
                        inherit[v] = False
                    elif m.v is not None and not (m.v & TAIL):
                        inherit[v] = False
        used = set()
        for c in fn.calls("janetc_value"):
            a = strip_casts(c.args[0])
            if is_ref(a):
                used.add(a.name)
        good = [v for v in used if inherit.get(v) is True]
        if good:
            chk.ok(rule, "%s: sub-form compiled with `%s`, which inherits the tail flag" % (name, good[0]))
        else:
            chk.violation(rule, "specials.c", name, "tail-inherit", fn.loc,
                          "no option block that %s passes to janetc_value inherits JANET_FOPTS_TAIL from its own options (%s): a call in the "
                          "last position of this form is no longer a tail call, and tail-recursive loops through it overflow the fiber's "
                          "stack" % (name, ", ".join("%s: %s" % (k, "inherits" if v else "drops TAIL") for k, v in sorted(inherit.items())) or "none derived from opts"))


def _depthbalance_rule(chk, prog):
    """Several recursive routines bound their native recursion with a counter they step down on the way in and up on
    the way out (the collector's mark depth, the printer's S->depth, the PEG compiler's b->depth).  A path that
    returns without the matching step leaves the counter one too low; with an equality test (`== 0`) the next
    container takes it below zero and the limit never fires again: unbounded native recursion."""
    rule = "C19-DEPTHBALANCE"
    chk.rule(rule, "a routine that steps a recursion-depth counter down returns with it stepped back up on every path")
    n = 0
    for fn in prog.all_funcs():
        if fn.name == "peg_rule":
            continue            # down1 / up1 in the matcher: decided by C12-DEPTH
        steps = {}
        for x in fn.nodes:
            if x.k == "un" and x.op in ("post--", "pre--", "post++", "pre++"):
                t = strip_casts(x.kids[0])
                if (t.k == "mem" and t.field == "depth") or (t.k == "ref" and t.name == "depth"):
                    steps.setdefault(t.text(), []).append(x)
        for key, xs in sorted(steps.items()):
            if not (any("--" in x.op for x in xs) and any("++" in x.op for x in xs)):
                continue
            n += 1
            chk.instance(rule)
            chk.analysed(fn)
            ids = {id(x): (-1 if "--" in x.op else 1) for x in xs}

            def transfer(st, x, ids=ids):
                d = ids.get(id(x), 0)      # every sub-expression is a CFG element of its own: count the step itself only
                if not d:
                    return st
                cur = [int(t[2:]) for t in st if t.startswith("n=")]
                v = max(-3, min(3, (cur[0] if cur else 0) + d))
                return frozenset([t for t in st if not t.startswith("n=")] + ["n=%d" % v])
            IN, OUT, T = flow.forward_paths(fn, frozenset(["n=0"]), transfer, cap=64)
            bad = None
            for b, kind in flow.exits(fn):
                if kind != "return" or b.id not in OUT:
                    continue
                for st in OUT[b.id]:
                    v = [int(t[2:]) for t in st if t.startswith("n=")]
                    if v and v[0] != 0:
                        bad = (b, v[0])
            if bad is None:
                chk.ok(rule, "%s: %s balanced on every returning path" % (fn.name, key))
            else:
                b, v = bad
                where = (b.term or (b.elems[-1] if b.elems else None))
                chk.violation(rule, fn.tu.name, fn.name, "unbalanced:" + key.replace(" ", ""), where.loc if where is not None else fn.loc,
                              "%s can return with `%s` %d step(s) %s than on entry: the depth limit is an equality test on this counter, "
                              "so after the leak the next container steps past zero and everything below it recurses without any limit "
                              "(native stack overflow on deep data)" % (fn.name, key, abs(v), "lower" if v < 0 else "higher"))
    chk.floor(rule, 3, n)


def _markspill_rule(chk, prog):
    """When janet_mark has used up its native depth it does not descend: it parks the value on the root list and
    janet_collect marks it later.  Parking must not depend on anything that could be wrong about the value: a value
    that is neither descended into nor parked stays unmarked and is freed while it is reachable."""
    rule = "C19-MARKSPILL"
    chk.rule(rule, "out of depth, janet_mark parks the value unconditionally (or under a test that covers every type its own switch marks)")
    fn = prog.need_func("janet_mark", "gc.c")
    chk.analysed(fn)
    parks = fn.calls("janet_gcroot")
    if not parks:
        raise AnalysisBroken("janet_mark: the out-of-depth spill (janet_gcroot) was not found")
    own = set()
    for sw in [x for x in fn.nodes if x.k == "switch"]:
        for c in switch_cases_local(sw):
            own.add(c)
    byname = {f.name: f for f in prog.tus["gc.c"].funcs.values()}
    IN, T = flow.condition_facts(fn)
    for x, S in flow.states_at(fn, IN, T):
        if x not in parks:
            continue
        chk.instance(rule)
        bad = None
        for ps in S:
            for (op, l, r, toks, ln, rn) in ps:
                if ln is None:
                    continue
                e = strip_casts(ln)
                if e.k == "ref" and e.name == "depth":
                    continue
                # a filter: acceptable only if it is a function over the value whose switch names every type janet_mark marks
                g = byname.get(e.callee) if e.k == "call" else None
                covered = set()
                if g is not None:
                    for sw in [y for y in g.nodes if y.k == "switch"]:
                        covered |= set(switch_cases_local(sw))
                missing = sorted(own - covered)
                if g is None or missing:
                    bad = (e, missing)
        if bad is None:
            chk.ok(rule, "janet_mark: out of depth the value is always parked on the root list")
        else:
            e, missing = bad
            chk.violation(rule, "gc.c", "janet_mark", "conditional-spill", x.loc,
                          "out of depth janet_mark parks the value only if `%s`%s: a value that is neither descended into nor parked "
                          "stays unmarked, is finalized and freed while it is reachable" % (
                              e.text()[:50], (", which does not handle %s" % ", ".join(missing)) if missing else ""))
    chk.floor(rule, 1, len(parks))


def switch_cases_local(sw):
    from jv.util import switch_cases, case_name
    return [case_name(c) for c in switch_cases(sw) if c.k == "case"]


def _hookstep_rule(chk, prog):
    """marshal_one / unmarshal_one carry their recursion depth in the low bits of `flags` and every nested call passes
    flags + 1.  An abstract type's hook re-enters them through janet_marshal_janet / janet_unmarshal_janet with the
    depth stored in the context.  That edge closes a cycle (value -> abstract -> hook -> value) which the parameter
    analysis cannot see, because it goes through a function pointer and a struct field: if the re-entry passes
    ctx->flags unchanged, a channel inside a channel inside a channel ... recurses without any limit."""
    rule = "C19-HOOKSTEP"
    chk.rule(rule, "the re-entry points for abstract-type hooks (janet_marshal_janet, janet_unmarshal_janet) pass the context's depth plus one")
    tu = prog.tus["marsh.c"]
    n = 0
    for fn in tu.funcs.values():
        if not any("JanetMarshalContext" in p["t"] for p in fn.params):
            continue
        for c in fn.calls("marshal_one", "unmarshal_one"):
            n += 1
            chk.instance(rule)
            chk.analysed(fn)
            a = strip_casts(c.args[-1])
            stepped = a.k == "bin" and a.op == "+" and any(strip_casts(k).k == "int" and (strip_casts(k).v or 0) > 0 for k in a.kids) and \
                any(y.k == "mem" and y.field == "flags" for y in a.walk())
            if stepped:
                chk.ok(rule, "%s: `%s`" % (fn.name, c.text()[:60]))
            else:
                chk.violation(rule, "marsh.c", fn.name, "unstepped-reentry", c.loc,
                              "`%s` re-enters the recursive reader / writer from an abstract type's hook with the depth it was given, "
                              "not one more: values nested through abstract types (a channel holding a channel holding ...) are not "
                              "counted by the recursion guard and overflow the native stack" % c.text()[:70])
    chk.floor(rule, 2, n)


VM_ENTRIES = ("janet_call", "janet_continue", "janet_continue_signal", "janet_pcall", "janet_mcall")


def _reentrybudget_rule(chk, prog, cg, comps):
    """The recursive routines inside the VM's own call cycle (the PEG matcher, the compiler) bound their native depth
    with a counter that starts afresh in every activation.  Where such a routine calls back into Janet code - a cmt /
    replace function, a macro - the callee can start the same routine again with a full budget.  Only the number of
    such nestings is limited (janet_vm.stackn, 1024), so the native stack is bounded by the PRODUCT of the two limits,
    not by either: 200 nested peg/match calls of depth 900 each overflow the C stack."""
    rule = "C19-REENTRYBUDGET"
    chk.rule(rule, "a depth-guarded recursive routine with a per-activation budget calls back into Janet code only with the depth it holds charged to the VM's nested-call budget (janet_vm.stackn)")
    vmcomp = None
    for comp in comps:
        if any(f[1] == "run_vm" for f in comp):
            vmcomp = set(comp)
    if vmcomp is None:
        raise AnalysisBroken("the VM's recursion component was not found")
    n = 0
    for fid in sorted(vmcomp, key=str):
        fn = cg.funcs[fid]
        # per-activation counters: a field of a state object the entry point initialises
        steps = [x for x in fn.nodes if x.k == "un" and x.op in ("post--", "pre--", "post++", "pre++") and strip_casts(x.kids[0]).k == "mem"
                 and strip_casts(x.kids[0]).field in ("depth", "recursion_guard")]
        if not steps:
            continue
        # direct re-entry, or through a helper of the same unit
        hits = []
        counter_fields = set(strip_casts(x.kids[0]).field for x in steps)

        def charged(g, call):
            """is `call` in g bracketed by janet_vm.stackn += <depth held> ... -= <the same>"""
            order = {id(x): i for i, x in enumerate(g.nodes)}
            held = set()
            for x in g.nodes:
                if x.k == "vardecl" and x.kids and any(y.k == "mem" and y.field in counter_fields for y in x.kids[0].walk()):
                    held.add(x.name)
            def is_charge(x, op):
                return x.k == "asg" and x.op == op and is_mem(x.kids[0], "stackn", "JanetVM") and \
                    any((y.k == "ref" and y.name in held) or (y.k == "mem" and y.field in counter_fields) for y in x.kids[1].walk())
            before = [x for x in g.nodes if is_charge(x, "+=") and order[id(x)] < order[id(call)]]
            after = [x for x in g.nodes if is_charge(x, "-=") and order[id(x)] > order[id(call)]]
            return bool(before) and bool(after)
        for c in fn.nodes:
            if c.k != "call" or not c.callee:
                continue
            if c.callee in VM_ENTRIES:
                hits.append((c, c.callee, charged(fn, c)))
            else:
                h = next((g for g in fn.tu.funcs.values() if g.name == c.callee), None)
                if h is not None and h is not fn:
                    for c2 in h.calls(*VM_ENTRIES):
                        hits.append((c, "%s -> %s" % (h.name, c2.callee), charged(h, c2)))
        seen = set()
        for c, via, ok in hits:
            key = via.split(" -> ")[-1] if " -> " not in via else via.replace(" -> ", ">")
            if key in seen:
                continue
            seen.add(key)
            n += 1
            chk.instance(rule)
            chk.analysed(fn)
            if ok:
                chk.ok(rule, "%s: the depth held is charged to janet_vm.stackn around %s" % (fn.name, via))
                continue
            chk.violation(rule, fn.tu.name, fn.name, "reentry:" + key, c.loc,
                          "%s bounds its recursion with `%s`, which every activation starts afresh, and calls back into Janet code "
                          "(%s): the callee can start %s again with a full budget, so nested activations multiply the limits and the "
                          "native stack overflows before any guard fires" % (fn.name, strip_casts(steps[0].kids[0]).text(), via, fn.name))
    chk.floor(rule, 2, n)


def _unstep_rule(chk, prog):
    """A routine that steps its depth counter down on entry and up on exit has used one unit of budget while it runs.
    If it steps the counter back up just before it calls itself (`a grammar only opens a scope, it should not cost a
    level`), that nesting is free: a tower of such forms recurses without any limit although every step is balanced."""
    rule = "C19-UNSTEP"
    chk.rule(rule, "a depth-guarded routine calls itself only with its own unit of budget still taken (the counter is not stepped back before the recursive call)")
    n = 0
    for fn in prog.all_funcs():
        if fn.name == "peg_rule":
            continue
        steps = {}
        for x in fn.nodes:
            if x.k == "un" and x.op in ("post--", "pre--", "post++", "pre++"):
                t = strip_casts(x.kids[0])
                if (t.k == "mem" and t.field in ("depth", "recursion_guard")) or (t.k == "ref" and t.name == "depth"):
                    steps.setdefault(t.text(), []).append(x)
        rec = [c for c in fn.nodes if c.k == "call" and c.callee == fn.name]
        for key, xs in sorted(steps.items()):
            if not rec or not (any("--" in x.op for x in xs) and any("++" in x.op for x in xs)):
                continue
            # direction of the guard: the first step in the function body is the one that takes budget
            order = {id(x): i for i, x in enumerate(fn.nodes)}
            first = min(xs, key=lambda x: order[id(x)])
            take = -1 if "--" in first.op else 1
            ids = {id(x): (-1 if "--" in x.op else 1) for x in xs}

            def transfer(st, x, ids=ids):
                d = ids.get(id(x), 0)
                if not d:
                    return st
                cur = [int(t[2:]) for t in st if t.startswith("n=")]
                return frozenset(["n=%d" % max(-3, min(3, (cur[0] if cur else 0) + d))])
            IN, OUT, T = flow.forward_paths(fn, frozenset(["n=0"]), transfer, cap=64)
            for x, S in flow.states_at(fn, IN, T):
                if x in rec:
                    n += 1
                    chk.instance(rule)
                    chk.analysed(fn)
                    vals = set(int(t[2:]) for ps in S for t in ps if t.startswith("n="))
                    if vals and all(v * take >= 1 for v in vals):
                        chk.ok(rule, "%s: recursive call with %s still stepped" % (fn.name, key))
                    else:
                        chk.violation(rule, fn.tu.name, fn.name, "free-recursion:" + key.replace(" ", ""), x.loc,
                                      "`%s` is reached with `%s` stepped back to its value on entry: this nesting costs no budget, so "
                                      "input that nests only through this path recurses until the native stack overflows" % (x.text()[:50], key))
    chk.floor(rule, 1, n)


def _tailcond_rule(chk, prog):
    """A call in tail position is compiled to JOP_TAILCALL so that loops written as tail recursion run in constant
    stack.  The one deliberate exception is a call that is itself a top-level form (its own scope is the JANET_SCOPE_TOP
    scope), kept as call + return for the sake of stack traces.  Scope parent links are not cut at function
    boundaries, so any wider notion of "top level" (some enclosing scope is the top scope) is true everywhere and
    turns every tail call of that kind into a growing stack."""
    rule = "C19-TAILCOND"
    chk.rule(rule, "every emitter of JOP_TAILCALL for a call in tail position decides by JANET_FOPTS_TAIL and, at most, the JANET_SCOPE_TOP flag of the current scope itself")
    from jv.flow import _atoms
    n = 0
    byname = {}
    for f in prog.all_funcs():
        byname.setdefault(f.name, f)
    for fn in prog.all_funcs():
        if fn.tu.name not in ("compile.c", "cfuns.c"):
            continue
        for x in fn.nodes:
            if x.k != "if" or not any(c.k == "call" and (c.callee or "").startswith("janetc_emit") and
                                      any(y.k == "ref" and y.name == "JOP_TAILCALL" for a in c.args for y in a.walk()) for c in x.kids[1].walk()):
                continue
            if not any("JANET_FOPTS_TAIL" in y.macro_names() or (y.k == "ref" and y.name == "JANET_FOPTS_TAIL") for y in x.kids[0].walk()):
                continue
            n += 1
            chk.instance(rule)
            chk.analysed(fn)
            bad = None
            for alt in _atoms(x.kids[0], True):
                for (a, t) in alt:
                    names = set()
                    for y in a.walk():
                        names.update(m.rstrip("@") for m in y.macro_names())
                        if y.k == "ref":
                            names.add(y.name)
                    if "JANET_FOPTS_TAIL" in names:
                        continue
                    calls = [c for c in a.walk() if c.k == "call"]
                    direct = "JANET_SCOPE_TOP" in names and not calls and any(
                        y.k == "mem" and y.field == "flags" and y.kids and strip_casts(y.kids[0]).k == "mem" and strip_casts(y.kids[0]).field == "scope"
                        for y in a.walk())
                    helper_ok = False
                    if calls and len(calls) == 1 and calls[0].callee in byname:
                        h = byname[calls[0].callee]
                        helper_ok = not any(z.k in ("for", "while", "do") for z in h.nodes) and \
                            not any(z.k == "mem" and z.field == "parent" for z in h.nodes) and \
                            any("JANET_SCOPE_TOP" in z.macro_names() or (z.k == "ref" and z.name == "JANET_SCOPE_TOP") for z in h.nodes)
                    if not (direct or helper_ok):
                        bad = a
            if bad is None:
                chk.ok(rule, "%s: tail call decided by `%s`" % (fn.name, x.kids[0].text()[:60].replace("\n", " ")))
            else:
                chk.violation(rule, fn.tu.name, fn.name, "cond:" + bad.text()[:30].replace(" ", ""), x.loc,
                              "%s emits JOP_TAILCALL only when `%s` also holds, which is more than the current scope being the top-level "
                              "scope: if that condition is true inside functions too (a walk up scope->parent always reaches the top scope), "
                              "calls of this kind in tail position are compiled as call + return and tail-recursive loops through them "
                              "overflow the stack" % (fn.name, bad.text()[:50]))
    chk.floor(rule, 2, n)
