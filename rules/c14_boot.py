"""C14 / C17 clauses over src/boot/boot.janet (reader: jv/janetsrc.py; nothing is expanded or run).

C14-CMPDECLINE  the polymorphic compare asks the left operand's :compare method, then the right operand's, then falls
                back to cmp.  A method may decline (int/s64 and int/u64 return nil for an operand they cannot compare
                with), so the result of either method call is bound and tested before anything is computed from it:
                negating the right operand's answer first turned a declined comparison into an error in one operand
                order only.
C17-NILKEY      a function that remembers the elements it has seen as keys of a table must treat nil separately: nil
                cannot be a table key, so putting it is a no-op and the membership test never succeeds for it.
"""
import os
from jv import janetsrc as js
from jv.facts import REPO, AnalysisBroken

BOOT = os.path.join("src", "boot", "boot.janet")


def _forms():
    try:
        return js.read(open(os.path.join(REPO, BOOT)).read())
    except (IOError, js.JanetSyntaxError) as e:
        raise AnalysisBroken("boot.janet: %s" % e)


def _unq(n):
    while n.t == "unquote":
        n = n.v
    return n


def cmpdecline(chk):
    rule = "C14-CMPDECLINE"
    chk.rule(rule, "do-compare binds the result of each operand's :compare method call as it is and tests it before using it")
    forms = _forms()
    top = js.toplevel(forms)
    if "do-compare" not in top:
        raise AnalysisBroken("boot.janet: do-compare not found")
    f = top["do-compare"][1]
    # method symbols: locals defined as (get X :compare)
    meths = set()
    for y in f.walk():
        if y.t == "tuple" and len(y.v) == 3 and _unq(y.v[0]).t == "sym" and _unq(y.v[0]).v == "def":
            rhs = y.v[2]
            if rhs.t == "tuple" and len(rhs.v) == 3 and _unq(rhs.v[0]).t == "sym" and _unq(rhs.v[0]).v == "get" and rhs.v[2].t == "kw" and rhs.v[2].v == "compare":
                meths.add(_unq(y.v[1]).v)
    if len(meths) < 2:
        raise AnalysisBroken("do-compare: the two :compare method lookups were not recognised")
    n = 0
    for y in f.walk():
        if y.t == "tuple" and y.v and _unq(y.v[0]).t == "sym" and _unq(y.v[0]).v in meths:
            # a call of a method: its parent chain up to the enclosing def must be only (if m <call>)
            n += 1
            chk.instance(rule)
            # find the def that binds it
            holder = None
            for d in f.walk():
                if d.t == "tuple" and len(d.v) == 3 and _unq(d.v[0]).t == "sym" and _unq(d.v[0]).v == "def" and any(z is y for z in d.v[2].walk()):
                    holder = d
            ok = False
            if holder is not None:
                rhs = holder.v[2]
                ok = rhs is y or (rhs.t == "tuple" and _unq(rhs.v[0]).t == "sym" and _unq(rhs.v[0]).v == "if" and len(rhs.v) == 3 and rhs.v[2] is y)
            loc = "%s:%d" % (BOOT, y.line)
            if ok:
                chk.ok(rule, "do-compare: result of (%s ...) is bound unchanged" % _unq(y.v[0]).v)
            else:
                chk.violation(rule, "boot.janet", "do-compare", "method:" + _unq(y.v[0]).v, loc,
                              "the result of the :compare method call at %s is passed on to another function before it is tested: a method that "
                              "declines returns nil, and (compare \"abc\" (int/s64 1)) raises instead of falling back to cmp as the other "
                              "operand order does" % loc)
    chk.floor(rule, 2, n)


def nilkey(chk):
    rule = "C17-NILKEY"
    chk.rule(rule, "a boot.janet function that uses a table as the set of elements seen so far (put and membership test on the loop element) handles nil apart")
    forms = _forms()
    n = 0
    for f in forms:
        if f.head() not in ("defn", "defn-") or len(f.v) < 3:
            continue
        name = f.v[1].v
        params, body = js.fn_parts(f)
        if params is None:
            continue
        # local tables created empty
        tabs = set(y.v[1].v for b in body for y in b.walk() if y.t == "tuple" and y.head() == "def" and len(y.v) == 3 and y.v[1].t == "sym"
                   and y.v[2].t == "table" and not y.v[2].v)
        if not tabs:
            continue
        returned = body[-1].v if body and body[-1].t == "sym" else None
        for b in body:
            for loop in b.walk():
                if loop.t != "tuple" or loop.head() not in ("each", "loop", "eachp", "eachk") or len(loop.v) < 3:
                    continue
                var = loop.v[1].v if loop.v[1].t == "sym" else None
                if var is None:
                    continue
                for t in tabs:
                    if t == returned:
                        continue        # the table is the result (frequencies, group-by): a nil key has nowhere to go by definition
                    puts = [y for y in loop.walk() if y.t == "tuple" and y.head() == "put" and len(y.v) >= 3 and y.v[1].sym() == t and y.v[2].sym() == var]
                    tests = [y for y in loop.walk() if y.t == "tuple" and y.head() in ("in", "get") and len(y.v) >= 3 and y.v[1].sym() == t and y.v[2].sym() == var]
                    if not puts or not tests:
                        continue
                    n += 1
                    chk.instance(rule)
                    nilt = [y for y in loop.walk() if y.t == "tuple" and ((y.head() == "nil?" and len(y.v) == 2 and y.v[1].sym() == var) or
                                                                          (y.head() in ("=", "not=") and len(y.v) == 3 and
                                                                           {y.v[1].text(), y.v[2].text()} == {"nil", var}))]
                    loc = "%s:%d" % (BOOT, puts[0].line)
                    if nilt:
                        chk.ok(rule, "%s: `%s` is tested for nil before it is used as a key of `%s`" % (name, var, t))
                    else:
                        chk.violation(rule, "boot.janet", name, "seen:" + t, loc,
                                      "%s records the elements it has seen with (put %s %s ...) and asks (in %s %s): nil cannot be a table key, so "
                                      "a nil element is never recorded and every nil of the input counts as new" % (name, t, var, t, var))
    chk.floor(rule, 1, n)
