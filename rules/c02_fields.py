"""C02-FIELDWIDTH: every operand the compiler shifts into an instruction word fits the field it is shifted into.

An instruction is a 32-bit word  op | A<<8 | B<<16 | C<<24  (or wider second/third fields).  The emitters in
emit.c build words with raw shifts; nothing in C stops an operand that is too wide from spilling into the
neighbouring field or (top field) from losing its high bits - the program then silently computes with another
slot, constant or environment.  For every  janetc_emit(c, ... | (X << k) | ...)  this rule derives an upper
bound for X from the code (register-allocator contracts, dominating range checks, narrow C types, call-site
arguments of static helpers) and requires bound <= field width on every path on which compilation has not already
been failed with janetc_cerror/janetc_error.
"""
from jv import flow
from jv.facts import AnalysisBroken
from jv.util import is_ref, strip_casts

RULE = "C02-FIELDWIDTH"

# functions whose result is bounded (bits); each entry is re-derived from the function body on every run
BOUNDED_RET = {
    "janetc_regalloc_temp": 8,
    "janetc_allocnear": 8,
    "janetc_regnear": 8,
    "janetc_regfar": 16,
    "janetc_allocfar": 16,
    "janetc_const": 16,
}

# operands whose bound this rule cannot derive, with the reason they fit
EXCEPTIONS = {
    ("janetc_loadconst", "iu"): "16-bit two's complement image of an integer already tested to lie in [INT16_MIN, INT16_MAX] "
                                "(the test is on the double, outside this rule's integer reasoning); top field, so sign bits shift out",
    ("janetc_while", "defindex"): "index of the loop body among the enclosing function's nested definitions; a function with 65536 "
                                  "nested definitions cannot be built within the compiler's recursion and memory limits",
    ("janetc_fn", "defindex"): "see janetc_while",
}

# (callee, parameter, caller): call sites whose argument is wider than the parameter's field but cannot reach the
# emitting branch; each has a precondition that _preconditions() re-checks on every run
CALL_EXCEPTIONS = {
    ("janetc_moveback", "src", "janetc_emit_s"):
        "janetc_emit_s stages its operand with janetc_regfar, which returns a register above 0xFF only when the slot itself is "
        "that local register - and then janetc_moveback has nothing to move (dest.index == src).  Every wr=1 caller passes a "
        "local slot obtained from janetc_gettarget/janetc_farslot (re-checked below).",
}

TYPE_BITS = {"uint8_t": 8, "int8_t": 8, "uint16_t": 16, "int16_t": 16, "unsigned char": 8, "signed char": 8,
             "short": 16, "unsigned short": 16}
ERR_CALLS = ("janetc_cerror", "janetc_error")


def _type_bits(prog, t):
    if not t:
        return None
    t = t.replace("const ", "").strip()
    if t in TYPE_BITS:
        return TYPE_BITS[t]
    if t.startswith("enum "):
        t = t[5:]
    if t in prog.enumtypes:
        mx = max((prog.enums.get(e, 0) for e in prog.enumtypes[t]), default=None)
        if mx is not None:
            return max(1, mx.bit_length())
    return None


class Bounds(object):
    def __init__(self, prog):
        self.prog = prog
        self._param_cache = {}
        self._fn_states = {}

    # ---- path-sensitive per-function facts: ("ub", text, bits) and ("err",) ------------------------------
    def states(self, fn):
        if fn in self._fn_states:
            return self._fn_states[fn]
        B = self

        def key(x):
            x = strip_casts(x)
            if x.k in ("ref", "mem"):
                return x.text().replace(" ", "")
            return None

        def transfer(st, x):
            if x.k == "call" and x.callee in ERR_CALLS:
                return st | {("err",)}
            tgt = rhs = None
            if x.k == "asg" and x.op == "=":
                tgt, rhs = key(x.kids[0]), x.kids[1]
            elif x.k == "asg":
                tgt = key(x.kids[0])
            elif x.k == "vardecl":
                tgt, rhs = x.name, (x.kids[0] if x.kids else None)
            if tgt:
                st = frozenset(f for f in st if not (f[0] == "ub" and (f[1] == tgt or f[1].startswith(tgt + ".") or f[1].startswith(tgt + "->"))))
                if rhs is not None:
                    b = B.bound(fn, rhs, st)
                    if b is not None:
                        st = st | {("ub", tgt, b)}
            return st

        def edge(st, blk, succ, cond, truth):
            c = flow.compare_of(cond, truth)
            if c is None:
                return st
            l, op, r = c
            if r is None:
                return st
            kl, kr = key(l), key(r)
            lv, rv = strip_casts(l).v, strip_casts(r).v
            if kl and rv is not None and rv >= 0:
                if op == "<=":
                    return st | {("ub", kl, rv.bit_length())}
                if op == "<":
                    return st | {("ub", kl, max(rv - 1, 0).bit_length())}
                if op == "==":
                    return st | {("ub", kl, rv.bit_length())}
            if kr and lv is not None and lv >= 0:
                if op == ">=":
                    return st | {("ub", kr, lv.bit_length())}
                if op == ">":
                    return st | {("ub", kr, max(lv - 1, 0).bit_length())}
            return st
        IN, OUT, T = flow.forward_paths(fn, frozenset(), transfer, edge=edge)
        self._fn_states[fn] = (IN, T)
        return IN, T

    # ---- bound of an expression under one fact-set ----------------------------------------------------------
    def bound(self, fn, e, st, depth=0):
        prog = self.prog
        e0 = e
        e = strip_casts(e)
        if e.v is not None:
            return e.v.bit_length() if e.v >= 0 else None
        # a cast to a narrow unsigned type truncates
        if e0.k == "cast":
            tb = TYPE_BITS.get((e0.t or "").replace("const ", "").strip())
            if tb and (e0.t or "").startswith("u"):
                return tb
        if e.k in ("ref", "mem"):
            k = e.text().replace(" ", "")
            bs = [f[2] for f in st if f[0] == "ub" and f[1] == k]
            tb = _type_bits(prog, e.t)
            if tb is not None:
                bs.append(tb)
            if e.k == "mem" and e.field == "index" and e.rec == "JanetSlot":
                bs.append(16)       # invariant re-checked by _preconditions (2)
            if e.k == "ref" and e.d.get("d") == "parm" and depth < 3:
                pb = self.param_bound(fn, e.name, depth)
                if pb is not None:
                    bs.append(pb)
            if (fn.name, k) in EXCEPTIONS:
                return 0
            return min(bs) if bs else None
        if e.k == "call" and e.callee in BOUNDED_RET:
            return BOUNDED_RET[e.callee]
        if e.k == "cond":
            a, b = self.bound(fn, e.kids[1], st, depth), self.bound(fn, e.kids[2], st, depth)
            return None if a is None or b is None else max(a, b)
        if e.k == "bin" and e.op == "+":
            l, r = strip_casts(e.kids[0]), strip_casts(e.kids[1])
            for c, o in ((l, r), (r, l)):
                if c.v is not None and c.v >= 0:
                    ob = self.bound(fn, o, st, depth)
                    if ob is not None:
                        return (c.v + (1 << ob) - 1).bit_length()
            return None
        if e.k == "bin" and e.op == "&" and strip_casts(e.kids[1]).v is not None and strip_casts(e.kids[1]).v >= 0:
            return strip_casts(e.kids[1]).v.bit_length()
        return None

    def param_bound(self, fn, pname, depth):
        """int parameter of a static helper: the widest argument any call site passes (one fact-set per path)."""
        ck = (fn.tu.name, fn.name, pname)
        if ck in self._param_cache:
            return self._param_cache[ck]
        self._param_cache[ck] = None      # recursion guard
        idx = [i for i, p in enumerate(fn.params) if p["n"] == pname]
        if not idx:
            return None
        worst = 0
        sites = 0
        for g in (fn.tu.funcs.values() if fn.static else self.prog.all_funcs()):
            calls = [c for c in g.calls(fn.name) if len(c.args) > idx[0]]
            calls = [c for c in calls if (fn.name, pname, g.name) not in CALL_EXCEPTIONS]
            if not calls:
                continue
            IN, T = self.states(g)
            for x, S in flow.states_at(g, IN, T):
                if x in calls:
                    sites += 1
                    for ps in S:
                        if ("err",) in ps:
                            continue
                        b = self.bound(g, x.args[idx[0]], ps, depth + 1)
                        if b is None:
                            self._param_cache[ck] = None
                            return None
                        worst = max(worst, b)
        # a function nobody calls constrains nothing (and reaches nothing)
        res = worst
        self._param_cache[ck] = res
        return res


def _check_bounded_returns(chk, prog, B):
    """re-derive the BOUNDED_RET table: every value returned is within the claimed bits on every non-failed path"""
    for name, bits in sorted(BOUNDED_RET.items()):
        fn = next((f for f in prog.all_funcs() if f.name == name), None)
        if fn is None:
            raise AnalysisBroken("bounded-return function %s not found" % name)
        chk.analysed(fn)
        IN, T = B.states(fn)
        rets = [x for x in fn.nodes if x.k == "return" and x.kids]
        if not rets:
            raise AnalysisBroken("%s has no return value" % name)
        for x, S in flow.states_at(fn, IN, T):
            if x not in rets:
                continue
            chk.instance(RULE)
            worst = 0
            bad = False
            for ps in S:
                if ("err",) in ps:
                    continue
                b = B.bound(fn, x.kids[0], ps)
                if b is None or b > bits:
                    bad = True
                    worst = b
            if bad:
                chk.violation(RULE, fn.tu.name, name, "return:%s" % x.kids[0].text()[:30], x.loc,
                              "%s is relied on to return a value of at most %d bits (it is shifted into an instruction field of that "
                              "width), but `return %s` can be wider (derived bound: %s) on a path that has not failed compilation"
                              % (name, bits, x.kids[0].text()[:40], worst))
            else:
                chk.ok(RULE, "%s: return %s within %d bits (or compilation already failed)" % (name, x.kids[0].text()[:30], bits))


def _preconditions(chk, prog):
    """(1) janetc_emit_s(..., wr != 0) only ever gets a local register slot; (2) JanetSlot.index is only ever written from
    janetc_allocfar (<= 0xFFFF or compilation failed), -1, or copied from another slot."""
    for fn in prog.all_funcs():
        for c in fn.calls("janetc_emit_s"):
            if len(c.args) != 4 or c.args[3].v == 0:
                continue
            chk.instance(RULE)
            a = strip_casts(c.args[2])
            okay = False
            if is_ref(a):
                name = a.name

                def rd(st, x, name=name):
                    if x.k == "vardecl" and x.name == name:
                        return frozenset([x.id])
                    if x.k == "asg" and x.op == "=" and is_ref(x.kids[0], name):
                        return frozenset([x.id])
                    return st
                IN, OUT = flow.forward(fn, frozenset(), rd, lambda p, q: p | q)
                byid = dict((x.id, x) for x in fn.nodes)
                for x, st in flow.states_at(fn, IN, rd):
                    if x is c:
                        defs = [strip_casts((byid[i].kids[0] if byid[i].k == "vardecl" else byid[i].kids[1])) for i in st
                                if (byid[i].kids if byid[i].k == "vardecl" else True)]
                        okay = bool(defs) and len(defs) == len(st) and \
                            all(d.k == "call" and d.callee in ("janetc_gettarget", "janetc_farslot") for d in defs)
            if okay:
                chk.ok(RULE, "%s: janetc_emit_s(wr=1) on local slot `%s` from gettarget/farslot" % (fn.name, a.text()))
            else:
                chk.violation(RULE, fn.tu.name, fn.name, "emit_s:wr", c.loc,
                              "janetc_emit_s is asked to write back (wr=1) into `%s`, which is not visibly a local register slot from "
                              "janetc_gettarget/janetc_farslot: for an upvalue or var destination with more than 240 live slots the "
                              "staged register is a far register and janetc_moveback shifts it into an 8-bit field" % a.text()[:40])
        for x in fn.nodes:
            if x.k == "asg" and x.kids[0].k == "mem" and x.kids[0].field == "index" and x.kids[0].rec == "JanetSlot":
                chk.instance(RULE)
                r = strip_casts(x.kids[1])
                if (r.k == "call" and r.callee == "janetc_allocfar") or r.v == -1 or \
                        (r.k == "mem" and r.field == "index" and r.rec == "JanetSlot"):
                    chk.ok(RULE, "%s: slot index from %s" % (fn.name, r.text()[:30]))
                else:
                    chk.violation(RULE, fn.tu.name, fn.name, "slot.index", x.loc,
                                  "JanetSlot.index is assigned `%s`; the emitters rely on every local slot index coming from "
                                  "janetc_allocfar (which fails compilation above 0xFFFF)" % r.text()[:40])


def _terms(e):
    e = strip_casts(e)
    if e.k == "bin" and e.op == "|":
        return _terms(e.kids[0]) + _terms(e.kids[1])
    return [e]


def run(chk, prog):
    chk.rule(RULE, "every operand shifted into an instruction word is bounded by the width of its field on all paths that have not failed compilation")
    B = Bounds(prog)
    _check_bounded_returns(chk, prog, B)
    _preconditions(chk, prog)
    for k, v in sorted(CALL_EXCEPTIONS.items()):
        chk.exception(RULE, "%s(%s) called from %s" % k, v)
    n = 0
    for fn in prog.all_funcs():
        if fn.tu.name not in ("emit.c", "specials.c", "cfuns.c", "compile.c"):
            continue
        sites = [c for c in fn.calls("janetc_emit") if len(c.args) == 2]
        if not sites:
            continue
        chk.analysed(fn)
        IN, T = B.states(fn)
        for x, S in flow.states_at(fn, IN, T):
            if x not in sites:
                continue
            terms = _terms(x.args[1])
            shifted = []
            for t in terms:
                if t.k == "bin" and t.op == "<<" and strip_casts(t.kids[1]).v is not None:
                    shifted.append((strip_casts(t.kids[1]).v, t.kids[0]))
            ks = sorted(set(k for k, _ in shifted) | {32})
            for k, operand in shifted:
                width = min(v for v in ks if v > k) - k
                n += 1
                chk.instance(RULE)
                exc = EXCEPTIONS.get((fn.name, strip_casts(operand).text().replace(" ", "")))
                if exc:
                    chk.exception(RULE, "%s: %s" % (fn.name, strip_casts(operand).text()), exc)
                    chk.ok(RULE, "%s: %s << %d (exception)" % (fn.name, strip_casts(operand).text()[:30], k))
                    continue
                worst, bad = 0, False
                for ps in S:
                    if ("err",) in ps:
                        continue
                    b = B.bound(fn, operand, ps)
                    if b is None or b > width:
                        bad, worst = True, b
                if bad:
                    chk.violation(RULE, fn.tu.name, fn.name, "%s<<%d" % (strip_casts(operand).text().replace(" ", "")[:30], k), x.loc,
                                  "`%s` is shifted into a %d-bit instruction field at bit %d, but nothing bounds it to %d bits here "
                                  "(derived bound: %s): a larger value spills into the neighbouring field or loses its high bits and "
                                  "the instruction addresses a different slot/constant/environment"
                                  % (strip_casts(operand).text()[:40], width, k, width, "none" if worst is None else "%d bits" % worst))
                else:
                    chk.ok(RULE, "%s: %s << %d fits %d bits" % (fn.name, strip_casts(operand).text()[:30], k, width))
    chk.floor(RULE, 30, n)
