"""C17 over the part of the sequence library that is written in Janet (src/boot/boot.janet).

C17-REENTRANT   boot.janet keeps module-level mutable state only for the registries listed here: every library function
                can be re-entered through a callback (sort's comparator sorts, map's function maps), so working state
                in a module-level array / table / var is shared between the nested calls and survives a raised error.
C17-SLICESIGN   the take / drop helpers hand a COMPUTED start or end to tuple/slice / string/slice only when a sign
                analysis of the helper proves it non-negative: the slice functions read a negative index as end-relative,
                so a start that goes below zero silently selects a different range instead of being clamped.

Both are decided from the source text of boot.janet with the reader in jv/janetsrc.py: nothing is expanded or run.
"""
import os
from jv import janetsrc as js
from jv.facts import REPO, AnalysisBroken

BOOT = os.path.join("src", "boot", "boot.janet")

# module-level mutable definitions that exist for a reason: registries that are the documented, user-visible state of
# the module system / debugger / image writer, and two private one-slot forward references
MODULE_STATE = {
    "module/cache": "documented registry of loaded modules",
    "module/paths": "documented search path list",
    "module/loading": "documented set of modules being loaded (cycle detection)",
    "module/loaders": "documented table of loader functions",
    "load-image-dict": "documented reverse lookup table for load-image",
    "make-image-dict": "documented lookup table for make-image",
    "debugger-env": "documented environment holding the debugger commands",
    "debugger-on-status-var": "forward reference: set once to the function defined further down",
    "macexvar": "forward reference: set once to macex, which is defined further down",
}
MUTABLE_CTORS = ("array", "table", "buffer", "array/new", "table/new", "buffer/new", "array/new-filled", "buffer/new-filled")


def _load():
    path = os.path.join(REPO, BOOT)
    try:
        text = open(path).read()
    except IOError:
        raise AnalysisBroken("cannot read %s" % path)
    try:
        forms = js.read(text)
    except js.JanetSyntaxError as e:
        raise AnalysisBroken("boot.janet: %s" % e)
    if len(forms) < 200:
        raise AnalysisBroken("boot.janet: only %d top-level forms read" % len(forms))
    return forms


def _reentrant_rule(chk, forms):
    rule = "C17-REENTRANT"
    chk.rule(rule, "boot.janet defines module-level mutable state (var, @[], @{}, @\"\", (array ...), (table ...)) only for the registries of the module system, image writer and debugger")
    n = 0
    for f in forms:
        h = f.head()
        if h not in ("def", "def-", "var", "var-") or len(f.v) < 3 or f.v[1].t != "sym":
            continue
        v = f.v[-1]
        mutable = h in ("var", "var-") or v.t in ("array", "table", "buf") or v.head() in MUTABLE_CTORS
        if not mutable:
            continue
        n += 1
        chk.instance(rule)
        name = f.v[1].v
        if name in MODULE_STATE:
            chk.ok(rule, "%s (line %d): %s" % (name, f.line, MODULE_STATE[name]))
        else:
            users = sorted(set(g.v[1].v for g in forms if g.head() in js.DEFINERS and len(g.v) > 1 and g.v[1].t == "sym" and g is not f
                               and any(x.t == "sym" and x.v == name for x in g.walk())))
            chk.violation(rule, "boot.janet", name, "module-state:" + name, "%s:%d" % (BOOT, f.line),
                          "`%s` is a module-level mutable value used by %s: library functions are re-entered through their callbacks "
                          "(an ordering function that sorts, a mapped function that maps) and can be left by an error, so working "
                          "state outside the call is shared between nested calls and survives a failed one" % (
                              f.text()[:60], ", ".join(users) or "nothing yet"))
    chk.floor(rule, 5, n)


# ---- a sign analysis for the index arithmetic of the take / drop helpers -------------------------------------------------
NEG, ZERO, POS, NIL = "-", "0", "+", "nil"
ANY = frozenset([NEG, ZERO, POS])
NONNEG = frozenset([ZERO, POS])
# helpers whose slice indices are loop-carried and advance by a parameter: out of reach of a sign analysis
SLICESIGN_EXCEPTIONS = {
    "partition-slice": "start / end advance from 0 by n inside a loop that runs (div len n) times; a negative n makes "
                       "(array/new-filled (div len n)) raise before the first slice, or gives zero iterations when len is 0",
}
NONNEG_CALLS = ("length", "count", "inc-nonneg")


def _sign_of_num(v):
    if not isinstance(v, (int, float)):
        return ANY
    return frozenset([NEG if v < 0 else ZERO if v == 0 else POS])


def _neg(s):
    m = {NEG: POS, POS: NEG, ZERO: ZERO, NIL: NIL}
    return frozenset(m[x] for x in s)


def _add(a, b):
    if NIL in a or NIL in b:
        return ANY
    out = set()
    for x in a:
        for y in b:
            if x == ZERO:
                out.add(y)
            elif y == ZERO:
                out.add(x)
            elif x == y:
                out.add(x)
            else:
                return ANY
    return frozenset(out)


class Sign(object):
    def __init__(self):
        self.sites = []      # (call form, arg form, sign, facts text)

    def ev(self, e, env, facts):
        t = e.text()
        s = self._ev(e, env, facts)
        if t in facts:
            s = s & facts[t] if (s & facts[t]) else facts[t]
        return s

    def _ev(self, e, env, facts):
        if e.t == "num":
            return _sign_of_num(e.v)
        if e.t == "sym":
            if e.v == "nil":
                return frozenset([NIL])
            return env.get(e.v, ANY | {NIL})
        h = e.head()
        a = e.v[1:] if e.t == "tuple" else []
        if h in NONNEG_CALLS:
            return NONNEG
        if h == "find-index":
            return NONNEG | {NIL}
        if h == "+":
            s = frozenset([ZERO])
            for k in a:
                s = _add(s, self.ev(k, env, facts))
            return s
        if h == "-" and len(a) == 1:
            return _neg(self.ev(a[0], env, facts))
        if h == "-" and len(a) >= 2:
            s = self.ev(a[0], env, facts)
            for k in a[1:]:
                s = _add(s, _neg(self.ev(k, env, facts)))
            return s
        if h == "max" and a:
            ss = [self.ev(k, env, facts) for k in a]
            if any(x <= frozenset([POS]) for x in ss):
                return frozenset([POS])
            if any(x <= NONNEG for x in ss):
                return NONNEG
            return ANY
        if h == "min" and a:
            ss = [self.ev(k, env, facts) for k in a]
            return NONNEG if all(x <= NONNEG for x in ss) else ANY
        if h == "inc" and len(a) == 1:
            return frozenset([POS]) if self.ev(a[0], env, facts) <= NONNEG else ANY
        if h == "if" and len(a) >= 2:
            ft, ff = self.guard(a[0], env, facts)
            s = self.ev(a[1], env, ft)
            s |= self.ev(a[2], env, ff) if len(a) > 2 else frozenset([NIL])
            return s
        return ANY | {NIL}

    def guard(self, c, env, facts):
        """-> (facts when c is true, facts when c is false)"""
        ft, ff = dict(facts), dict(facts)

        def learn(d, e, s):
            t = e.text()
            cur = d.get(t, self.ev(e, env, d))
            d[t] = (cur & s) or s

        h = c.head()
        a = c.v[1:] if c.t == "tuple" else []
        if h in ("<", "<=") and len(a) >= 2:
            strict = h == "<"
            for x, y in zip(a, a[1:]):
                sx, sy = self.ev(x, env, ft), self.ev(y, env, ft)
                if sy <= frozenset([ZERO, NEG]):
                    learn(ft, x, frozenset([NEG]) if strict or sy <= frozenset([NEG]) else frozenset([NEG, ZERO]))
                if sx <= NONNEG:
                    learn(ft, y, frozenset([POS]) if strict or sx <= frozenset([POS]) else NONNEG)
                # (< (- a) b)  ==>  a + b > 0
                if x.head() == "-" and len(x.v) == 2:
                    for txt in ("(+ %s %s)" % (x.v[1].text(), y.text()), "(+ %s %s)" % (y.text(), x.v[1].text())):
                        ft[txt] = frozenset([POS]) if strict else NONNEG
            if len(a) == 2:          # the negation of a two-place comparison is a comparison again
                x, y = a
                sx, sy = self.ev(x, env, ff), self.ev(y, env, ff)
                # not (x < y)  ==>  y <= x ;  not (x <= y)  ==>  y < x
                if sx <= frozenset([ZERO, NEG]):
                    learn(ff, y, frozenset([NEG]) if not strict else frozenset([NEG, ZERO]))
                if sy <= NONNEG:
                    learn(ff, x, frozenset([POS]) if not strict or sy <= frozenset([POS]) else NONNEG)
        elif h in (">", ">=") and len(a) >= 2:
            rev = js.J("tuple", [js.J("sym", "<" if h == ">" else "<=", c.line)] + list(reversed(a)), c.line)
            return self.guard(rev, env, facts)
        elif h == "neg?" and len(a) == 1:
            learn(ft, a[0], frozenset([NEG]))
            learn(ff, a[0], NONNEG)
        elif h == "pos?" and len(a) == 1:
            learn(ft, a[0], frozenset([POS]))
            learn(ff, a[0], frozenset([NEG, ZERO]))
        elif h == "zero?" and len(a) == 1:
            learn(ft, a[0], frozenset([ZERO]))
        elif h == "nil?" and len(a) == 1:
            learn(ft, a[0], frozenset([NIL]))
            cur = self.ev(a[0], env, ff)
            ff[a[0].text()] = (cur - {NIL}) or cur
        elif h == "not" and len(a) == 1:
            t2, f2 = self.guard(a[0], env, facts)
            return f2, t2
        return ft, ff

    def walk(self, forms, env, facts, fparam):
        """abstractly execute a function body; records the index arguments of every call of the slice parameter"""
        for f in forms:
            h = f.head()
            a = f.v[1:] if f.t == "tuple" else []
            if h in ("def", "def-") and len(a) >= 2 and a[0].t == "sym":
                self.walk([a[-1]], env, facts, fparam)
                env[a[0].v] = self.ev(a[-1], env, facts)
            elif h in ("var", "var-") and len(a) >= 2 and a[0].t == "sym":
                env[a[0].v] = ANY | {NIL}       # assigned elsewhere: not tracked
            elif h == "if" and len(a) >= 2:
                ft, ff = self.guard(a[0], env, facts)
                self.walk([a[1]], dict(env), ft, fparam)
                if len(a) > 2:
                    self.walk([a[2]], dict(env), ff, fparam)
            elif h in ("when", "unless") and a:
                ft, ff = self.guard(a[0], env, facts)
                self.walk(a[1:], dict(env), ft if h == "when" else ff, fparam)
            elif h == "cond":
                cur = dict(facts)
                i = 0
                while i + 1 < len(a):
                    ft, ff = self.guard(a[i], env, cur)
                    self.walk([a[i + 1]], dict(env), ft, fparam)
                    cur = ff
                    i += 2
                if i < len(a):
                    self.walk([a[i]], dict(env), cur, fparam)
            elif h == fparam:
                for k in a[1:]:
                    self.sites.append((f, k, self.ev(k, env, facts)))
            elif f.t == "tuple":
                self.walk(a, env, facts, fparam)


def _slicesign_rule(chk, forms):
    rule = "C17-SLICESIGN"
    chk.rule(rule, "the take / drop helpers pass a computed start / end to the slice function they are given only where it is provably non-negative (a negative index would be read as end-relative)")
    top = js.toplevel(forms)
    # helpers: functions that receive tuple/slice / string/slice as an argument
    helpers = {}
    for f in forms:
        for x in f.walk():
            if x.t == "tuple" and x.head() in top and len(x.v) >= 2:
                for i, k in enumerate(x.v[1:]):
                    if k.t == "sym" and k.v in ("tuple/slice", "string/slice", "array/slice", "buffer/slice"):
                        helpers.setdefault(x.head(), set()).add(i)
    n = 0
    for name in sorted(helpers):
        definer, f = top[name]
        if definer not in ("defn", "defn-"):
            continue
        params, body = js.fn_parts(f)
        if params is None:
            continue
        for pi in sorted(helpers[name]):
            if pi >= len(params.v) or params.v[pi].t != "sym":
                continue
            fparam = params.v[pi].v
            sa = Sign()
            env = {p.v: ANY | {NIL} for p in params.v if p.t == "sym"}
            sa.walk(body, env, {}, fparam)
            for (call, arg, s) in sa.sites:
                n += 1
                chk.instance(rule)
                if arg.t == "sym" and arg.v in [p.v for p in params.v if p.t == "sym"] and s >= ANY:
                    # a caller's index handed through unchanged keeps the caller's (documented, end-relative) meaning
                    chk.ok(rule, "%s: `%s` passes the parameter %s through" % (name, call.text(), arg.v))
                elif s <= NONNEG:
                    chk.ok(rule, "%s: `%s` in `%s` is never negative" % (name, arg.text(), call.text()))
                elif name in SLICESIGN_EXCEPTIONS:
                    chk.exception(rule, "%s:%s" % (name, arg.text()), SLICESIGN_EXCEPTIONS[name])
                else:
                    chk.violation(rule, "boot.janet", name, "index:" + arg.text().replace(" ", ""), "%s:%d" % (BOOT, call.line),
                                  "`%s` hands `%s` to the slice function, and the helper's own tests do not keep it from being %s: "
                                  "tuple/slice and string/slice read a negative index as end-relative, so a count beyond the length "
                                  "selects a different range (or raises) instead of being clamped to the whole sequence" % (
                                      call.text(), arg.text(), "negative" if NIL not in s else "negative or nil"))
    chk.floor(rule, 6, n)


def run(chk):
    forms = _load()
    chk.extra["boot_janet_forms"] = len(forms)
    _reentrant_rule(chk, forms)
    _slicesign_rule(chk, forms)
